//! Corpus of derived types (C12.D, C14.D). Analysed by the pcfacts driver; never executed.
//! `postcard_derive::MaxSize` / `postcard_schema::Schema` are the in-repo derives (by path).
#![allow(dead_code)]
use postcard::experimental::max_size::MaxSize;
use serde::Serialize;
use std::collections::BTreeMap;

pub mod gen_enums;
pub mod sizes;

// ---- Schema + Serialize corpus -------------------------------------------------------------------
#[derive(Serialize, postcard_schema::Schema)]
pub struct UnitS;

#[derive(Serialize, postcard_schema::Schema)]
pub struct NewtypeS(pub u16);

#[derive(Serialize, postcard_schema::Schema)]
pub struct Tup2(pub u8, pub i32);

#[derive(Serialize, postcard_schema::Schema)]
pub struct Tup3(pub bool, pub char, pub f32);

#[derive(Serialize, postcard_schema::Schema)]
pub struct Named {
    pub zeta: u8,
    pub alpha: i16,
    pub mid: u64,
}

#[derive(Serialize, postcard_schema::Schema)]
pub struct Generic<T> {
    pub b: Option<T>,
    pub a: T,
}

#[derive(Serialize, postcard_schema::Schema)]
pub struct Life<'a> {
    pub s: &'a str,
    pub b: &'a [u8],
}

#[derive(Serialize, postcard_schema::Schema)]
pub struct Nested {
    pub inner: Named,
    pub list: Vec<Tup2>,
    pub map: BTreeMap<String, u8>,
    pub e: Mixed,
}

#[derive(Serialize, postcard_schema::Schema)]
#[postcard(crate = postcard_schema)]
pub struct CratePath {
    pub y: i64,
    pub x: i8,
}

#[derive(Serialize, postcard_schema::Schema)]
#[postcard(bound = "T: postcard_schema::Schema")]
pub struct Bounded<T> {
    pub t: T,
    pub n: u32,
}

#[derive(Serialize, postcard_schema::Schema)]
pub struct Arrays {
    pub t: (u8, u16),
    pub a: [u8; 4],
    pub r: Result<u8, i16>,
    pub g: core::ops::Range<u32>,
}

#[derive(Serialize, postcard_schema::Schema)]
pub struct GenericTuple<A, B>(pub B, pub A, pub u8);

#[derive(Serialize, postcard_schema::Schema)]
pub struct EmptyNamed {}

#[derive(Serialize, postcard_schema::Schema)]
pub struct EmptyTuple();

#[derive(Serialize, postcard_schema::Schema)]
pub enum Units {
    Zulu,
    Alpha,
    Mike,
}

#[derive(Serialize, postcard_schema::Schema)]
pub enum Mixed {
    N(u8),
    T(u8, u16),
    S { y: u8, x: u16 },
    U,
}

#[derive(Serialize, postcard_schema::Schema)]
pub enum GenericE<T> {
    Nothing,
    Just(T),
    Pair { second: T, first: u8 },
}

#[derive(Serialize, postcard_schema::Schema)]
pub enum LifeE<'a> {
    B(&'a str),
    C { bytes: &'a [u8] },
}

#[derive(Serialize, postcard_schema::Schema)]
pub enum NestedE {
    A(Named),
    B(Units, Mixed),
    C { inner: Tup3, opt: Option<Units> },
}

#[derive(Serialize, postcard_schema::Schema)]
pub enum Single {
    Only { b: u8, a: u8 },
}

#[derive(Serialize, postcard_schema::Schema)]
pub enum EmptyForms {
    EN {},
    ET(),
    U,
}

// explicit discriminants do not change serde's variant index (declaration position) or names
#[derive(Serialize, postcard_schema::Schema)]
pub enum Discr {
    Zulu = 5,
    Alpha = 1,
    Mike = 3,
}

#[derive(Serialize, postcard_schema::Schema)]
#[repr(u8)]
pub enum DiscrData {
    Big(u64) = 200,
    Small = 2,
    Named { a: u8 } = 100,
    Pair(u8, i16) = 0,
}

#[derive(Serialize, postcard_schema::Schema)]
pub struct Wide {
    pub i1: i128,
    pub u1: u128,
    pub f: f64,
    pub nz: core::num::NonZeroU32,
    pub tup: (u8, i8, bool),
    pub seq: Vec<Option<u16>>,
}

// attributes that are none of serde's business must not change the described shape: layout attributes in particular
// (`repr(transparent)` is a statement about memory layout; serde still writes a newtype struct / a one-field struct)
#[derive(Serialize, postcard_schema::Schema)]
#[repr(transparent)]
pub struct ReprTransparentNewtype(pub f32);

#[derive(Serialize, postcard_schema::Schema)]
#[repr(transparent)]
pub struct ReprTransparentNamed {
    pub raw: u16,
}

#[derive(Serialize, postcard_schema::Schema)]
#[repr(C)]
pub struct ReprC {
    pub a: u8,
    pub b: u32,
}

#[derive(Serialize, postcard_schema::Schema)]
#[repr(C, packed)]
pub struct ReprPacked(pub u8, pub u16);

#[derive(Serialize, postcard_schema::Schema, Clone, Copy, Debug, PartialEq)]
#[allow(dead_code)]
#[repr(i8)]
pub enum ReprI8 {
    Neg = -3,
    Zero = 0,
    Pos = 7,
}
