//! C12 witnesses: const assertions comparing every POSTCARD_MAX_SIZE with the size algebra of spec/src/wire-format.md.
//! The oracle below is written from the specification, not from postcard's code.  A violating tree does not compile and the
//! failing assertion names the type.  Nothing here is executed.
use super::gen_enums::*;
use postcard::experimental::max_size::MaxSize;

/// bytes of a varint able to hold any value of `bits` bits
pub const fn vbits(bits: usize) -> usize {
    (bits + 6) / 7
}
/// bytes of the canonical varint of n (n >= 0): max(1, ceil(bitlen(n)/7))
pub const fn vlen(n: usize) -> usize {
    let mut bits = 0;
    let mut x = n;
    while x > 0 {
        bits += 1;
        x >>= 1;
    }
    if bits == 0 {
        1
    } else {
        (bits + 6) / 7
    }
}
const fn max2(a: usize, b: usize) -> usize {
    if a > b {
        a
    } else {
        b
    }
}
macro_rules! tight {
    ($t:ty, $e:expr) => {
        const _: () = assert!(<$t as MaxSize>::POSTCARD_MAX_SIZE == $e, concat!("POSTCARD_MAX_SIZE of ", stringify!($t), " is not the tight bound ", stringify!($e)));
    };
}
macro_rules! bound {
    ($t:ty, $e:expr) => {
        const _: () = assert!(<$t as MaxSize>::POSTCARD_MAX_SIZE >= $e, concat!("POSTCARD_MAX_SIZE of ", stringify!($t), " is below the largest encoding ", stringify!($e)));
    };
}
const U: usize = usize::BITS as usize;

// primitives (tight)
tight!(bool, 1);
tight!(u8, 1);
tight!(i8, 1);
tight!(u16, vbits(16));
tight!(i16, vbits(16));
tight!(u32, vbits(32));
tight!(i32, vbits(32));
tight!(u64, vbits(64));
tight!(i64, vbits(64));
tight!(u128, vbits(128));
tight!(i128, vbits(128));
tight!(usize, vbits(U));
tight!(isize, vbits(U));
tight!(f32, 4);
tight!(f64, 8);
tight!(char, 1 + 4);
tight!((), 0);
tight!(core::marker::PhantomData<u64>, 0);
// NonZero*
tight!(core::num::NonZeroU8, 1);
tight!(core::num::NonZeroI8, 1);
tight!(core::num::NonZeroU16, vbits(16));
tight!(core::num::NonZeroI16, vbits(16));
tight!(core::num::NonZeroU32, vbits(32));
tight!(core::num::NonZeroI32, vbits(32));
tight!(core::num::NonZeroU64, vbits(64));
tight!(core::num::NonZeroI64, vbits(64));
tight!(core::num::NonZeroU128, vbits(128));
tight!(core::num::NonZeroI128, vbits(128));
tight!(core::num::NonZeroUsize, vbits(U));
tight!(core::num::NonZeroIsize, vbits(U));
// generic impls at instances that separate their atoms
tight!(Option<u64>, 1 + vbits(64));
tight!(Option<()>, 1);
tight!(Result<u8, u64>, 1 + vbits(64));
tight!(Result<u64, u8>, 1 + vbits(64));
tight!(Result<(), ()>, 1);
tight!([u32; 0], 0);
tight!([u32; 7], 7 * vbits(32));
tight!(&u16, vbits(16));
tight!(&mut i64, vbits(64));
tight!(Box<u32>, vbits(32));
tight!(std::rc::Rc<u16>, vbits(16));
tight!(std::sync::Arc<i128>, vbits(128));
tight!((u16,), vbits(16));
tight!((u8, u16), 1 + vbits(16));
tight!((u8, u16, u32), 1 + vbits(16) + vbits(32));
tight!((u8, u16, u32, u64), 1 + vbits(16) + vbits(32) + vbits(64));
tight!((u8, u16, u32, u64, u128), 1 + vbits(16) + vbits(32) + vbits(64) + vbits(128));
tight!((u8, u16, u32, u64, u128, f32), 1 + vbits(16) + vbits(32) + vbits(64) + vbits(128) + 4);
tight!(core::ops::Range<u32>, 2 * vbits(32));
tight!(core::ops::RangeInclusive<i16>, 2 * vbits(16));
tight!(core::ops::RangeFrom<u64>, vbits(64));
tight!(core::ops::RangeTo<u8>, 1);

// heapless containers: length prefix for the capacity + payload; every bit length of the capacity (2^k - 1 and 2^k)
macro_rules! hl {
    ($($n:expr),*) => { $(
        tight!(heapless::Vec<u8, $n>, vlen($n) + $n);
        tight!(heapless::String<$n>, vlen($n) + $n);
    )* };
}
hl!(0, 1, 2, 3, 4, 7, 8, 15, 16, 31, 32, 63, 64, 127, 128, 129, 255, 256, 511, 512, 1023, 1024, 2047, 2048, 4095, 4096, 8191, 8192, 16383, 16384, 16385,
    32767, 32768, 65535, 65536, 131071, 131072, 262143, 262144, 524287, 524288, 1048575, 1048576, 2097151, 2097152, 4194303, 4194304);
tight!(heapless::Vec<u32, 128>, vlen(128) + 128 * vbits(32));
tight!(heapless::Vec<(), 300>, vlen(300));

// derive corpus: sum of fields; enums: varint(largest index) + largest variant (upper bound; tight not claimed for derives)
#[derive(postcard_derive::MaxSize)]
pub struct MUnit;
#[derive(postcard_derive::MaxSize)]
pub struct MNewtype(pub u32);
#[derive(postcard_derive::MaxSize)]
pub struct MTuple(pub u8, pub i64, pub bool);
#[derive(postcard_derive::MaxSize)]
pub struct MNamed {
    pub a: u16,
    pub b: Option<i32>,
    pub c: [u8; 3],
}
#[derive(postcard_derive::MaxSize)]
pub struct MGeneric<T, U> {
    pub t: T,
    pub u: (U, T),
}
#[derive(postcard_derive::MaxSize)]
pub struct MNested {
    pub n: MNamed,
    pub e: MEnum,
    pub g: MGeneric<u8, u64>,
}
#[derive(postcard_derive::MaxSize)]
pub enum MEmpty {}
#[derive(postcard_derive::MaxSize)]
pub enum MSingleUnit {
    Ping,
}
#[derive(postcard_derive::MaxSize)]
pub enum MSingleNewtype {
    V1(u32),
}
#[derive(postcard_derive::MaxSize)]
pub enum MEnum {
    A,
    B(u64),
    C(u8, u16),
    D { x: i128, y: bool },
}
#[derive(postcard_derive::MaxSize)]
pub enum MGenericE<T> {
    None_,
    Some_(T),
    Two { a: T, b: T },
}
// explicit discriminants: the payload of such a variant still counts, the index is the declaration position
#[derive(postcard_derive::MaxSize)]
#[repr(u8)]
pub enum MDiscr {
    A(u64) = 7,
    B = 1,
    C { x: i128, y: u8 } = 3,
}
#[derive(postcard_derive::MaxSize)]
pub enum MDiscrUnit {
    A = 300,
    B = 2,
}
#[derive(postcard_derive::MaxSize)]
#[repr(u16)]
pub enum MDiscrOnly {
    Only(u32, u32) = 1000,
}
// serde attributes that only sometimes (or only on one side) omit a field: `skip_serializing_if` still writes the field whenever the
// predicate is false and `skip_deserializing` always writes it, so the bound has to count them
#[derive(serde::Serialize, serde::Deserialize, postcard_derive::MaxSize)]
pub struct MSkipIf {
    pub id: u8,
    #[serde(skip_serializing_if = "Option::is_none")]
    pub reading: Option<u32>,
    #[serde(skip_deserializing)]
    pub seq: u16,
}
#[derive(serde::Serialize, postcard_derive::MaxSize)]
pub enum MSkipIfEnum {
    A(#[serde(skip_serializing_if = "Option::is_none")] Option<u64>),
    B {
        #[serde(rename = "r")]
        x: u32,
    },
}
bound!(MSkipIf, 1 + 1 + vbits(32) + vbits(16));
bound!(MSkipIfEnum, vlen(1) + 1 + vbits(64));
bound!(MDiscr, vlen(2) + vbits(128) + 1);
bound!(MDiscrUnit, vlen(1));
bound!(MDiscrOnly, vlen(0) + 2 * vbits(32));
bound!(MUnit, 0);
bound!(MNewtype, vbits(32));
bound!(MTuple, 1 + vbits(64) + 1);
bound!(MNamed, vbits(16) + 1 + vbits(32) + 3);
bound!(MGeneric<u8, u64>, 1 + vbits(64) + 1);
bound!(MGeneric<u128, ()>, 2 * vbits(128));
bound!(MSingleUnit, vlen(0));
bound!(MSingleNewtype, vlen(0) + vbits(32));
bound!(MEnum, vlen(3) + max2(max2(0, vbits(64)), max2(1 + vbits(16), vbits(128) + 1)));
bound!(MGenericE<u64>, vlen(2) + 2 * vbits(64));
bound!(MNested, (vbits(16) + 1 + vbits(32) + 3) + (vlen(3) + vbits(128) + 1) + (1 + vbits(64) + 1));
bound!(Many1, vlen(0) + vbits(32));
bound!(Many2, vlen(1) + vbits(32));
bound!(Many127, vlen(126) + vbits(32));
bound!(Many128, vlen(127) + vbits(32));
bound!(Many129, vlen(128) + vbits(32));
