//! Compile-time witnesses for lifetime clauses (C04.L, C05, C11.L).
//!
//! Every `compile_fail` block has a compiling twin (`no_run`: compiled, never executed) that differs only by the
//! offending scope, so a witness cannot pass merely because a path or a signature is wrong.
//! Run with `cargo +nightly test --doc` (error codes are only checked on nightly).

/// W1: a `&str` decoded by `from_bytes` cannot outlive the input buffer.
/// ```compile_fail,E0597
/// let s: &str = {
///     let buf = [1u8, b'a'];
///     postcard::from_bytes::<&str>(&buf).unwrap()
/// };
/// assert_eq!(s, "a");
/// ```
/// twin:
/// ```no_run
/// let buf = [1u8, b'a'];
/// let s: &str = { postcard::from_bytes::<&str>(&buf).unwrap() };
/// assert_eq!(s, "a");
/// ```
pub struct W1FromBytesBorrow;

/// W2: neither the value nor the remainder of `take_from_bytes` can outlive the input buffer.
/// ```compile_fail,E0597
/// let (s, rest): (&[u8], &[u8]) = {
///     let buf = [1u8, 7, 9];
///     postcard::take_from_bytes::<&[u8]>(&buf).unwrap()
/// };
/// assert_eq!((s.len(), rest.len()), (1, 1));
/// ```
/// twin:
/// ```no_run
/// let buf = [1u8, 7, 9];
/// let (s, rest): (&[u8], &[u8]) = { postcard::take_from_bytes::<&[u8]>(&buf).unwrap() };
/// assert_eq!((s.len(), rest.len()), (1, 1));
/// ```
pub struct W2TakeFromBytesBorrow;

/// W3: a value decoded by `from_io` borrows the caller's scratch buffer and cannot outlive it.
/// ```compile_fail,E0597
/// let data = [2u8, 5, 6];
/// let v: &[u8] = {
///     let mut scratch = [0u8; 8];
///     let (v, _) = postcard::from_io::<&[u8], _>((&data[..], &mut scratch[..])).unwrap();
///     v
/// };
/// assert_eq!(v, &[5, 6]);
/// ```
/// twin:
/// ```no_run
/// let data = [2u8, 5, 6];
/// let mut scratch = [0u8; 8];
/// let v: &[u8] = {
///     let (v, _) = postcard::from_io::<&[u8], _>((&data[..], &mut scratch[..])).unwrap();
///     v
/// };
/// assert_eq!(v, &[5, 6]);
/// ```
pub struct W3FromIoScratchBorrow;

/// W4: while a value decoded by `from_io` is alive the scratch buffer stays mutably borrowed.
/// ```compile_fail,E0499
/// let data = [2u8, 5, 6];
/// let mut scratch = [0u8; 8];
/// let (v, _) = postcard::from_io::<&[u8], _>((&data[..], &mut scratch[..])).unwrap();
/// let again = &mut scratch;
/// again[0] = 1;
/// assert_eq!(v, &[5, 6]);
/// ```
/// twin:
/// ```no_run
/// let data = [2u8, 5, 6];
/// let mut scratch = [0u8; 8];
/// let (v, _) = postcard::from_io::<&[u8], _>((&data[..], &mut scratch[..])).unwrap();
/// assert_eq!(v, &[5, 6]);
/// let again = &mut scratch;
/// again[0] = 1;
/// ```
pub struct W4FromIoScratchExclusive;

/// W5: the slice flavor cannot be built from a buffer that dies before it (`de_flavors::Slice::new`).
/// ```compile_fail,E0597
/// use postcard::de_flavors::{Flavor, Slice};
/// let mut f = {
///     let buf = [1u8, 2];
///     Slice::new(&buf)
/// };
/// let _ = f.pop();
/// ```
/// twin:
/// ```no_run
/// use postcard::de_flavors::{Flavor, Slice};
/// let buf = [1u8, 2];
/// let mut f = { Slice::new(&buf) };
/// let _ = f.pop();
/// ```
pub struct W5DeSliceLifetime;

/// W6: a value decoded by `feed_ref` borrows the accumulator: it cannot be fed again while the value is alive.
/// ```compile_fail,E0499
/// use postcard::accumulator::{CobsAccumulator, FeedResult};
/// let mut acc: CobsAccumulator<16> = CobsAccumulator::new();
/// let r1 = acc.feed_ref::<&[u8]>(&[3, 1, 9, 0]);
/// let r2 = acc.feed_ref::<&[u8]>(&[3, 1, 9, 0]);
/// if let (FeedResult::Success { data, .. }, _) = (r1, r2) { assert_eq!(data, &[9]); }
/// ```
/// twin:
/// ```no_run
/// use postcard::accumulator::{CobsAccumulator, FeedResult};
/// let mut acc: CobsAccumulator<16> = CobsAccumulator::new();
/// let r1 = acc.feed_ref::<&[u8]>(&[3, 1, 9, 0]);
/// if let FeedResult::Success { data, .. } = r1 { assert_eq!(data, &[9]); }
/// let r2 = acc.feed_ref::<&[u8]>(&[3, 1, 9, 0]);
/// if let FeedResult::Success { data, .. } = r2 { assert_eq!(data, &[9]); }
/// ```
pub struct W6FeedRefBorrowsAccumulator;

/// W7: the slice returned by `to_slice` borrows the output buffer and cannot outlive it.
/// ```compile_fail,E0597
/// let out: &mut [u8] = {
///     let mut buf = [0u8; 8];
///     postcard::to_slice(&7u8, &mut buf).unwrap()
/// };
/// assert_eq!(out.len(), 1);
/// ```
/// twin:
/// ```no_run
/// let mut buf = [0u8; 8];
/// let out: &mut [u8] = { postcard::to_slice(&7u8, &mut buf).unwrap() };
/// assert_eq!(out.len(), 1);
/// ```
pub struct W7ToSliceBorrow;

/// W8: a value decoded by `from_bytes_cobs` borrows the (mutable) frame buffer.
/// ```compile_fail,E0597
/// let v: &[u8] = {
///     let mut frame = [3u8, 1, 9, 0];
///     postcard::from_bytes_cobs::<&[u8]>(&mut frame).unwrap()
/// };
/// assert_eq!(v, &[9]);
/// ```
/// twin:
/// ```no_run
/// let mut frame = [3u8, 1, 9, 0];
/// let v: &[u8] = { postcard::from_bytes_cobs::<&[u8]>(&mut frame).unwrap() };
/// assert_eq!(v, &[9]);
/// ```
pub struct W8FromBytesCobsBorrow;
