#!/usr/bin/env python3
"""Record the definition paths of all structs/enums of the reviewed tree per configuration (rules/expect2/adts_<cfg>.json): the names the
specifications use.  Read by facts.py to recognise a type that merely moved behind a re-export.  Never run by a check."""
import json, os, sys
sys.path.insert(0, os.path.join(os.path.dirname(os.path.dirname(os.path.abspath(__file__))), "rules"))
import facts
for cfg in sys.argv[1:] or ["A", "B"]:
    p = os.path.join(facts.VERIF, "rules", "expect2", "adts_%s.json" % cfg)
    if os.path.exists(p):
        os.remove(p)          # never rename while recording
    facts._loaded.clear()
    F = facts.load(cfg)
    out = {cn: sorted(a["def"] for a in cr.j["adts"]) for cn, cr in F.crates.items()}
    # shapes of the types (a private type renamed in place keeps its shape: facts.adt_shape)
    out.update({cn + "#shapes": {a["def"]: facts.adt_shape(a) for a in cr.j["adts"]} for cn, cr in F.crates.items()})
    # free functions too (a function moved into a private module and re-exported keeps its recorded path)
    out.update({cn + "#fns": sorted(set(f["def"] for f in cr.j["fns"] if f.get("dk") == "Fn")) for cn, cr in F.crates.items()})
    json.dump(out, open(p, "w"), indent=1, sort_keys=True)
    print(cfg, {k: len(v) for k, v in out.items()})
