#!/usr/bin/env python3
"""Confirm the mutants produced by the independent sub-agents (in /tmp/mut/Cxx/out) in scratch worktrees of /repo's HEAD and
copy the confirmed ones to /verif/seeded/<prop>-m<n>/ {patch.diff, demo.rs, meta.json}.
Confirmed = patch applies, workspace compiles and the whole baseline suite passes with it, the demonstration fails with it and
passes without it.  Scratch worktrees and their build output live under /tmp/scratch and are removed at the end."""
import concurrent.futures as cf
import glob, json, os, re, shutil, subprocess, sys

REPO = "/repo"
SCR = "/tmp/scratch"
OUT = "/verif/seeded"
NW = int(os.environ.get("NW", "6"))
MUT = os.environ.get("MUTDIR", "/tmp/mut")      # where the sub-agents left their out/ directories
OFF = int(os.environ.get("NOFF", "0"))           # offset added to the agent's mutant number (round 2: 3)


def sh(cmd, cwd, env=None, timeout=3000):
    e = dict(os.environ, CARGO_NET_OFFLINE="true")
    if env:
        e.update(env)
    r = subprocess.run(cmd, cwd=cwd, env=e, shell=isinstance(cmd, str), stdout=subprocess.PIPE, stderr=subprocess.STDOUT, text=True, timeout=timeout)
    return r.returncode, r.stdout


def confirm(job):
    w, prop, m, outdir = job
    wt = "%s/cs-%d" % (SCR, w)
    tgt = "%s/cs-tgt-%d" % (SCR, w)
    env = {"CARGO_TARGET_DIR": tgt}
    n = m["n"] + OFF
    res = {"property": prop, "n": n, "summary": m.get("summary"), "why_breaks": m.get("why_breaks"), "needs": m.get("needs")}
    patch = os.path.join(outdir, m["patch"])
    demo = os.path.join(outdir, m["demo"])
    sh("git checkout -q -- . && git clean -fdq", wt)
    rc, o = sh(["git", "apply", patch], wt)
    if rc != 0:
        rc, o = sh(["git", "apply", "-C1", "--recount", patch], wt)
    if rc != 0:
        res["status"] = "patch does not apply to the repaired tree"
        res["detail"] = o[-400:]
        return res
    rc, diff = sh(["git", "diff"], wt)
    rc, o = sh("cargo test --workspace --no-fail-fast --offline", wt, env)
    oks = len(re.findall(r"^test result: ok", o, re.M))
    fails = re.findall(r"^test result: FAILED", o, re.M)
    passed = sum(int(x) for x in re.findall(r"^test result: ok\. (\d+) passed", o, re.M))
    res["baseline_with_patch"] = {"exit": rc, "suites_ok": oks, "suites_failed": len(fails), "tests_passed": passed}
    if rc != 0 or fails:
        res["status"] = "baseline suite fails with the patch (not a valid seeded change)"
        res["detail"] = "\n".join(l for l in o.splitlines() if "FAILED" in l or "panicked" in l or l.startswith("error"))[:800]
        return res
    crate = m["demo_crate"]
    cmd = m["demo_cmd"]
    feats = re.search(r"--features ([\w,/\-]+)", cmd)
    tdir = os.path.join(wt, "source", crate, "tests")
    os.makedirs(tdir, exist_ok=True)
    dn = "pcvdemo%d" % n
    shutil.copy(demo, os.path.join(tdir, dn + ".rs"))
    dcmd = "cargo test -p %s --offline %s --test %s" % (crate, ("--features " + feats.group(1)) if feats else "", dn)
    rc1, o1 = sh(dcmd, wt, env)
    res["demo_cmd"] = dcmd
    res["demo_with_patch_exit"] = rc1
    # undo the patch, keep the demo file
    sh("git checkout -q -- .", wt)
    rc2, o2 = sh(dcmd, wt, env)
    res["demo_without_patch_exit"] = rc2
    if rc1 == 0:
        res["status"] = "demonstration does not fail with the patch"
        return res
    if rc2 != 0:
        res["status"] = "demonstration fails even without the patch"
        res["detail"] = "\n".join(l for l in o2.splitlines() if "FAILED" in l or "panicked" in l or l.startswith("error"))[:800]
        return res
    res["status"] = "confirmed"
    res["demo_failure_excerpt"] = "\n".join(l for l in o1.splitlines() if "panicked" in l or "FAILED" in l or "SIGABRT" in l or "signal" in l)[:600]
    d = os.path.join(OUT, "%s-m%d" % (prop, n))
    os.makedirs(d, exist_ok=True)
    open(os.path.join(d, "patch.diff"), "w").write(diff)
    shutil.copy(demo, os.path.join(d, "demo.rs"))
    meta = {"breaks_property": prop, "what_changed": m.get("summary"), "why_it_breaks": m.get("why_breaks"), "needs_to_manifest": m.get("needs"),
            "origin": "independent sub-agent given only the property text and a scratch worktree",
            "confirmed_by": {"tree": subprocess.check_output(["git", "-C", REPO, "rev-parse", "HEAD"], text=True).strip(),
                             "baseline_cmd": "cargo test --workspace --no-fail-fast --offline", "baseline_with_patch": res["baseline_with_patch"],
                             "demo_location": "source/%s/tests/" % crate, "demo_cmd": dcmd,
                             "demo_with_patch_exit": rc1, "demo_without_patch_exit": rc2, "demo_failure_excerpt": res["demo_failure_excerpt"]}}
    json.dump(meta, open(os.path.join(d, "meta.json"), "w"), indent=1)
    return res


def main():
    os.makedirs(SCR, exist_ok=True)
    jobs = []
    for p in sorted(glob.glob(MUT + "/C*/out/notes.json")):
        prop = p.split("/")[-3]
        for m in json.load(open(p)):
            jobs.append((prop, m, os.path.dirname(p)))
    only = sys.argv[1:]
    if only:
        jobs = [j for j in jobs if j[0] in only]
    for w in range(NW):
        wt = "%s/cs-%d" % (SCR, w)
        if not os.path.exists(wt):
            subprocess.run(["git", "-C", REPO, "worktree", "add", "--detach", wt, "HEAD"], stdout=subprocess.DEVNULL, stderr=subprocess.DEVNULL)
        else:
            subprocess.run("git checkout -q --detach $(git -C /repo rev-parse HEAD)", cwd=wt, shell=True)
    results = []
    # static assignment of jobs to workers so that each worker reuses its worktree/target dir
    buckets = [[] for _ in range(NW)]
    for i, (prop, m, d) in enumerate(jobs):
        buckets[i % NW].append((i % NW, prop, m, d))

    def run_bucket(b):
        out = []
        for j in b:
            try:
                out.append(confirm(j))
            except Exception as e:
                out.append({"property": j[1], "n": j[2]["n"] + OFF, "status": "error: %s" % e})
            print(out[-1]["property"], out[-1]["n"], out[-1]["status"], flush=True)
        return out
    with cf.ThreadPoolExecutor(NW) as ex:
        for r in ex.map(run_bucket, buckets):
            results += r
    results.sort(key=lambda r: (r["property"], r["n"]))
    cf_path = os.path.join(OUT, "confirmation.json")
    old = json.load(open(cf_path)) if os.path.exists(cf_path) else []
    keys = {(r["property"], r["n"]) for r in results}
    results_all = sorted([r for r in old if (r["property"], r["n"]) not in keys] + results, key=lambda r: (r["property"], r["n"]))
    json.dump(results_all, open(cf_path, "w"), indent=1)
    for w in range(NW):
        subprocess.run(["git", "-C", REPO, "worktree", "remove", "--force", "%s/cs-%d" % (SCR, w)], stdout=subprocess.DEVNULL, stderr=subprocess.DEVNULL)
        shutil.rmtree("%s/cs-tgt-%d" % (SCR, w), ignore_errors=True)
    print("confirmed %d of %d" % (sum(1 for r in results if r["status"] == "confirmed"), len(results)))


main()
