#!/usr/bin/env python3
"""Apply every benign variant to /repo in turn (undoing it straight afterwards) and run all quick checks: every check must stay silent."""
import glob, json, os, subprocess, sys
ROOT = os.path.dirname(os.path.dirname(os.path.abspath(__file__)))
import concurrent.futures as cf
ALL = ["C%02d" % i for i in range(1, 21)]
st = subprocess.run(["git", "-C", "/repo", "status", "--porcelain"], capture_output=True, text=True).stdout.strip()
if st:
    print("refusing: /repo not clean"); sys.exit(3)
mat = {}
only = sys.argv[1:]
for p in sorted(glob.glob(ROOT + "/selftest/benign/*.patch")):
    name = os.path.basename(p)[:-6]
    if only and not any(name.startswith(o) for o in only):
        continue
    if subprocess.run(["git", "-C", "/repo", "apply", p]).returncode != 0:
        mat[name] = {"error": "does not apply"}; print(name, "DOES NOT APPLY"); continue
    row = {}
    try:
        def one(pid):
            return pid, subprocess.run([ROOT + "/check", pid, "quick"], capture_output=True, text=True, cwd=ROOT,
                                       env=dict(os.environ, PCV_EVIDENCE_DIR="/tmp/pcv-evidence-scratch"))
        first = [one(ALL[0])]
        with cf.ThreadPoolExecutor(10) as ex:
            rest = list(ex.map(one, ALL[1:]))
        for pid, r in first + rest:
            if r.returncode != 0:
                what = [l.strip()[:200] for l in r.stdout.splitlines() if l.strip().startswith(("what=", "rule="))][:4]
                row[pid] = what
    finally:
        subprocess.run(["git", "-C", "/repo", "checkout", "--", "."])
        subprocess.run(["git", "-C", "/repo", "clean", "-fdq", "source"])
    mat[name] = row
    print(name, "SILENT" if not row else "ALARM in " + ",".join(row), flush=True)
    for k, v in row.items():
        print("    ", k, v[:2])
if only:
    old = json.load(open(ROOT + "/selftest/benign/matrix.json"))
    old.update(mat)
    mat = old
if True:
    json.dump(mat, open(ROOT + "/selftest/benign/matrix.json", "w"), indent=1, sort_keys=True)
