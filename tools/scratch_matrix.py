#!/usr/bin/env python3
"""tools/scratch_matrix.py <out.json> <patch>... — run all 20 quick checks on scratch exports of /repo's HEAD with one patch applied each
(never touches /repo's working tree; NW variants in parallel).  Used for quick triage; the committed matrices come from
benign_matrix.py / seeded_matrix.py, which apply the patches to /repo itself."""
import concurrent.futures as cf
import json, os, shutil, subprocess, sys, tempfile
ALL = ["C%02d" % i for i in range(1, 21)]
NW = int(os.environ.get("NW", "3"))
out = sys.argv[1]
patches = sys.argv[2:]


def one_variant(p):
    name = os.path.basename(p)[:-6] if p.endswith(".patch") else os.path.basename(os.path.dirname(p))
    tmp = tempfile.mkdtemp(prefix="pcv-sm-")
    row = {}
    try:
        subprocess.run("git -C /repo archive HEAD | tar -x -C %s" % tmp, shell=True, check=True)
        if subprocess.run(["patch", "-p1", "-s", "-i", os.path.abspath(p)], cwd=tmp, stdout=subprocess.DEVNULL).returncode != 0:
            return name, {"error": ["does not apply"]}

        def chk(pid):
            return pid, subprocess.run([os.path.join(os.path.dirname(os.path.dirname(os.path.abspath(__file__))), "check"), pid, "quick"], capture_output=True, text=True, cwd=os.path.dirname(os.path.dirname(os.path.abspath(__file__))),
                                       env=dict(os.environ, PCV_REPO=tmp, PCV_EVIDENCE_DIR=os.path.join(tmp, ".ev")))
        first = [chk(ALL[0])]
        with cf.ThreadPoolExecutor(6) as ex:
            rest = list(ex.map(chk, ALL[1:]))
        for pid, r in first + rest:
            if r.returncode != 0:
                row[pid] = [l.strip()[:300] for l in r.stdout.splitlines() if l.strip().startswith(("what=", "rule=", "ERROR"))][:4] or ["exit %d" % r.returncode]
    finally:
        shutil.rmtree(tmp, ignore_errors=True)
    return name, row


mat = {}
with cf.ThreadPoolExecutor(NW) as ex:
    for name, row in ex.map(one_variant, patches):
        mat[name] = row
        print(name, "SILENT" if not row else "ALARM in " + ",".join(row), flush=True)
        for k, v in row.items():
            print("    ", k, v[:2])
json.dump(mat, open(out, "w"), indent=1, sort_keys=True)
