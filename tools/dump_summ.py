#!/usr/bin/env python3
"""tools/dump_summ.py <crate> <name-or-canon-suffix> [config] — print canonical summaries as Python literals"""
import sys, os, pprint
sys.path.insert(0, os.path.join(os.path.dirname(os.path.dirname(os.path.abspath(__file__))), "rules"))
import facts, summ
F = facts.load(sys.argv[3] if len(sys.argv) > 3 else "A")
cr = F.crate(sys.argv[1])
for f in cr.fns:
    if f.name == sys.argv[2] or f.canon.endswith(sys.argv[2]) or sys.argv[2] in f.canon:
        print("# %s | %s | %s | %s" % (f.canon, f.impl_trait, f.impl_self, f.where()))
        s = summ.summarize(F, f)
        print("    %r: [" % summ.fn_key(f))
        for l in summ.lines(s):
            print("        %r," % l)
        print("    ],")
