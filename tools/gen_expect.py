#!/usr/bin/env python3
"""Regenerate rules/expect/postcard_<config>.json from the CURRENT tree. Only to be run on a tree whose
behaviour has been reviewed; the output is then read through by hand (it is the specification of the glue)."""
import sys, os, json
sys.path.insert(0, os.path.join(os.path.dirname(os.path.dirname(os.path.abspath(__file__))), "rules"))
import facts, summ, glue
cfg = sys.argv[1] if len(sys.argv) > 1 else "A"
F = facts.load(cfg)
cr = F.crate("postcard")
out = {}
for f in cr.fns:
    k = summ.fn_key(f)
    g = glue.group_of(k)
    if g is None:
        continue
    out.setdefault(g, {})[k] = summ.lines(summ.summarize(F, f))
p = os.path.join(os.path.dirname(os.path.dirname(os.path.abspath(__file__))), "rules", "expect", "postcard_%s.json" % cfg)
json.dump(out, open(p, "w"), indent=1, sort_keys=True)
for g in sorted(out):
    print(g, len(out[g]))
