#!/usr/bin/env python3
"""tools/dump_summ2.py <crate> <name-or-canon-substring> [config] — print semantic summaries (summ2); PCV_REPO selects the tree"""
import sys, os
sys.path.insert(0, os.path.join(os.path.dirname(os.path.dirname(os.path.abspath(__file__))), "rules"))
import facts, summ, summ2
F = facts.load(sys.argv[3] if len(sys.argv) > 3 else "A", os.environ.get("PCV_REPO"))
cr = F.crate(sys.argv[1])
for f in cr.fns:
    if f.name == sys.argv[2] or sys.argv[2] in f.canon:
        print("# %s | %s | %s" % (summ.fn_key(f), f.canon, f.where()))
        try:
            s = summ2.summarize(F, f)
            print(summ2.fmt(s))
        except Exception as e:
            import traceback; traceback.print_exc()
