#!/usr/bin/env python3
"""Regenerate MANIFEST.json from the per-property modules present in rules/ (keeps it valid at all times)."""
import importlib, json, os, sys
HERE = os.path.dirname(os.path.dirname(os.path.abspath(__file__)))
sys.path.insert(0, os.path.join(HERE, "rules"))
props = [json.loads(l) for l in open(os.path.join(HERE, "properties.jsonl"))]
checks, na = [], []
for p in props:
    pid = p["id"]
    modfile = os.path.join(HERE, "rules", pid.lower() + ".py")
    if not os.path.exists(modfile):
        na.append({"property_id": pid, "reason": "no static check registered yet for this property (machinery under construction; see DESIGN.md section 4 for the planned structural clauses)"})
        continue
    mod = importlib.import_module(pid.lower())
    m = getattr(mod, "MANIFEST", {})
    checks.append({
        "property_id": pid,
        "quick_cmd": "./check %s quick" % pid,
        "thorough_cmd": "./check %s thorough" % pid,
        "evidence_file": "/verif/evidence/%s.json" % pid,
        "replay_cmd_template": "./check %s --replay {path}" % pid,
        "engine": "pcfacts+rules",
        "level_claimed": {
            "category": getattr(mod, "LEVEL", "other"),
            "text": m.get("text", ""),
            "design_ref": "DESIGN.md section 4, %s" % pid,
        },
        "level_note": m.get("note", ""),
        "technique": m.get("technique", "static analysis over type-checked MIR/HIR (custom rustc_private driver + rule library)"),
    })
man = {
    "version": 1,
    "setup_cmd": "./setup.sh",
    "hooks": {
        "guard": "postcard_verif",
        "enable": "none needed: static analysis reads /repo's sources through the compiler front-end; no instrumentation is compiled in",
        "baseline_off_cmd": "cd /repo && cargo test --workspace --no-fail-fast --offline",
        "source_commits": [],
        "add_only": True,
    },
    "engines": [
        {"name": "pcfacts", "path": "driver/", "serves_properties": [c["property_id"] for c in checks],
         "kind_free_text": "rustc_private driver run as RUSTC_WORKSPACE_WRAPPER under cargo +nightly check: dumps MIR with resolved callees, ADTs, HIR const trees of /repo's current working tree"},
        {"name": "rules", "path": "rules/", "serves_properties": [c["property_id"] for c in checks],
         "kind_free_text": "Python rule library: path-sensitive term evaluation of MIR, semantic summaries compared with specifications (conditions as boolean functions, decided by region enumeration + Fourier-Motzkin; no solver), GF(2) bit-affine domain (BIT), linear-inequality discharge of panic obligations (LIN), table/sibling/ADT/path rules; fail-closed floors"},
    ],
    "checks": checks,
    "not_applicable": na,
    "notes": "Technique family: static analysis only; nothing in /repo is executed. Each check rebuilds its facts from /repo's working tree (content-hashed cache under /verif/.cache). Thorough = quick + the specified glue groups again in configuration B (postcard alone, use-std + embedded-io 0.4) + configuration C (alloc without std) for C14 + the checker's self-test on scratch copies (seeded changes of the property must fire, benign variants must stay silent; informational, recorded in evidence). Which seeded change is caught by which check: DESIGN.md section 10; benign-variant results and the triaged residual false alarms: section 11.1.",
}
json.dump(man, open(os.path.join(HERE, "MANIFEST.json"), "w"), indent=1)
print("claimed:", [c["property_id"] for c in checks], "n/a:", len(na))
