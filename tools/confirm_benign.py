#!/usr/bin/env python3
"""Confirm behaviour-preserving variants written by independent sub-agents ($BENDIR/Cxx/out/benN.patch + notes.json): the patch applies to
/repo's HEAD in a scratch worktree, the workspace builds (also with the feature set of configuration A) and the whole baseline suite
passes.  Confirmed ones are copied to /verif/selftest/benign/a<prop>_<n>.patch with a .txt holding the agent's equivalence argument.
(Equivalence itself is argued in the .txt and reviewed by hand for every variant a check alarms on.)"""
import concurrent.futures as cf
import glob, json, os, re, shutil, subprocess, sys

REPO = "/repo"
SCR = "/tmp/scratch"
OUT = "/verif/selftest/benign"
BEN = os.environ.get("BENDIR", "/tmp/ben")
PREFIX = os.environ.get("BENPREFIX", "a")
NW = int(os.environ.get("NW", "8"))


def sh(cmd, cwd, env=None, timeout=3000):
    e = dict(os.environ, CARGO_NET_OFFLINE="true")
    if env:
        e.update(env)
    r = subprocess.run(cmd, cwd=cwd, env=e, shell=isinstance(cmd, str), stdout=subprocess.PIPE, stderr=subprocess.STDOUT, text=True, timeout=timeout)
    return r.returncode, r.stdout


def confirm(job):
    w, prop, m, outdir = job
    wt = "%s/cb-%d" % (SCR, w)
    env = {"CARGO_TARGET_DIR": "%s/cb-tgt-%d" % (SCR, w)}
    name = "%s%s_%d" % (PREFIX, prop, m["n"])
    patch = os.path.join(outdir, m["patch"])
    sh("git checkout -q -- . && git clean -fdq", wt)
    rc, o = sh(["git", "apply", patch], wt)
    if rc != 0:
        return name, "patch does not apply"
    sh(["git", "add", "-N", "."], wt)          # so that files the patch creates are part of the saved diff
    rc, diff = sh(["git", "diff"], wt)
    sh(["git", "reset", "-q"], wt)
    rc, o = sh("cargo test --workspace --no-fail-fast --offline", wt + "/source", env)
    fails = re.findall(r"^test result: FAILED", o, re.M)
    if rc != 0 or fails:
        return name, "baseline suite fails"
    rc, o = sh("cargo test --offline -p postcard --features use-std,use-crc,experimental-derive,embedded-io-06", wt + "/source", env)
    if rc != 0:
        return name, "feature build/tests fail"
    open(os.path.join(OUT, name + ".patch"), "w").write(diff)
    open(os.path.join(OUT, name + ".txt"), "w").write(
        "origin: independent sub-agent asked for a behaviour-preserving edit of the code anchored by %s\nwhat: %s\nwhy equivalent: %s\n" % (
            prop, m.get("summary"), m.get("why_equivalent")))
    return name, "confirmed"


def main():
    os.makedirs(SCR, exist_ok=True)
    jobs = []
    for p in sorted(glob.glob(BEN + "/C*/out/notes.json")):
        prop = p.split("/")[-3]
        for m in json.load(open(p)):
            jobs.append((prop, m, os.path.dirname(p)))
    for w in range(NW):
        wt = "%s/cb-%d" % (SCR, w)
        if not os.path.exists(wt):
            subprocess.run(["git", "-C", REPO, "worktree", "add", "--detach", wt, "HEAD"], stdout=subprocess.DEVNULL, stderr=subprocess.DEVNULL)
    buckets = [[] for _ in range(NW)]
    for i, (prop, m, d) in enumerate(jobs):
        buckets[i % NW].append((i % NW, prop, m, d))

    def run_bucket(b):
        out = []
        for j in b:
            try:
                out.append(confirm(j))
            except Exception as e:
                out.append(("%s_%s" % (j[1], j[2].get("n")), "error: %s" % e))
            print(*out[-1], flush=True)
        return out
    res = []
    with cf.ThreadPoolExecutor(NW) as ex:
        for r in ex.map(run_bucket, buckets):
            res += r
    for w in range(NW):
        subprocess.run(["git", "-C", REPO, "worktree", "remove", "--force", "%s/cb-%d" % (SCR, w)], stdout=subprocess.DEVNULL, stderr=subprocess.DEVNULL)
        shutil.rmtree("%s/cb-tgt-%d" % (SCR, w), ignore_errors=True)
    print("confirmed %d of %d" % (sum(1 for _, s in res if s == "confirmed"), len(res)))


main()
