#!/usr/bin/env python3
"""tools/try_scratch.py <patch> <ID> [<ID>...] — like try_patch.py but on a scratch export of /repo's HEAD (never touches /repo's working tree)."""
import subprocess, sys, os, shutil, tempfile
patch = os.path.abspath(sys.argv[1])
ids = sys.argv[2:]
tmp = tempfile.mkdtemp(prefix="pcv-scr-")
res = {}
try:
    subprocess.run("git -C /repo archive HEAD | tar -x -C %s" % tmp, shell=True, check=True)
    if patch != "/dev/null" and subprocess.run(["patch", "-p1", "-s", "-i", patch], cwd=tmp).returncode != 0:
        print("patch does not apply"); sys.exit(3)
    for i in ids:
        p = subprocess.run([os.path.join(os.path.dirname(os.path.dirname(os.path.abspath(__file__))), "check"), i, "quick"], capture_output=True, text=True, cwd=os.path.dirname(os.path.dirname(os.path.abspath(__file__))),
                           env=dict(os.environ, PCV_REPO=tmp, PCV_EVIDENCE_DIR=os.path.join(tmp, ".ev")))
        res[i] = p.returncode
        lines = [l for l in p.stdout.splitlines() if l.startswith(("VIOLATION", "  what=", "  rule=", "ERROR", "KNOWN"))]
        print("== %s exit=%d" % (i, p.returncode))
        for l in lines[:int(os.environ.get("NLINES", "12"))]:
            print("   " + l[:int(os.environ.get("NCOLS", "300"))])
        if p.returncode not in (0, 1):
            print(p.stdout[-2000:], p.stderr[-2000:])
finally:
    shutil.rmtree(tmp, ignore_errors=True)
print("RESULT", " ".join("%s=%s" % (k, "DETECTED" if v == 1 else "missed" if v == 0 else "error") for k, v in res.items()))
