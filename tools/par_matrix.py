#!/usr/bin/env python3
"""tools/par_matrix.py seeded|benign [name-prefix ...] — the two matrices (seeded/matrix.json, selftest/benign/matrix.json), computed on scratch
exports of /repo's HEAD with one change applied each (PCV_REPO points the checks at the export; /repo's working tree is never touched), NW
variants at a time.  Same checks, same code path as `./check <ID> quick` on /repo with the patch applied by `git apply` (which is what
seeded_matrix.py / benign_matrix.py do, one variant at a time); rows are merged into the existing file when prefixes are given."""
import concurrent.futures as cf
import glob, json, os, shutil, subprocess, sys, tempfile
ROOT = os.path.dirname(os.path.dirname(os.path.abspath(__file__)))
ALL = ["C%02d" % i for i in range(1, 21)]
# ONLY_CHECKS=C05,C11: re-run just these checks for every selected variant and merge them into the existing rows (after a change to one rule module)
ONLY_CHECKS = [c for c in os.environ.get("ONLY_CHECKS", "").split(",") if c]
if ONLY_CHECKS:
    ALL = [c for c in ALL if c in ONLY_CHECKS]
NW = int(os.environ.get("NW", "4"))
kind = sys.argv[1]
only = sys.argv[2:]
if kind == "seeded":
    items = [(os.path.basename(d), os.path.join(d, "patch.diff")) for d in sorted(glob.glob(ROOT + "/seeded/C*-m*"))]
    mpath = ROOT + "/seeded/matrix.json"
else:
    items = [(os.path.basename(p)[:-6], p) for p in sorted(glob.glob(ROOT + "/selftest/benign/*.patch"))]
    mpath = ROOT + "/selftest/benign/matrix.json"
if only:
    items = [(n, p) for n, p in items if any(n.startswith(o) for o in only)]


def one_variant(item):
    name, patch = item
    tmp = tempfile.mkdtemp(prefix="pcv-pm-")
    row = {}
    try:
        subprocess.run("git -C /repo archive HEAD | tar -x -C %s" % tmp, shell=True, check=True)
        subprocess.run(["git", "init", "-q"], cwd=tmp)
        if subprocess.run(["git", "apply", patch], cwd=tmp, capture_output=True).returncode != 0:
            return name, {"error": "patch does not apply"}
        shutil.rmtree(os.path.join(tmp, ".git"), ignore_errors=True)

        def chk(pid):
            return pid, subprocess.run([ROOT + "/check", pid, "quick"], capture_output=True, text=True, cwd=ROOT,
                                       env=dict(os.environ, PCV_REPO=tmp, PCV_EVIDENCE_DIR=os.path.join(tmp, ".ev")))
        first = [chk(ALL[0])]          # builds the facts for this tree once; the others reuse the cache
        with cf.ThreadPoolExecutor(6) as ex:
            rest = list(ex.map(chk, ALL[1:]))
        for pid, r in first + rest:
            if kind == "seeded":
                rules = sorted(set(l.split("rule=")[1].split(" ")[0] for l in r.stdout.splitlines() if l.strip().startswith("rule=")))
                if r.returncode == 1:
                    row[pid] = rules
                elif r.returncode != 0:
                    row[pid] = ["ERROR exit %d" % r.returncode]
            elif r.returncode != 0:
                row[pid] = [l.strip()[:200] for l in r.stdout.splitlines() if l.strip().startswith(("what=", "rule="))][:4] or ["exit %d" % r.returncode]
    finally:
        shutil.rmtree(tmp, ignore_errors=True)
    return name, row


mat = json.load(open(mpath)) if ((only or ONLY_CHECKS) and os.path.exists(mpath)) else {}
with cf.ThreadPoolExecutor(NW) as ex:
    for name, row in ex.map(one_variant, items):
        if ONLY_CHECKS and isinstance(mat.get(name), dict) and "error" not in row:
            merged = {k: v for k, v in mat[name].items() if k not in ONLY_CHECKS}
            merged.update(row)
            row = merged
        mat[name] = row
        if kind == "seeded":
            own = name.split("-")[0]
            print(name, "own=%s" % ("DETECTED" if own in row else "MISSED"), "also:", ",".join(k for k in row if k != own), flush=True)
        else:
            print(name, "SILENT" if not row else "ALARM in " + ",".join(row), flush=True)
            for k, v in row.items():
                print("    ", k, v[:2])
json.dump(mat, open(mpath, "w"), indent=1, sort_keys=True)
