#!/usr/bin/env python3
"""tools/why.py <patch> <ID> [key-substring]  — apply a patch to /repo, run one quick check, print every violation with expected/found, undo."""
import subprocess, sys, os, json, re
patch = os.path.abspath(sys.argv[1]); pid = sys.argv[2]; sub = sys.argv[3] if len(sys.argv) > 3 else ""
if subprocess.run(["git", "-C", "/repo", "status", "--porcelain"], capture_output=True, text=True).stdout.strip():
    print("refusing: /repo not clean"); sys.exit(3)
if subprocess.run(["git", "-C", "/repo", "apply", patch]).returncode != 0:
    print("patch does not apply"); sys.exit(3)
try:
    p = subprocess.run(["/verif/check", pid, "quick"], capture_output=True, text=True, cwd="/verif", env=dict(os.environ, PCV_EVIDENCE_DIR="/tmp/pcv-evidence-scratch"))
    for m in re.finditer(r"VIOLATION property=\S+ replay=(\S+)", p.stdout):
        j = json.load(open(m.group(1)))["instance"]
        if sub and sub not in j["key"]:
            continue
        shown = globals().get("shown", 0) + 1
        globals()["shown"] = shown
        if shown > int(os.environ.get("WHY_MAX", "3")):
            continue
        print("==", j["rule"], j["key"], j.get("site"))
        print("   what:", j["what"][:1500])
        for nm in ("expected", "found"):
            v = j.get(nm)
            if v:
                print("   %s:" % nm)
                for l in (v if isinstance(v, list) else [v])[:int(os.environ.get("WHY_LINES", "14"))]:
                    print("      ", str(l)[:int(os.environ.get("WHY_COLS", "700"))])
    print(p.stdout.splitlines()[-1] if p.stdout else p.stderr[-500:])
finally:
    subprocess.run(["git", "-C", "/repo", "checkout", "--", "."])
    subprocess.run(["git", "-C", "/repo", "clean", "-fdq", "source"])
