#!/usr/bin/env python3
"""Render seeded/matrix.json (+ meta.json of every seeded change) as the markdown table of DESIGN.md section 10."""
import json, os, glob
m = json.load(open("/verif/seeded/matrix.json"))
print("| seeded change | what it changes (abridged) | own check: rules that fire | other checks that fire |")
print("|---|---|---|---|")
miss = []
for name in sorted(m):
    meta = json.load(open("/verif/seeded/%s/meta.json" % name))
    what = " ".join((meta.get("what_changed") or "").split())
    if len(what) > 170:
        what = what[:167] + "..."
    what = what.replace("|", "\\|")
    own = name.split("-")[0]
    row = m[name]
    o = ", ".join(row.get(own, [])) if own in row else "**missed**"
    if own not in row:
        miss.append(name)
    others = ", ".join("%s(%s)" % (k, "/".join(v)) for k, v in sorted(row.items()) if k != own)
    print("| %s | %s | %s | %s |" % (name, what, o, others or "-"))
print()
print("%d seeded changes; %d detected by the check of the property they break; %d detected by at least one check; missed by own check: %s" % (
    len(m), len(m) - len(miss), sum(1 for v in m.values() if v), ", ".join(miss) or "none"))
