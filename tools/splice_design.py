#!/usr/bin/env python3
"""Regenerate the generated tables of DESIGN.md (between <!-- AUTO:x --> and <!-- /AUTO:x -->) from evidence/, seeded/matrix.json
and selftest/benign/matrix.json."""
import json, os, re, subprocess, sys
V = "/verif"


def rules_table():
    out = ["| id | level | configurations | bodies analysed | rule: instances (floor) | obligations |", "|---|---|---|---|---|---|"]
    for i in range(1, 21):
        pid = "C%02d" % i
        e = json.load(open("%s/evidence/%s.json" % (V, pid)))
        c = e["coverage"]
        pr = ", ".join("%s %d (%s)" % (k, v["instances"], v["floor"] if v["floor"] is not None else "≥1") for k, v in c["per_rule"].items())
        known = sum(v.get("known", 0) for v in c["per_rule"].values())
        out.append("| %s | %s | %s | %s | %s | %d, %d discharged%s |" % (pid, e["level"], "+".join(c.get("configurations") or []), c.get("bodies_analysed", ""),
                                                                     pr, c["obligations"], c["discharged"], (", %d known finding" % known) if known else ""))
    return "\n".join(out)


def seeded_table():
    return subprocess.run([sys.executable, V + "/tools/render_matrix.py"], capture_output=True, text=True).stdout.strip()


def benign_table():
    m = json.load(open(V + "/selftest/benign/matrix.json"))
    groups = [("hand-written (b01–b19)", "b"), ("agent-written round 1 (aCxx_n; used to drive the rework)", "a"), ("agent-written round 2 (cCxx_n; written after the rework, 'be creative')", "c"),
              ("agent-written round 3 (dCxx_n; 'realistic maintainer changes')", "d"),
              ("agent-written round 4 (eCxx_n; 'what real pull requests look like')", "e"),
              ("agent-written round 5 (fCxx_n; 'a commit in this project's history')", "f"),
              ("agent-written round 6 (gCxx_n; 'a different maintainer: different taste, different habits')", "g"),
              ("agent-written round 7 (hCxx_n; one change each of three prescribed kinds: structure, control-flow idiom, data/arithmetic form)", "h"),
              ("agent-written round 8 (iCxx_n; larger changes: a tidy-up pass over several functions, an internal redesign of a private piece, a performance-motivated rewrite)", "i"),
              ("agent-written round 9 (jCxx_n; cross-module reorganisation, one error-handling style applied to a whole file, named concepts)", "j"),
              ("agent-written round 10 (kCxx_n; newer std/language idioms, a lint-driven sweep over one file, pointer/const hygiene; 54 of 60 delivered in time)", "k")]
    out = ["| suite | variants | silent on all 20 checks | alarming |", "|---|---|---|---|"]
    for title, pre in groups:
        names = sorted(k for k in m if k.startswith(pre))
        if not names:
            continue
        al = [k for k in names if m[k]]
        out.append("| %s | %d | %d | %s |" % (title, len(names), len(names) - len(al), ", ".join(al) or "-"))
    out.append("")
    out.append("| alarming variant | check(s) | first report |")
    out.append("|---|---|---|")
    for k in sorted(m):
        if m[k]:
            first = ""
            for pid, what in sorted(m[k].items()):
                w = [x for x in what if x.startswith("what=")]
                first = (w[0][5:] if w else (what[0] if what else ""))[:150].replace("|", "\\|")
                break
            out.append("| %s | %s | %s |" % (k, ", ".join(sorted(m[k])), first))
    return "\n".join(out)


def main():
    p = V + "/DESIGN.md"
    s = open(p).read()
    for name, fn in (("rules", rules_table), ("seeded", seeded_table), ("benign", benign_table)):
        pat = re.compile(r"(<!-- AUTO:%s -->\n).*?(<!-- /AUTO:%s -->)" % (name, name), re.S)
        if not pat.search(s):
            print("marker %s missing" % name)
            continue
        s = pat.sub(lambda mm: mm.group(1) + fn() + "\n" + mm.group(2), s)
    open(p, "w").write(s)


main()
