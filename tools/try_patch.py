#!/usr/bin/env python3
"""tools/try_patch.py <patch> <ID> [<ID>...]  — apply a patch to /repo, run the quick checks, undo it."""
import subprocess, sys, os
patch = os.path.abspath(sys.argv[1])
ids = sys.argv[2:]
st = subprocess.run(["git", "-C", "/repo", "status", "--porcelain"], capture_output=True, text=True).stdout.strip()
if st:
    print("refusing: /repo not clean:\n" + st); sys.exit(3)
r = subprocess.run(["git", "-C", "/repo", "apply", patch])
if r.returncode != 0:
    print("patch does not apply"); sys.exit(3)
res = {}
try:
    for i in ids:
        p = subprocess.run(["/verif/check", i, "quick"], capture_output=True, text=True, cwd="/verif",
                           env=dict(os.environ, PCV_EVIDENCE_DIR="/tmp/pcv-evidence-scratch"))
        res[i] = p.returncode
        lines = [l for l in p.stdout.splitlines() if l.startswith(("VIOLATION", "  what=", "  rule=", "ERROR", "KNOWN"))]
        print("== %s exit=%d" % (i, p.returncode))
        for l in lines[:12]:
            print("   " + l[:300])
        if p.returncode not in (0, 1):
            print(p.stdout[-2000:], p.stderr[-2000:])
finally:
    subprocess.run(["git", "-C", "/repo", "checkout", "--", "."])
    subprocess.run(["git", "-C", "/repo", "clean", "-fdq", "source"])
print("RESULT", " ".join("%s=%s" % (k, "DETECTED" if v == 1 else "missed" if v == 0 else "error") for k, v in res.items()))
