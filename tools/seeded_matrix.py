#!/usr/bin/env python3
"""Apply every seeded change to /repo in turn (undoing it straight afterwards), run all quick checks, and record which checks
report a violation: seeded/matrix.json.  Evidence written during these runs goes to a scratch directory."""
import json, os, re, subprocess, sys, glob
import concurrent.futures as cf
ROOT = os.path.dirname(os.path.dirname(os.path.abspath(__file__)))
ALL = ["C%02d" % i for i in range(1, 21)]
only = sys.argv[1:]
st = subprocess.run(["git", "-C", "/repo", "status", "--porcelain"], capture_output=True, text=True).stdout.strip()
if st:
    print("refusing: /repo not clean"); sys.exit(3)
mat = {}
mpath = ROOT + "/seeded/matrix.json"
if os.path.exists(mpath) and only:
    mat = json.load(open(mpath))
for d in sorted(glob.glob(ROOT + "/seeded/C*-m*")):
    name = os.path.basename(d)
    if only and name not in only and name.split("-")[0] not in only and not any(o.startswith("re:") and re.search(o[3:], name) for o in only):
        continue
    patch = os.path.join(d, "patch.diff")
    r = subprocess.run(["git", "-C", "/repo", "apply", patch])
    if r.returncode != 0:
        mat[name] = {"error": "patch does not apply"}
        continue
    row = {}
    try:
        def one(pid):
            return pid, subprocess.run([ROOT + "/check", pid, "quick"], capture_output=True, text=True, cwd=ROOT,
                                       env=dict(os.environ, PCV_EVIDENCE_DIR="/tmp/pcv-evidence-scratch"))
        first = [one(ALL[0])]          # builds the facts for this tree once; the others reuse the cache
        with cf.ThreadPoolExecutor(10) as ex:
            rest = list(ex.map(one, ALL[1:]))
        for pid, p in first + rest:
            rules = sorted(set(l.split("rule=")[1].split(" ")[0] for l in p.stdout.splitlines() if l.strip().startswith("rule=")))
            if p.returncode == 1:
                row[pid] = rules
            elif p.returncode != 0:
                row[pid] = ["ERROR exit %d" % p.returncode]
    finally:
        subprocess.run(["git", "-C", "/repo", "checkout", "--", "."])
        subprocess.run(["git", "-C", "/repo", "clean", "-fdq", "source"])
    mat[name] = row
    own = name.split("-")[0]
    print(name, "own=%s" % ("DETECTED" if own in row else "MISSED"), "also:", ",".join(k for k in row if k != own), flush=True)
json.dump(mat, open(mpath, "w"), indent=1, sort_keys=True)
