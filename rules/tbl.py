"""TBL — table agreement helpers: extract the ordered wire effects of a function along each path and
match them against cells written from spec/src/wire-format.md.  Value comparisons are semantic
(BIT rows modulo the path's equalities), so `v as u8`, `v.to_le_bytes()[0]`, `if v {1} else {0}`
are all the same cell."""
import sym
import vint
from bit import Bits, Top, term_ty
from sym import C, is_c

SER_PUSH = "postcard::ser::flavors::Flavor::try_push"
SER_EXTEND = "postcard::ser::flavors::Flavor::try_extend"
SER_FINALIZE = "postcard::ser::flavors::Flavor::finalize"
DE_POP = "postcard::de::flavors::Flavor::pop"
DE_TAKE = "postcard::de::flavors::Flavor::try_take_n"
DE_HINT = "postcard::de::flavors::Flavor::size_hint"
DE_FINALIZE = "postcard::de::flavors::Flavor::finalize"
SERIALIZE = "serde_core::ser::Serialize::serialize"


def norm(t):
    """strip reborrows:  &*(x) -> x, recursively"""
    if not isinstance(t, tuple) or not t:
        return t
    if t[0] == "ref" and t[1][0] == "P":
        return norm(t[1][1])
    if t[0] == "call" and len(t) > 3:
        if (t[2] or "").endswith("<impl str>::as_bytes") and t[3]:
            return norm(t[3][0])        # a str and its bytes are the same bytes
        return (t[0], t[1], t[2], tuple(norm(x) for x in t[3])) + t[4:]
    if t[0] in ("c", "param", "str", "bytes", "fn"):
        return t
    if t[0] == "init" and t[1][0] == "F" and t[1][2] == "0" and t[1][1][0] == "D" and t[1][1][2] in _PAYLOAD and t[1][1][1][0] == "P":
        # the payload of an Option/Result held in a place (`let Some(x) = p else ..`, `match p { Ok(x) => ..}`) is the payload of its value
        return (_PAYLOAD[t[1][1][2]], norm(t[1][1][1][1]))
    return tuple(norm(x) if isinstance(x, tuple) else x for x in t)


_PAYLOAD = {"Some": "someval", "Ok": "okval", "Err": "errval"}


def _impl_canon(callee):
    """the function that actually runs: for a trait method called on a concrete type (a private `trait ZigZag` on i16..i128) the
    resolved impl, else the callee itself"""
    return (callee.get("resolved") or {}).get("canon") or callee["canon"]


def residual_calls(path, views=True):
    out = [e for e in path.events if e["k"] == "call" and not e.get("modelled") and not e.get("inlined")]
    if not views:
        out = [e for e in out if not (e["key"] or "").endswith("<impl str>::as_bytes")]
    return out


def event_by_id(path, cid):
    for e in path.events:
        if e["k"] == "call" and e["id"] == cid:
            return e
    return None


def same(bits, a, b):
    a, b = norm(a), norm(b)
    if a == b:
        return True
    try:
        return bits.equal_rows(bits.rows(a), bits.rows(b))
    except Top:
        return False


def path_bits(path):
    b = Bits()
    for cond, truth, kind in path.pc:
        if cond[0] in ("tag", "tagflip"):
            continue
        cond = norm(cond)
        try:
            if isinstance(truth, tuple):
                ty = term_ty(cond)
                for v in truth[1]:
                    b.cond(("bin", "Eq", cond, C(v, ty), "bool"), False)
            elif isinstance(truth, bool):
                b.cond(cond, truth)
            else:
                b.cond(("bin", "Eq", cond, C(truth, term_ty(cond)), "bool"), True)
        except Top:
            pass
    return b


class Helpers:
    """memoised BIT verdicts for the integer helper functions, looked up by the function actually called"""

    def __init__(self, F):
        self.F = F
        self.memo = {}

    def _get(self, kind, canon, fn, *a):
        k = (kind, canon) + a
        if k not in self.memo:
            f = self.F.fn_by_canon(canon)
            if f is None:
                self.memo[k] = (None, "function %s has no body in the analysed crates" % canon)
            else:
                try:
                    self.memo[k] = (fn(self.F, f, *a), None)
                except vint.No as e:
                    self.memo[k] = (None, "%s (%s): %s" % (f.def_, f.where(), e))
        return self.memo[k]

    def writer(self, canon):
        return self._get("W", canon, vint.check_writer)

    def zz_enc(self, canon):
        return self._get("ZE", canon, vint.check_zigzag_enc)

    def zz_dec(self, canon):
        return self._get("ZD", canon, vint.check_zigzag_dec)

    def reader(self, canon, N, src=None, value_of_ret=None):
        if src is None:
            return self._get("R", canon, vint.check_reader, N)
        return self._get("R", canon, lambda F, f, N: vint.check_reader(F, f, N, src, value_of_ret), N)

    def dyn_reader(self, canon, N):
        return self._get("R", canon, lambda F, f, N: vint.check_reader(F, f, N, vint.TAKE_ONE), N)


# ---- serializer-side cells --------------------------------------------------------------------

class Cell:
    def describe(self):
        return self.__class__.__name__


class RAW(Cell):
    """one try_push of a byte equal to `expected`"""

    def __init__(self, expected, text):
        self.expected = expected
        self.text = text

    def describe(self):
        return "RAW(%s)" % self.text

    def match(self, cx, evs, i):
        if i >= len(evs) or evs[i]["key"] != SER_PUSH:
            return None, "expected one try_push(%s)" % self.text
        e = evs[i]
        if not cx.is_output(e["args"][0]):
            return None, "try_push on something that is not the serializer's flavor"
        if not same(cx.bits, e["args"][1], self.expected):
            return None, "pushes %s, expected %s" % (sym.show(norm(e["args"][1])), self.text)
        return i + 1, None


class VAR(Cell):
    """varint writer of width N applied to `expected` (optionally through the zig-zag map), then try_extend"""

    def __init__(self, N, expected, text, zigzag=False):
        self.N = N
        self.expected = expected
        self.text = text
        self.zigzag = zigzag

    def describe(self):
        return "VAR<%d>(%s%s)" % (self.N, "ZZ " if self.zigzag else "", self.text)

    def match(self, cx, evs, i):
        want = self.describe()
        arg = self.expected
        if self.zigzag:
            if i >= len(evs):
                return None, "expected %s" % want
            z = evs[i]
            info, why = cx.helpers.zz_enc(_impl_canon(z["callee"])) if z["callee"] else (None, "indirect call")
            if info is None:
                return None, "expected %s; first call is %s which is not a verified zig-zag encoder: %s" % (want, z["key"], why)
            if info["N"] != self.N:
                return None, "zig-zag of width %d used where %d is required" % (info["N"], self.N)
            if not same(cx.bits, z["args"][0], self.expected):
                return None, "zig-zag applied to %s, expected %s" % (sym.show(norm(z["args"][0])), self.text)
            arg = z["result"]
            i += 1
        if i + 1 >= len(evs):
            return None, "expected %s" % want
        w, x = evs[i], evs[i + 1]
        info, why = cx.helpers.writer(_impl_canon(w["callee"])) if w["callee"] else (None, "indirect call")
        if info is None:
            return None, "expected %s; %s is not a verified canonical varint writer: %s" % (want, w["key"], why)
        if info["N"] != self.N:
            return None, "varint writer of width %d used where width %d is required (%s)" % (info["N"], self.N, want)
        if not same(cx.bits, w["args"][0], arg):
            return None, "varint of %s written, expected %s" % (sym.show(norm(w["args"][0])), self.text)
        if x["key"] != SER_EXTEND or not cx.is_output(x["args"][0]):
            return None, "varint bytes are not handed to the flavor's try_extend"
        if norm(x["args"][1]) != norm(w["result"]):
            return None, "try_extend receives %s, not the slice returned by the varint writer" % sym.show(norm(x["args"][1]))
        return i + 2, None


class BYTES_LE(Cell):
    """try_extend of exactly the n little-endian bytes of `expected`"""

    def __init__(self, n, expected, text):
        self.n = n
        self.expected = expected
        self.text = text

    def describe(self):
        return "BYTES(le_bytes(%s), %d)" % (self.text, self.n)

    def match(self, cx, evs, i):
        if i >= len(evs) or evs[i]["key"] != SER_EXTEND or not cx.is_output(evs[i]["args"][0]):
            return None, "expected try_extend of %s" % self.describe()
        e = evs[i]
        snap = e["snap"][1]
        if not (snap and snap[0] == "agg" and snap[1] == "array"):
            return None, "cannot see the bytes handed to try_extend (%s)" % sym.show(e["args"][1])
        if len(snap[5]) != self.n:
            return None, "%d bytes written, expected %d" % (len(snap[5]), self.n)
        try:
            rows = cx.bits.rows(self.expected)
        except Top as ex:
            return None, "expected value not representable (%s)" % ex
        for k, el in enumerate(snap[5]):
            try:
                got = cx.bits.rows(el)
            except Top as ex:
                return None, "byte %d is not bit-affine: %s" % (k, ex)
            if not cx.bits.equal_rows(got, rows[8 * k:8 * k + 8]):
                return None, "byte %d is %s, expected bits %d..%d of %s (little-endian)" % (
                    k, [cx.bits.describe(r) for r in got], 8 * k, 8 * k + 7, self.text)
        return i + 1, None


class BYTES_OF(Cell):
    """try_extend of the bytes of a slice/str parameter, unchanged"""

    def __init__(self, expected, text):
        self.expected = expected
        self.text = text

    def describe(self):
        return "BYTES(%s)" % self.text

    def match(self, cx, evs, i):
        # optional as_bytes() call first
        src = self.expected
        if i < len(evs) and evs[i]["key"].endswith("<impl str>::as_bytes"):
            if norm(evs[i]["args"][0]) != norm(self.expected):
                return None, "as_bytes of %s, expected %s" % (sym.show(norm(evs[i]["args"][0])), self.text)
            src = evs[i]["result"]
            i += 1
        if i >= len(evs) or evs[i]["key"] != SER_EXTEND or not cx.is_output(evs[i]["args"][0]):
            return None, "expected try_extend(%s)" % self.text
        if norm(evs[i]["args"][1]) != norm(src):
            return None, "try_extend receives %s, expected %s" % (sym.show(norm(evs[i]["args"][1])), self.text)
        return i + 1, None


class VALUE(Cell):
    """value.serialize(self)"""

    def __init__(self, expected, text):
        self.expected = expected
        self.text = text

    def describe(self):
        return "VALUE(%s)" % self.text

    def match(self, cx, evs, i):
        if i >= len(evs) or evs[i]["key"] != SERIALIZE:
            return None, "expected %s.serialize(self)" % self.text
        e = evs[i]
        if norm(e["args"][0]) != norm(self.expected):
            return None, "serializes %s, expected %s" % (sym.show(norm(e["args"][0])), self.text)
        if not cx.is_self_serializer(e["args"][1]):
            return None, "nested value is not serialized with this serializer"
        return i + 1, None


class ANYCALL(Cell):
    """a call to a named std helper whose result feeds a later cell"""

    def __init__(self, key_suffix, bind=None):
        self.key_suffix = key_suffix
        self.bind = bind

    def describe(self):
        return "call %s" % self.key_suffix

    def match(self, cx, evs, i):
        if i >= len(evs) or not evs[i]["key"].endswith(self.key_suffix):
            return None, "expected a call to %s" % self.key_suffix
        if self.bind:
            self.bind(evs[i])
        return i + 1, None


class SerCx:
    def __init__(self, helpers, path, fn, self_depth=0):
        self.helpers = helpers
        self.path = path
        self.bits = path_bits(path)
        self.fn = fn
        p1 = ("param", 1, fn.locals[1]["ty"])
        self.self_ser = p1
        # `self` is `&mut Serializer` for the main impl and `&mut &mut Serializer` for the compound impls
        if fn.locals[1]["ty"].startswith("&mut &mut"):
            self.ser = ("init", ("P", p1))
        else:
            self.ser = p1
        self.output_loc = ("F", ("P", self.ser), "output")

    def is_output(self, t):
        return t[0] == "ref" and t[1] == self.output_loc

    def is_self_serializer(self, t):
        n = norm(t)
        return n == norm(self.ser) or n == self.self_ser


def match_cells(cx, cells, evs):
    i = 0
    for c in cells:
        ni, err = c.match(cx, evs, i)
        if err:
            return err
        i = ni
    if i != len(evs):
        extra = evs[i]
        return "unexpected extra effect: call to %s(%s)" % (extra["key"], ", ".join(sym.show(norm(a)) for a in extra["args"]))
    return None


def closure_const(F, term):
    """Evaluate a closure with no captures that returns a constant (the `|_| Error::K` idiom)."""
    if term[0] == "agg" and term[1] == "closure":
        canon = term[2]
    elif term[0] == "closure":
        canon = term[1]
    else:
        return None
    f = F.fn_by_canon(canon)
    if f is None:
        return None
    eng = sym.Engine(F, max_visits=1, max_steps=300)
    ps = eng.run(f)
    if len(ps) == 1 and ps[0].status == "return":
        return ps[0].ret
    return None


def error_variant(F, t):
    """Name of the error enum variant carried by an Err-valued term, or None"""
    t0 = t
    k = t[0]
    if k == "err_from":
        return error_variant_payload(F, sym.err_payload(t[1]))
    if k == "agg" and t[3] == "Err":
        return error_variant_payload(F, t[5][0])
    if k == "map_err":
        c = closure_const(F, t[2])
        if c is not None:
            return error_variant_payload(F, c)
    return None


def error_variant_payload(F, e):
    if e[0] == "agg" and e[1] == "adt":
        return e[3]
    if e[0] == "from":
        return error_variant_payload(F, e[1])
    if e[0] == "closure_result":
        c = closure_const(F, e[1])
        if c is not None:
            return error_variant_payload(F, c)
    return None
