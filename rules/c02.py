"""C02 — the encoder emits exactly the published wire format (spec/src/wire-format.md).

C02.T1  emission table: one instance per serde method of `&mut Serializer<F>` and of the seven
        compound impls; on every path the ordered flavor effects must equal the table cell.
C02.B1  canonical LEB128 / zig-zag for all values: the helper actually called in each cell is
        proven by BIT (vint.py) — done on demand by the VAR cell, and reported per helper.
C02.L   unknown sequence/map length is refused before anything is written.
C02.S   collect_str: count pass writes nothing to the flavor, length = sum of s.len(), then the text.
"""
import sym
import tbl
from tbl import RAW, VAR, BYTES_LE, BYTES_OF, VALUE, norm
from sym import C

LEVEL = "other"
MANIFEST = {
    "text": "Static proof-style table check: for every serde Serializer method of postcard the ordered flavor effects on "
            "every MIR path equal the wire-format table cell; the varint/zig-zag helpers called are proven canonical for "
            "ALL values of their width by a GF(2) bit-affine abstract interpretation. Right level because byte-exactness "
            "per data-model kind is a property of the shape of ~50 tiny functions, not of sampled values.",
    "note": "Trusted: serde's Serialize impls (which method they call), std byte/str primitives, rustc's MIR. 64-bit host only.",
    "technique": "static analysis: path-sensitive MIR term evaluation + wire-format table agreement + bit-affine (GF(2)) abstract interpretation + semantic summaries of the compound-serializer plumbing",
}
SER_TRAIT = "serde_core::ser::Serializer"
COMPOUND = {
    "serde_core::ser::SerializeSeq": ["serialize_element", "end"],
    "serde_core::ser::SerializeTuple": ["serialize_element", "end"],
    "serde_core::ser::SerializeTupleStruct": ["serialize_field", "end"],
    "serde_core::ser::SerializeTupleVariant": ["serialize_field", "end"],
    "serde_core::ser::SerializeMap": ["serialize_key", "serialize_value", "end"],
    "serde_core::ser::SerializeStruct": ["serialize_field", "end"],
    "serde_core::ser::SerializeStructVariant": ["serialize_field", "end"],
}
SELF_TY = "&mut ser::serializer::Serializer<F>"


def P(fn, i):
    return ("param", i, fn.locals[i]["ty"])


def inline_policy(fn, ev):
    # zero-argument const helpers and the Serializer's own methods are analysed in place; free helper
    # functions (varint writers, zig-zag) stay opaque and are proven separately by BIT
    if fn.argc == 0:
        return True
    if fn.crate != "postcard":
        return False
    import vint
    return not vint.is_helper(fn)


def spec_for(fn):
    """table cell(s): list of (condition-predicate-or-None, cells, ret-kind)"""
    n = fn.name
    p2 = P(fn, 2) if fn.argc >= 2 else None
    W = {"u16": 16, "u32": 32, "u64": 64, "u128": 128, "i16": 16, "i32": 32, "i64": 64, "i128": 128}
    if n == "serialize_bool":
        return [RAW(("cast", "IntToInt", p2, "bool", "u8"), "v as u8 (0 or 1)")]
    if n == "serialize_u8":
        return [RAW(p2, "v")]
    if n == "serialize_i8":
        return [RAW(("cast", "IntToInt", p2, "i8", "u8"), "v as u8")]
    for t, w in W.items():
        if n == "serialize_" + t:
            return [VAR(w, p2, "v", zigzag=t.startswith("i"))]
    if n == "serialize_f32":
        return [BYTES_LE(4, ("to_bits", p2), "v.to_bits()")]
    if n == "serialize_f64":
        return [BYTES_LE(8, ("to_bits", p2), "v.to_bits()")]
    if n in ("serialize_str", "serialize_bytes"):
        return [VAR(64, ("len", p2), "v.len()"), BYTES_OF(p2, "v")]
    if n == "serialize_char":
        return [ENCODE_UTF8_VALUE(p2)]
    if n == "serialize_none":
        return [RAW(C(0, "u8"), "0")]
    if n == "serialize_some":
        return [RAW(C(1, "u8"), "1"), VALUE(p2, "value")]
    if n in ("serialize_unit", "serialize_unit_struct", "serialize_tuple", "serialize_tuple_struct",
             "serialize_struct", "end"):
        return []
    if n == "serialize_unit_variant":
        return [VAR(32, P(fn, 3), "variant_index")]
    if n == "serialize_newtype_struct":
        return [VALUE(P(fn, 3), "value")]
    if n == "serialize_newtype_variant":
        return [VAR(32, P(fn, 3), "variant_index"), VALUE(P(fn, 5), "value")]
    if n in ("serialize_tuple_variant", "serialize_struct_variant"):
        return [VAR(32, P(fn, 3), "variant_index")]
    if n in ("serialize_seq", "serialize_map"):
        return [VAR(64, ("someval", p2), "len.unwrap()")]
    if n in ("serialize_element", "serialize_key", "serialize_value"):
        return [VALUE(p2, "value")]
    if n == "serialize_field":
        # tuple-struct/variant: (self, value); struct/variant: (self, key, value)
        return [VALUE(P(fn, fn.argc), "value")]
    return None


class ENCODE_UTF8_VALUE(tbl.Cell):
    """`v.encode_utf8(&mut buf).serialize(self)`: a char is written exactly as the str of its UTF-8 form"""

    def __init__(self, ch):
        self.ch = ch

    def describe(self):
        return "VALUE(v.encode_utf8(buf) as str)  [= VAR<usize>(len) ; BYTES(utf8) through serialize_str]"

    def match(self, cx, evs, i):
        if i + 1 >= len(evs) or not evs[i]["key"].endswith("char::methods::<impl char>::encode_utf8"):
            return None, "expected v.encode_utf8(..) followed by <str as Serialize>::serialize"
        e, s = evs[i], evs[i + 1]
        if norm(e["args"][0]) != self.ch:
            return None, "encode_utf8 applied to %s, not the char" % sym.show(norm(e["args"][0]))
        if s["key"] != tbl.SERIALIZE:
            # serialize_str called directly (and analysed in place): varint(len) then the bytes of the encoded str
            res = e["result"]
            j = i + 1
            for cell in (VAR(64, ("len", norm(res)), "encoded.len()"), BYTES_OF(norm(res), "encoded")):
                j, err = cell.match(cx, evs, j)
                if err:
                    return None, "after encode_utf8: " + err
            return j, None
        a0 = s["args"][0]
        got = norm(a0)
        if a0[0] == "ref" and a0[1][0] == "L" and s["snap"][0] is not None:
            got = norm(s["snap"][0])  # `&strsl` where strsl holds the encoded str
        if s["key"] != tbl.SERIALIZE or got != norm(e["result"]):
            return None, "the encoded str is not what gets serialized"
        st = (s["callee"].get("self_ty") or "")
        if st not in ("str", "&mut str", "&str"):
            return None, "encoded char serialized as %s, expected str" % st
        if not cx.is_self_serializer(s["args"][1]):
            return None, "nested value is not serialized with this serializer"
        return i + 2, None


def ret_ok_shape(fn, cx, ret, last_fallible):
    """On the all-success path the function must return Ok(()) / Ok(self) or the result of its last effect."""
    n = fn.name
    returns_self = n in ("serialize_seq", "serialize_map", "serialize_tuple", "serialize_tuple_struct",
                         "serialize_tuple_variant", "serialize_struct", "serialize_struct_variant")
    if ret[0] == "agg" and ret[3] == "Ok":
        pay = ret[5][0]
        if returns_self:
            return cx.is_self_serializer(pay)
        return pay == sym.UNIT or (pay[0] == "agg" and pay[1] == "tuple" and not pay[5])
    # tail position: result of the last effect (possibly through map_err)
    r = ret
    while r[0] == "map_err":
        r = r[1]
    return last_fallible is not None and r == last_fallible["result"] and not returns_self


def success_path(path):
    """True if no fallible call on this path was assumed to fail"""
    for atom, v in path.tagfacts.items():
        if isinstance(v, tuple) and v and v[0] == "not":
            rest = {0, 1} - set(v[1])
            v = rest.pop() if len(rest) == 1 else v
        if atom[0] == "tag" and atom[1][0] == "call" and v == 1:
            return False
    return True


def check_method(run, F, helpers, fn, rule="T1"):
    key = "%s::%s" % ((fn.impl_trait or "").split("::")[-1], fn.name)
    site = fn.where()
    if fn.name == "is_human_readable":
        eng = sym.Engine(F, inline=inline_policy)
        ps = eng.run(fn)
        okc = len(ps) == 1 and ps[0].ret == sym.FALSE and not tbl.residual_calls(ps[0])
        run.check(okc, rule, key, "is_human_readable() must be the constant false (binary format)", site,
                  "false", [sym.show(p.ret) for p in ps])
        return
    if fn.name == "collect_str":
        return check_collect_str(run, F, helpers, fn)
    cells = cells0 = spec_for(fn)
    if cells is None:
        run.bad(rule, key, "no wire-format table cell for serializer method %s" % fn.name, site)
        return
    eng = sym.Engine(F, inline=inline_policy, max_visits=2)
    paths = [p for p in eng.run(fn) if p.status != "infeasible"]
    want = " ; ".join(c.describe() for c in cells) or "ε (nothing written)"
    problems = []
    n_success = 0
    for p in paths:
        if p.status != "return":
            problems.append("a path ends in %s" % p.status)
            continue
        cx = tbl.SerCx(helpers, p, fn)
        evs = tbl.residual_calls(p, views=False)
        cells = cells0
        if fn.name == "serialize_char" and evs and evs[0]["key"].endswith("<impl char>::encode_utf8") and not any(e["key"] == tbl.SERIALIZE for e in evs) \
                and norm(evs[0]["args"][0]) == P(fn, 2):
            # serialize_str called directly and analysed in place: encode, varint(len), the bytes - as primitive cells so that the
            # prefix rule for failure paths applies
            res = norm(evs[0]["result"])
            cells = [tbl.ANYCALL("<impl char>::encode_utf8"), VAR(64, ("len", res), "encoded.len()"), BYTES_OF(res, "encoded")]
        if fn.name in ("serialize_seq", "serialize_map") and _len_unknown_path(p, fn):
            # C02.L: nothing written, error SerializeSeqLengthUnknown
            v = tbl.error_variant(F, p.ret)
            if evs:
                problems.append("writes to the flavor although the length is unknown")
            if v != "SerializeSeqLengthUnknown":
                problems.append("unknown length returns %s, expected Err(SerializeSeqLengthUnknown)" % sym.show(p.ret))
            continue
        if success_path(p):
            n_success += 1
            err = tbl.match_cells(cx, cells, evs)
            if err:
                problems.append(err)
                continue
            fall = [e for e in evs if e["key"] in (tbl.SER_PUSH, tbl.SER_EXTEND, tbl.SERIALIZE)]
            if not ret_ok_shape(fn, cx, p.ret, fall[-1] if fall else None):
                problems.append("success path returns %s" % sym.show(p.ret))
        else:
            # failure path: effects must be a prefix of the table cell (nothing else is written)
            err = _prefix_ok(cx, cells, evs)
            if err:
                problems.append("on a failure path: " + err)
    if n_success == 0 and not problems:
        problems.append("no success path found")
    if problems:
        run.bad(rule, key, problems[0], site, expected=want, found=problems)
    else:
        run.ok(rule, key, "emits " + want, site, method="TBL+BIT over %d path(s)" % len(paths))


def _len_unknown_path(p, fn):
    for cond, truth, kind in p.pc:
        if kind == "branch" and cond[0] in ("tag", "tagflip"):
            a, flip = sym.tag_atom(cond)
            x = norm(a[1]) if a[0] == "tag" else None
            if x is not None and x[0] == "init" and x[1][0] == "P":
                x = norm(x[1][1])          # the Option matched in place (`let Some(n) = len else ..`) rather than by value (`len.ok_or(..)?`)
            if x == ("param", 2, fn.locals[2]["ty"]):
                v = p.tagfacts.get(a)
                return v == 0 or (isinstance(v, tuple) and v[0] == "not" and set(v[1]) == {1})  # Option::None (`0`, or "not Some")
    return False


def _prefix_ok(cx, cells, evs):
    # try every prefix length of the cell list that consumes all events
    for k in range(len(cells), -1, -1):
        sub = cells[:k]
        if tbl.match_cells(cx, sub, evs) is None:
            return None
    # a failing writer call can leave the varint helper call without the extend; accept if only helper calls
    rest = [e for e in evs if e["key"] in (tbl.SER_PUSH, tbl.SER_EXTEND, tbl.SERIALIZE)]
    full = tbl.match_cells(cx, cells, evs)
    return full


def check_collect_str(run, F, helpers, fn):
    """C02.S — two-pass collect_str."""
    key = "Serializer::collect_str"
    site = fn.where()
    pc = F.crate("postcard")
    # the two local fmt::Write impls
    ws = [f for f in pc.fns if f.name == "write_str" and (f.impl_trait or "") == "core::fmt::Write"
          and "/tests/" not in (f.file or "") and "::test" not in f.canon]
    problems = []
    counter = None
    emitter = None
    for w in ws:
        eng = sym.Engine(F, inline=inline_policy)
        ps = [p for p in eng.run(w) if p.status == "return"]
        calls = [e for p in ps for e in tbl.residual_calls(p)]
        flav = [e for e in calls if e["key"] in (tbl.SER_PUSH, tbl.SER_EXTEND)]
        if not flav:
            counter = (w, ps)
        else:
            emitter = (w, ps)
    if counter is None or emitter is None or len(ws) != 2:
        run.bad("S", key, "expected one counting and one emitting fmt::Write helper inside collect_str, found %d" % len(ws), site)
        return
    # the counting writer's counter: the field its write_str updates (whatever it is called)
    CT = "ct"
    for p0 in counter[1]:
        for e0 in p0.events:
            if e0["k"] == "write" and e0["loc"][0] == "F" and e0["loc"][1] == ("P", ("param", 1, counter[0].locals[1]["ty"])):
                CT = e0["loc"][2]
    # provided methods of fmt::Write (write_char, write_fmt) must stay derived from write_str, or agree with it
    for o in pc.fns:
        if (o.impl_trait or "") == "core::fmt::Write" and "/tests/" not in (o.file or "") and "::test" not in o.canon and o.name != "write_str":
            is_counter = o.impl_self == counter[0].impl_self
            okov = False
            if o.name == "write_char" and is_counter:
                eng = sym.Engine(F, inline=inline_policy)
                ops = [p for p in eng.run(o) if p.status == "return"]
                if len(ops) == 1:
                    wr = [e for e in ops[0].events if e["k"] == "write"]
                    ctl = ("F", ("P", ("param", 1, o.locals[1]["ty"])), CT)
                    rc = tbl.residual_calls(ops[0])
                    if len(wr) == 1 and wr[0]["loc"] == ctl and len(rc) == 1 and rc[0]["key"].endswith("::len_utf8") \
                            and norm(rc[0]["args"][0]) == ("param", 2, "char"):
                        v = norm(wr[0]["val"])
                        old = ("init", ctl)
                        r = norm(rc[0]["result"])
                        okov = v in (norm(("bin", "Add", old, r, "usize")), norm(("bin", "Add", r, old, "usize"))) \
                            and ops[0].ret[0] == "agg" and ops[0].ret[3] == "Ok"
            if not okov:
                problems.append("%s overrides fmt::Write::%s and does not count/emit the same bytes as its write_str (%s)" % (
                    (o.impl_self or "?").split("::")[-1], o.name, "counting pass must add c.len_utf8()" if is_counter else "not derivable"))
    # counter: self.ct += s.len(), returns Ok, no other effect
    w, ps = counter
    okc = False
    if len(ps) == 1:
        p = ps[0]
        wr = [e for e in p.events if e["k"] == "write"]
        s = ("param", 2, w.locals[2]["ty"])
        exp_old = ("init", ("F", ("P", ("param", 1, w.locals[1]["ty"])), CT))
        if len(wr) == 1 and wr[0]["loc"] == ("F", ("P", ("param", 1, w.locals[1]["ty"])), CT):
            v = norm(wr[0]["val"])
            want1 = ("bin", "Add", exp_old, ("len", s), "usize")
            want2 = ("bin", "Add", ("len", s), exp_old, "usize")
            okc = v in (norm(want1), norm(want2)) and p.ret[0] == "agg" and p.ret[3] == "Ok" and not tbl.residual_calls(p)
            if not okc:
                problems.append("counting pass adds %s to the count, expected s.len() (bytes)" % sym.show(v))
        else:
            problems.append("counting pass does not update exactly its byte counter")
    else:
        problems.append("counting pass has %d paths" % len(ps))
    # emitter: try_extend(self.output, s.as_bytes()), error mapped to fmt::Error
    w, ps = emitter
    for p in ps:
        evs = tbl.residual_calls(p)
        s = ("param", 2, w.locals[2]["ty"])
        evs = [e for e in evs if not (e["key"] or "").endswith("<impl str>::as_bytes")]
        a0 = norm(evs[0]["args"][0]) if evs else None
        is_field_of_self = bool(a0) and a0[0] == "init" and a0[1][0] == "F" and a0[1][1] == ("P", ("param", 1, w.locals[1]["ty"]))
        ok_e = (len(evs) == 1 and evs[0]["key"] == tbl.SER_EXTEND and is_field_of_self and norm(evs[0]["args"][1]) == s)
        if not ok_e:
            problems.append("emitting pass does not forward exactly s.as_bytes() to the flavor's try_extend")
    # main body: write_fmt(counter) ; VAR<usize>(ctr.ct) ; write_fmt(emitter{output:&mut self.output})
    eng = sym.Engine(F, inline=inline_policy, max_visits=2)
    paths = [p for p in eng.run(fn) if p.status == "return"]
    succ = [p for p in paths if success_path(p)]
    if len(succ) != 1:
        problems.append("collect_str has %d success paths" % len(succ))
    for p in succ:
        cx = tbl.SerCx(helpers, p, fn)
        evs = tbl.residual_calls(p)
        wf = [e for e in evs if e["key"] == "core::fmt::Write::write_fmt"]
        mid = [e for e in evs if e["key"] in (tbl.SER_PUSH, tbl.SER_EXTEND, tbl.SERIALIZE) or (e["callee"] and e["callee"]["krate"] == "postcard")]
        if len(wf) != 2:
            problems.append("expected two formatting passes, found %d" % len(wf))
            continue
        i1, i2 = evs.index(wf[0]), evs.index(wf[1])
        between = [e for e in evs[i1 + 1:i2] if e in mid]
        before = [e for e in evs[:i1] if e in mid]
        after = [e for e in evs[i2 + 1:] if e in mid]
        if before or after:
            problems.append("flavor is written outside the length/text sequence")
        # receiver types of the two passes
        t1 = (wf[0]["callee"].get("self_ty") or "")
        t2 = (wf[1]["callee"].get("self_ty") or "")
        def base(x):
            x = x or ""
            return x.rsplit("<", 1)[0] if x.endswith(">") and "::" in x.rsplit("<", 1)[0] and not x.startswith("<") or x.count("<") > x.count("as ") + 0 and x.endswith(">") else x
        def tyname(x):
            # last path segment without generic arguments
            x = x or ""
            seg = x.split("::")[-1]
            return seg.split("<")[0]
        if tyname(counter[0].impl_self) != tyname(t1) or tyname(emitter[0].impl_self) != tyname(t2):
            problems.append("first pass must use the counting writer and the second the emitting writer (found %s, %s)" % (t1, t2))
        # the length written is the counter read back after pass one
        ctr_loc = wf[0]["args"][0]
        if ctr_loc[0] == "ref":
            ct_after = ("getf", ("havoc", wf[0]["id"], ctr_loc[1]), CT)
            cells = [VAR(64, ct_after, "ctr.ct")]
            err = tbl.match_cells(cx, cells, between)
            if err:
                problems.append("between the passes: " + err)
        else:
            problems.append("cannot identify the counting writer")
        # the emitting writer wraps the serializer's own flavor
        fwloc = wf[1]["args"][0]
        okw = False
        if fwloc[0] == "ref":
            for e in p.events:
                pass
            st = sym._store_state(p.store)
        # second pass and first pass format the same value
        if norm(wf[0]["args"][1])[0] != "call" or norm(wf[1]["args"][1])[0] != "call":
            problems.append("formatting arguments not recognised")
    if problems:
        run.bad("S", key, problems[0], site, found=problems)
    else:
        run.ok("S", key, "count pass (no flavor access, += s.len()) ; VAR<usize>(count) ; emit pass (try_extend(s.as_bytes()))", site)


from glueprops import run_groups


def run(run_, ctx):
    F = ctx.facts("A")
    helpers = ctx.helpers("A")
    pc = F.crate("postcard")
    run_.configs.append("A")
    run_.bodies += len(pc.fns)
    main = [f for f in pc.fns if f.impl_trait == SER_TRAIT and f.impl_self == SELF_TY and f.dk == "AssocFn"]
    for f in sorted(main, key=lambda f: f.name):
        check_method(run_, F, helpers, f)
    for tr, names in COMPOUND.items():
        fs = [f for f in pc.fns if f.impl_trait == tr and f.impl_self == SELF_TY and f.dk == "AssocFn"]
        for f in sorted(fs, key=lambda f: f.name):
            check_method(run_, F, helpers, f)
    run_.floor("T1", 46)
    run_.floor("S", 1)
    # C02.B1 report which helpers were proven (every helper reached from a table cell)
    for (kind, canon, *rest), (info, why) in sorted(helpers.memo.items(), key=lambda kv: str(kv[0])):
        if kind in ("W", "ZE"):
            nm = {"W": "canonical LEB128 writer", "ZE": "zig-zag encoder"}[kind]
            if info:
                run_.ok("B1", canon, "%s for all %d-bit values (BIT)" % (nm, info["N"]), method="BIT")
            else:
                run_.bad("B1", canon, "not a %s: %s" % (nm, why))
    run_.floor("B1", 9)
    # C02.ST storages hand the emitted bytes on unchanged and in order (the "encoded bytes" are what the storage keeps)
    run_groups(run_, ctx, [
        ("ST", "ser_slice", lambda k: "Index" not in k, "slice storage"),
        ("ST", "ser_storage", lambda k: "Index" not in k and "Size" not in k, "vector/extend storage"),
        ("ST", "ser_writer", None, "writer storage"),
        ("ST", "ser_default", None, "default try_extend"),
    ])
    run_.floor("ST", 20)
    run_.explanation = (
        "Every serde Serializer method of postcard's Serializer (and of the 7 compound impls) is explored along all "
        "MIR paths; the ordered calls on the output flavor are matched against a table transcribed from "
        "spec/src/wire-format.md. Values are compared as GF(2)-affine bit rows modulo the path condition, and the "
        "varint/zig-zag helper actually called in a cell is proven equal to canonical LEB128 / zig-zag for all values "
        "of its width by the BIT domain (loops unrolled over the constant varint_max bound). Decides byte-exactness "
        "per data-model kind for all values; does not decide which Serializer method serde's impls call.")
    run_.trusted += ["serde's Serialize impls for std types", "std: to_le_bytes/to_bits/encode_utf8/str::len/as_bytes",
                     "rustc MIR construction", "64-bit host (usize = u64)"]
    run_.assumptions += ["user Flavor impls obey the trait contract", "only the x86_64 cfg arm of pointer-width code is analysed"]
