"""Hand-written specifications of the raw-pointer cursor functions, in the vocabulary of the semantic summaries (summ2).

Unlike rules/expect2/*.json (generated from the reviewed tree), these few are written from the properties themselves: "fails exactly when
the n bytes do not fit, otherwise hands out / writes exactly [cursor, cursor+n) and advances the cursor by n; nothing moves on failure".
They are compared with the function's summary as boolean functions under the struct invariant (start <= cursor <= end), so `!=`/`<`,
swapped branches, helper functions, operand order and the like are immaterial.
"""
import glue
import summ
import summ2

V_CE = {"self.cursor - self.end": [["self.cursor", "1", False], ["self.end", "-1", False]]}
V_NCE = {"arg2 + self.cursor - self.end": [["arg2", "1", True], ["self.cursor", "1", False], ["self.end", "-1", False]]}
V_LCE = {"len(arg2) + self.cursor - self.end": [["len(arg2)", "1", True], ["self.cursor", "1", False], ["self.end", "-1", False]]}
V_BNCE = {"arg2 + self.buff.cursor - self.buff.end": [["arg2", "1", True], ["self.buff.cursor", "1", False], ["self.buff.end", "-1", False]]}


def L(var, *iv):
    return ["lin", var, [list(x) for x in iv]]


def T(var, *vals):
    return ["tag", var, ["in", list(vals)]]


def spec(outcomes, vars_):
    return {"outcomes": [{"text": t, "when": w} for t, w in sorted(outcomes)], "vars": vars_, "truncated": False}


HAND = {
    # ---- de::flavors::Slice (C03.R1, C04.G)
    "<de::flavors::Slice<'de> as ->::new": spec([
        ("- => Slice{_pl: PhantomData, cursor: as_ptr(arg1), end: (as_ptr(arg1) + len(arg1))}", [[]])], {}),
    "<de::flavors::Slice<'de> as Flavor>::pop": spec([
        ("raw-read *self.cursor; self.cursor := (self.cursor + 1) => Result::Ok(*self.cursor)", [[L("self.cursor - self.end", (None, -1))]]),
        ("- => Result::Err(Error::DeserializeUnexpectedEnd)", [[L("self.cursor - self.end", (0, None))]])], V_CE),
    "<de::flavors::Slice<'de> as Flavor>::try_take_n": spec([
        ("self.cursor := (arg2 + self.cursor) => Result::Ok(from_raw_parts(self.cursor, arg2))", [[L("arg2 + self.cursor - self.end", (None, 0))]]),
        ("- => Result::Err(Error::DeserializeUnexpectedEnd)", [[L("arg2 + self.cursor - self.end", (1, None))]])], V_NCE),
    "<de::flavors::Slice<'de> as Flavor>::finalize": spec([
        ("- => Result::Ok(from_raw_parts(self.cursor, (- self.cursor + self.end)))", [[]])], {}),
    "<de::flavors::Slice<'de> as Flavor>::size_hint": spec([
        ("- => Option::Some((- self.cursor + self.end))", [[]])], {}),
    # ---- ser::flavors::Slice (C05.G)
    "<ser::flavors::Slice<'a> as ->::new": spec([
        ("- => Slice{_pl: PhantomData, cursor: as_mut_ptr(arg1), end: (as_mut_ptr(arg1) + len(arg1)), start: as_mut_ptr(arg1)}", [[]])], {}),
    "<ser::flavors::Slice<'a> as Flavor>::try_push": spec([
        ("#1 = std::ptr::mut_ptr::<impl *mut T>::write(self.cursor, arg2); self.cursor := (self.cursor + 1) => Result::Ok(())",
         [[L("self.cursor - self.end", (None, -1))]]),
        ("- => Result::Err(Error::SerializeBufferFull)", [[L("self.cursor - self.end", (0, None))]])], V_CE),
    "<ser::flavors::Slice<'a> as Flavor>::try_extend": spec([
        ("#1 = std::ptr::copy_nonoverlapping(as_ptr(arg2), self.cursor, len(arg2)); self.cursor := (len(arg2) + self.cursor) => Result::Ok(())",
         [[L("len(arg2) + self.cursor - self.end", (None, 0))]]),
        ("- => Result::Err(Error::SerializeBufferFull)", [[L("len(arg2) + self.cursor - self.end", (1, None))]])], V_LCE),
    "<ser::flavors::Slice<'a> as Flavor>::finalize": spec([
        ("- => Result::Ok(from_raw_parts_mut(self.start, (self.cursor - self.start)))", [[]])], {}),
}

# ---- the size counter (C05.Z): counts exactly the bytes offered, writes nothing, reports the count
HAND["<ser::flavors::Size as Flavor>::try_push"] = spec([("self.size := (self.size + 1) => Result::Ok(())", [[]])], {})
HAND["<ser::flavors::Size as Flavor>::try_extend"] = spec([("self.size := (len(arg2) + self.size) => Result::Ok(())", [[]])], {})
HAND["<ser::flavors::Size as Flavor>::finalize"] = spec([("- => Result::Ok(self.size)", [[]])], {})

for _r, _tr in (("io::IOReader", "Read"), ("eio::EIOReader", "Read")):
    # ---- scratch buffer behind the reader flavors (C11.BX, C04.G): the slot is reserved first, then filled by exactly one read_exact
    HAND["<de::flavors::io::%s<'de, T> as Flavor>::try_take_n" % _r] = spec([
        ("- => Result::Err(Error::DeserializeUnexpectedEnd)", [[L("arg2 + self.buff.cursor - self.buff.end", (1, None))]]),
        ("self.buff.cursor := (arg2 + self.buff.cursor); #1 = <T as Read>::read_exact(&self.reader, from_raw_parts_mut(self.buff.cursor, arg2)) "
         "=> Result::Err(Error::DeserializeUnexpectedEnd)", [[L("arg2 + self.buff.cursor - self.buff.end", (None, 0)), T("tag(#1)", 1)]]),
        ("self.buff.cursor := (arg2 + self.buff.cursor); #1 = <T as Read>::read_exact(&self.reader, from_raw_parts_mut(self.buff.cursor, arg2)) "
         "=> Result::Ok(from_raw_parts_mut(self.buff.cursor, arg2))", [[L("arg2 + self.buff.cursor - self.buff.end", (None, 0)), T("tag(#1)", 0)]])], V_BNCE)
    HAND["<de::flavors::io::%s<'de, T> as Flavor>::finalize" % _r] = spec([
        ("- => Result::Ok((self.reader, from_raw_parts_mut(self.buff.cursor, (- self.buff.cursor + self.buff.end))))", [[]])], {})
    HAND["<de::flavors::io::%s<'de, T> as ->::new" % _r] = spec([
        ("- => %s{buff: SlidingBuffer{_pl: PhantomData, cursor: as_mut_ptr(arg2), end: (as_ptr(arg2) + len(arg2))}, reader: arg1}" % _r.split("::")[1], [[]])], {})


def check(run, rule, F, crate, keys, what, renames=None):
    """compare the listed functions with their hand-written specification; a missing function fails closed"""
    fns = {summ.fn_key(f): f for f in crate.fns}
    n = 0
    for k in keys:
        f = fns.get(k)
        if f is None:
            run.bad(rule, k, "function with a hand-written specification not found (public API / trait method renamed or removed?)")
            continue
        summ2.check(run, rule, f, HAND[k], F, what=what, renames=renames, hyps=glue.invariants_for(f))
        n += 1
    return n
