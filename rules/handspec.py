"""Hand-written specifications of the raw-pointer cursor functions, in the vocabulary of the semantic summaries (summ2).

Unlike rules/expect2/*.json (generated from the reviewed tree), these few are written from the properties themselves: "fails exactly when
the n bytes do not fit, otherwise hands out / writes exactly [cursor, cursor+n) and advances the cursor by n; nothing moves on failure".
They are compared with the function's summary as boolean functions under the struct invariant (start <= cursor <= end), so `!=`/`<`,
swapped branches, helper functions, operand order and the like are immaterial.
"""
import glue
import summ
import summ2

V_CE = {"self.cursor - self.end": [["self.cursor", "1", False], ["self.end", "-1", False]]}
V_NCE = {"arg2 + self.cursor - self.end": [["arg2", "1", True], ["self.cursor", "1", False], ["self.end", "-1", False]]}
V_LCE = {"len(arg2) + self.cursor - self.end": [["len(arg2)", "1", True], ["self.cursor", "1", False], ["self.end", "-1", False]]}
V_BNCE = {"arg2 + self.buff.cursor - self.buff.end": [["arg2", "1", True], ["self.buff.cursor", "1", False], ["self.buff.end", "-1", False]]}


def L(var, *iv):
    return ["lin", var, [list(x) for x in iv]]


def T(var, *vals):
    return ["tag", var, ["in", list(vals)]]


def spec(outcomes, vars_):
    return {"outcomes": [{"text": t, "when": w} for t, w in sorted(outcomes)], "vars": vars_, "truncated": False}


HAND = {
    # ---- de::flavors::Slice (C03.R1, C04.G)
    "<de::flavors::Slice<'de> as ->::new": spec([
        ("- => Slice{_pl: PhantomData, cursor: as_ptr(arg1), end: (as_ptr(arg1) + len(arg1))}", [[]])], {}),
    "<de::flavors::Slice<'de> as Flavor>::pop": spec([
        ("self.cursor := (self.cursor + 1) => Result::Ok(*self.cursor)", [[L("self.cursor - self.end", (None, -1))]]),
        ("- => Result::Err(Error::DeserializeUnexpectedEnd)", [[L("self.cursor - self.end", (0, None))]])], V_CE),
    "<de::flavors::Slice<'de> as Flavor>::try_take_n": spec([
        ("self.cursor := (arg2 + self.cursor) => Result::Ok(from_raw_parts(self.cursor, arg2))", [[L("arg2 + self.cursor - self.end", (None, 0))]]),
        ("- => Result::Err(Error::DeserializeUnexpectedEnd)", [[L("arg2 + self.cursor - self.end", (1, None))]])], V_NCE),
    "<de::flavors::Slice<'de> as Flavor>::finalize": spec([
        ("- => Result::Ok(from_raw_parts(self.cursor, (- self.cursor + self.end)))", [[]])], {}),
    "<de::flavors::Slice<'de> as Flavor>::size_hint": spec([
        ("- => Option::Some((- self.cursor + self.end))", [[]])], {}),
    # ---- ser::flavors::Slice (C05.G)
    "<ser::flavors::Slice<'a> as ->::new": spec([
        ("- => Slice{_pl: PhantomData, cursor: as_ptr(arg1), end: (as_ptr(arg1) + len(arg1)), start: as_ptr(arg1)}", [[]])], {}),
    "<ser::flavors::Slice<'a> as Flavor>::try_push": spec([
        ("*self.cursor := arg2; self.cursor := (self.cursor + 1) => Result::Ok(())",
         [[L("self.cursor - self.end", (None, -1))]]),
        ("- => Result::Err(Error::SerializeBufferFull)", [[L("self.cursor - self.end", (0, None))]])], V_CE),
    "<ser::flavors::Slice<'a> as Flavor>::try_extend": spec([
        ("#1 = std::ptr::copy_nonoverlapping(as_ptr(arg2), self.cursor, len(arg2)); self.cursor := (len(arg2) + self.cursor) => Result::Ok(())",
         [[L("len(arg2) + self.cursor - self.end", (None, 0))]]),
        ("- => Result::Err(Error::SerializeBufferFull)", [[L("len(arg2) + self.cursor - self.end", (1, None))]])], V_LCE),
    "<ser::flavors::Slice<'a> as Flavor>::finalize": spec([
        ("- => Result::Ok(from_raw_parts_mut(self.start, (self.cursor - self.start)))", [[]])], {}),
}

# ---- the size counter (C05.Z): counts exactly the bytes offered, writes nothing, reports the count
HAND["<ser::flavors::Size as Flavor>::try_push"] = spec([("self.size := (self.size + 1) => Result::Ok(())", [[]])], {})
HAND["<ser::flavors::Size as Flavor>::try_extend"] = spec([("self.size := (len(arg2) + self.size) => Result::Ok(())", [[]])], {})
HAND["<ser::flavors::Size as Flavor>::finalize"] = spec([("- => Result::Ok(self.size)", [[]])], {})

for _r, _tr in (("io::IOReader", "Read"), ("eio::EIOReader", "Read")):
    # ---- scratch buffer behind the reader flavors (C11.BX, C04.G): the slot is reserved first, then filled by exactly one read_exact
    HAND["<de::flavors::io::%s<'de, T> as Flavor>::try_take_n" % _r] = spec([
        ("- => Result::Err(Error::DeserializeUnexpectedEnd)", [[L("arg2 + self.buff.cursor - self.buff.end", (1, None))]]),
        ("self.buff.cursor := (arg2 + self.buff.cursor); #1 = <T as Read>::read_exact(&self.reader, from_raw_parts_mut(self.buff.cursor, arg2)) "
         "=> Result::Err(Error::DeserializeUnexpectedEnd)", [[L("arg2 + self.buff.cursor - self.buff.end", (None, 0)), T("tag(#1)", 1)]]),
        ("self.buff.cursor := (arg2 + self.buff.cursor); #1 = <T as Read>::read_exact(&self.reader, from_raw_parts_mut(self.buff.cursor, arg2)) "
         "=> Result::Ok(from_raw_parts_mut(self.buff.cursor, arg2))", [[L("arg2 + self.buff.cursor - self.buff.end", (None, 0)), T("tag(#1)", 0)]])], V_BNCE)
    HAND["<de::flavors::io::%s<'de, T> as Flavor>::finalize" % _r] = spec([
        ("- => Result::Ok((self.reader, from_raw_parts_mut(self.buff.cursor, (- self.buff.cursor + self.buff.end))))", [[]])], {})
    HAND["<de::flavors::io::%s<'de, T> as ->::new" % _r] = spec([
        ("- => %s{buff: SlidingBuffer{_pl: PhantomData, cursor: as_ptr(arg2), end: (as_ptr(arg2) + len(arg2))}, reader: arg1}" % _r.split("::")[1], [[]])], {})


# ---- the COBS accumulator (C08, C09).  One outcome per case of the property's case analysis; POS = index of the first zero byte.
POS = "position(&{Iter{pos: 0, slice: arg2}}, closure<- => *arg2 in [0,0]>())"
N_FIT = "const<N> - len(arg2) - self.idx"
Z_FIT = "const<N> - self.idx - someval(%s)" % POS
TAKE = "arg2[0..(someval(%s) + 1)]" % POS
REST = "arg2[(someval(%s) + 1)..len(arg2)]" % POS
NEWIDX = "(self.idx + someval(%s) + 1)" % POS
APPEND_Z = ("#1 = core::slice::<impl [T]>::copy_from_slice(self.buf[self.idx..%s], %s); self.idx := %s; #2 = de::from_bytes_cobs(self.buf[0..%s]); self.idx := 0"
            % (NEWIDX, TAKE, NEWIDX, NEWIDX))
V_ACC = {
    N_FIT: [["const<N>", "1", False], ["len(arg2)", "-1", True], ["self.idx", "-1", False]],
    Z_FIT: [["const<N>", "1", False], ["self.idx", "-1", False], ["someval(%s)" % POS, "-1", True]],
    "len(arg2)": [["len(arg2)", "1", True]],
    "tag(#2)": {"dom": [0, 1]},
    "tag(%s)" % POS: {"dom": [0, 1]},
}
NONEMPTY = L("len(arg2)", (1, None))
ZERO = T("tag(%s)" % POS, 1)
NOZERO = T("tag(%s)" % POS, 0)
ACC_FEED = spec([
    # nothing offered: nothing happens
    ("- => FeedResult::Consumed", [[L("len(arg2)", (0, 0))]]),
    # no terminator in the chunk and it fits: appended at idx, idx grows by the chunk length
    ("#1 = core::slice::<impl [T]>::copy_from_slice(self.buf[self.idx..(len(arg2) + self.idx)], arg2); self.idx := (len(arg2) + self.idx) => FeedResult::Consumed",
     [[NONEMPTY, NOZERO, L(N_FIT, (0, None))]]),
    # no terminator and it does not fit: state reset, the bytes beyond the free space are handed back
    ("self.idx := 0 => FeedResult::OverFull(arg2[(const<N> - self.idx)..len(arg2)])", [[NONEMPTY, NOZERO, L(N_FIT, (None, -1))]]),
    # terminator at POS, segment (through the terminator) does not fit: reset, hand back what follows the terminator
    ("self.idx := 0 => FeedResult::OverFull(%s)" % REST, [[NONEMPTY, ZERO, L(Z_FIT, (None, 0))]]),
    # terminator, fits: append through the terminator, decode exactly buf[..idx], reset, report with what follows the terminator
    ("%s => FeedResult::Success{data: okval(#2), remaining: %s}" % (APPEND_Z, REST), [[NONEMPTY, ZERO, L(Z_FIT, (1, None)), T("tag(#2)", 0)]]),
    ("%s => FeedResult::DeserError(%s)" % (APPEND_Z, REST), [[NONEMPTY, ZERO, L(Z_FIT, (1, None)), T("tag(#2)", 1)]]),
], V_ACC)
HAND["<accumulator::CobsAccumulator<N> as ->::feed_ref"] = ACC_FEED
HAND["<accumulator::CobsAccumulator<N> as ->::feed"] = ACC_FEED
HAND["<accumulator::CobsAccumulator<N> as ->::new"] = spec([("- => CobsAccumulator{buf: [0; N], idx: 0}", [[]])], {})


# ---- the COBS encoder flavor (C06.EX): each byte is offered to the encoder state first; what it answers decides, and only that:
#      AddSingle(b): push b.   ModifyFromStartAndSkip((i, v)): patch byte i of the output to v, push a placeholder 0.
#      ModifyFromStartAndPushAndSkip((i, v, b)): patch, push b, push a placeholder 0.   Errors of the inner flavor come back unchanged.
def _cobs_push():
    s0 = "#1 = cobs::EncoderState::push(&self.cobs, arg2)"
    push = lambda n, x: "#%d = <B as Flavor>::try_push(&self.flav, %s)" % (n, x)
    pay = lambda v: "pay(#1, '%s', '0')" % v
    patch = lambda v: "#2 = <B as IndexMut>::index_mut(&self.flav, %s.0); *#2 := %s.1" % (pay(v), pay(v))
    out = []
    vt = {"tag(#1)": {"dom": [0, 1, 2]}, "tag(#2)": {"dom": [0, 1]}, "tag(#3)": {"dom": [0, 1]}, "tag(#4)": {"dom": [0, 1]}}
    a = "AddSingle"
    out.append(("%s; %s => Result::Err(errval(#2))" % (s0, push(2, pay(a))), [[T("tag(#1)", 0), T("tag(#2)", 1)]]))
    out.append(("%s; %s => Result::Ok(())" % (s0, push(2, pay(a))), [[T("tag(#1)", 0), T("tag(#2)", 0)]]))
    m = "ModifyFromStartAndSkip"
    out.append(("%s; %s; %s => Result::Err(errval(#3))" % (s0, patch(m), push(3, "0")), [[T("tag(#1)", 1), T("tag(#3)", 1)]]))
    out.append(("%s; %s; %s => Result::Ok(())" % (s0, patch(m), push(3, "0")), [[T("tag(#1)", 1), T("tag(#3)", 0)]]))
    m = "ModifyFromStartAndPushAndSkip"
    out.append(("%s; %s; %s => Result::Err(errval(#3))" % (s0, patch(m), push(3, pay(m) + ".2")), [[T("tag(#1)", 2), T("tag(#3)", 1)]]))
    out.append(("%s; %s; %s; %s => Result::Err(errval(#4))" % (s0, patch(m), push(3, pay(m) + ".2"), push(4, "0")), [[T("tag(#1)", 2), T("tag(#3)", 0), T("tag(#4)", 1)]]))
    out.append(("%s; %s; %s; %s => Result::Ok(())" % (s0, patch(m), push(3, pay(m) + ".2"), push(4, "0")), [[T("tag(#1)", 2), T("tag(#3)", 0), T("tag(#4)", 0)]]))
    return spec(out, vt)


HAND["<ser::flavors::Cobs<B> as Flavor>::try_push"] = _cobs_push()
_fin = "#1 = cobs::EncoderState::finalize(self.cobs); #2 = <B as IndexMut>::index_mut(&{self.flav}, #1.0); *#2 := #1.1; #3 = <B as Flavor>::try_push(&{self.flav}, 0)"
HAND["<ser::flavors::Cobs<B> as Flavor>::finalize"] = spec([
    (_fin + " => Result::Err(errval(#3))", [[T("tag(#3)", 1)]]),
    (_fin + "; #4 = <B as Flavor>::finalize(after#3(~)) => Result::Err(errval(#4))", [[T("tag(#3)", 0), T("tag(#4)", 1)]]),
    (_fin + "; #4 = <B as Flavor>::finalize(after#3(~)) => Result::Ok(okval(#4))", [[T("tag(#3)", 0), T("tag(#4)", 0)]]),
], {"tag(#3)": {"dom": [0, 1]}, "tag(#4)": {"dom": [0, 1]}})
HAND["<ser::flavors::Cobs<B> as ->::try_new"] = spec([
    ("#1 = <B as Flavor>::try_push(&{arg1}, 0) => Result::Err(Error::SerializeBufferFull)", [[T("tag(#1)", 1)]]),
    ("#1 = <B as Flavor>::try_push(&{arg1}, 0) => Result::Ok(Cobs{cobs: default::<cobs::EncoderState,cobs::EncoderState>(), flav: after#1(~)})", [[T("tag(#1)", 0)]]),
], {"tag(#1)": {"dom": [0, 1]}})


def acc_inline(fn, ev):
    """inside the accumulator only its own private helpers are inlined: the segment decoder stays a call"""
    return fn.crate in summ2.LOCAL_CRATES and fn.canon.startswith("postcard::accumulator::")


INLINE = {k: acc_inline for k in HAND if k.startswith("<accumulator::")}


def check(run, rule, F, crate, keys, what, renames=None, per_outcome=False):
    """compare the listed functions with their hand-written specification; a missing function fails closed"""
    fns = {summ.fn_key(f): f for f in crate.fns}
    n = 0
    for k in keys:
        f = fns.get(k)
        if f is None:
            run.bad(rule, k, "function with a hand-written specification not found (public API / trait method renamed or removed?)")
            continue
        summ2.check(run, rule, f, HAND[k], F, what=what, renames=renames, hyps=glue.invariants_for(f), inline=INLINE.get(k), per_outcome=per_outcome)
        n += 1
    return n
