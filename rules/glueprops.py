"""Helper for property modules that are (partly) decided by specified glue summaries."""
import glue


def run_groups(run_, ctx, items, config="A"):
    """items: list of (rule, group, only-predicate-or-None, what)"""
    F = ctx.facts(config)
    pc = F.crate("postcard")
    exp = glue.load2(config)
    if config not in run_.configs:
        run_.configs.append(config)
        run_.bodies += len(pc.fns)
    total = 0
    for rule, group, only, what in items:
        total += glue.check_group2(run_, rule, F, pc, group, exp, only=only, what=what)
    return total
