"""Helper for property modules that are (partly) decided by specified glue summaries."""
import glue


def run_groups(run_, ctx, items, config="A"):
    """items: list of (rule, group, only-predicate-or-None, what)"""
    F = ctx.facts(config)
    pc = F.crate("postcard")
    exp = glue.load2(config)
    if config not in run_.configs:
        run_.configs.append(config)
        run_.bodies += len(pc.fns)
    total = 0
    for rule, group, only, what in items:
        total += glue.check_group2(run_, rule, F, pc, group, exp, only=only, what=what)
    if getattr(ctx, "tier", "quick") == "thorough" and config == "A":
        # thorough: the same groups in the second feature configuration (postcard alone with use-std + embedded-io 0.4): bodies that are
        # compiled differently there (cfg'd imports, the other embedded-io version, no use-crc/heapless) are judged against their own specification
        try:
            FB = ctx.facts("B")
            pcb = FB.crate("postcard")
            expb = glue.load2("B")
            if "B" not in run_.configs:
                run_.configs.append("B")
                run_.bodies += len(pcb.fns)
            for rule, group, only, what in items:
                if expb.get(group):
                    total += glue.check_group2(run_, rule + "@B", FB, pcb, group, expb, only=only, what=(what or "") + " [configuration B]")
        except Exception as e:  # the quick verdict stands; say why the deeper pass did not run
            run_.note("configuration B not analysed in the thorough tier: %s: %s" % (type(e).__name__, e))
    return total
