"""Self-test of the machinery (thorough tier, informational): run the property's quick check on scratch copies of /repo with
(a) each confirmed seeded change of that property applied - the check must report a violation - and (b) each benign variant applied -
the check must stay silent.  Results go into evidence; they never change the exit status of the property check (they test the checker,
not the tree).  Scratch copies live under $TMPDIR and are removed, with nothing left behind."""
import glob
import json
import os
import shutil
import subprocess
import tempfile

import facts


def run_selftest(run_, pid, max_benign=None):
    seeded = sorted(glob.glob(os.path.join(facts.VERIF, "seeded", pid + "-m*", "patch.diff")))
    benign = sorted(glob.glob(os.path.join(facts.VERIF, "selftest", "benign", "*.patch")))
    # the variants written for this property and the hand-written cross-cutting ones (the full matrix is tools/benign_matrix.py)
    benign = [b for b in benign if pid in os.path.basename(b) or os.path.basename(b).startswith("b")]
    if max_benign:
        benign = benign[:max_benign]
    tmp = tempfile.mkdtemp(prefix="pcv-selftest-")
    res = {"seeded_total": len(seeded), "seeded_detected": 0, "benign_total": len(benign), "benign_silent": 0, "details": []}
    try:
        scratch = os.path.join(tmp, "repo")
        for kind, patches in (("seeded", seeded), ("benign", benign)):
            for p in patches:
                if os.path.exists(scratch):
                    shutil.rmtree(scratch)
                subprocess.run(["rsync", "-a", "--exclude", "target", "--exclude", ".git", facts.REPO + "/", scratch + "/"], check=True)
                a = subprocess.run(["patch", "-p1", "-s", "-i", p], cwd=scratch, stdout=subprocess.PIPE, stderr=subprocess.STDOUT, text=True)
                name = os.path.basename(os.path.dirname(p)) if kind == "seeded" else os.path.basename(p)[:-6]
                if a.returncode != 0:
                    res["details"].append({"patch": name, "kind": kind, "result": "does not apply"})
                    continue
                env = dict(os.environ, PCV_REPO=scratch, PCV_EVIDENCE_DIR=os.path.join(tmp, "ev"), VERIF_TIER="quick")
                r = subprocess.run([os.path.join(facts.VERIF, "check"), pid, "quick"], cwd=facts.VERIF, env=env,
                                   stdout=subprocess.PIPE, stderr=subprocess.STDOUT, text=True)
                fired = r.returncode == 1
                rules = sorted(set(l.split("rule=")[1].split(" ")[0] for l in r.stdout.splitlines() if l.strip().startswith("rule=")))
                res["details"].append({"patch": name, "kind": kind, "result": "violation reported" if fired else ("silent" if r.returncode == 0 else "error %d" % r.returncode),
                                       "rules": rules})
                if kind == "seeded" and fired:
                    res["seeded_detected"] += 1
                if kind == "benign" and r.returncode == 0:
                    res["benign_silent"] += 1
    finally:
        shutil.rmtree(tmp, ignore_errors=True)
    run_.extra["selftest"] = res
    run_.note("self-test: %d/%d seeded changes of this property detected, %d/%d benign variants silent" % (
        res["seeded_detected"], res["seeded_total"], res["benign_silent"], res["benign_total"]))
    return res
