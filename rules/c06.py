"""C06 — COBS-framed output is one well-formed frame and decodes back, frame by frame.

C06.E  encoder glue: Cobs::try_new pushes exactly one placeholder byte before any data; try_push dispatches on
       cobs::PushResult per the crate's documented contract (AddSingle(n): push n | ModifyFromStartAndSkip((i,m)):
       flav[i]=m; push 0 | ModifyFromStartAndPushAndSkip((i,m,n)): flav[i]=m; push n; push 0), operands flowing from the
       matched payload fields in that order; finalize: (i,m)=state.finalize(); flav[i]=m; push 0 (sentinel); inner finalize.
       No try_extend override bypasses the state machine. The four to_*_cobs wrappers build Cobs::try_new(storage).
C06.D  decoder glue: from_bytes_cobs = decode_in_place then from_bytes(&s[..n]); take_from_bytes_cobs = report; swallow one
       sentinel iff s.get(src_used)==Some(&0); value from s[..dst_used]; remainder = s[src_used'..]: the two split offsets
       add up to src_used' (LIN identity), so the remainder begins right after the frame's sentinel.
Decides that postcard drives the external COBS encoder/decoder exactly as their contracts require; the frame-shape theorems
(single trailing zero, n + n/254 + 2 length, decode-back) are properties of cobs 0.2.3's state machine (trusted base).
"""
import re

import glue
import lin
import summ
import sym
import tbl
from glueprops import run_groups
from tbl import norm

LEVEL = "other"
MANIFEST = {
    "text": "Static check of the glue between postcard and the cobs crate on every path: placeholder, back-patch index/value and "
            "pushed bytes come from the matched PushResult fields in the documented order, sentinel pushed at finalize, decode "
            "glue slices exactly the decoded prefix and returns the remainder starting after the sentinel (offset identity proved "
            "linearly). Right level: the 254-run arm is never executed by tests but is read here like any other path.",
    "note": "Trusted: cobs 0.2.3 EncoderState/decode_in_place(_report) behave per their documentation; frame-shape theorems of COBS itself are not re-proved.",
    "technique": "static analysis: semantic MIR summaries vs specifications (hand-written for the three encoder arms) + linear offset identity",
}


def check_take_offsets(F, f):
    import re
    import summ2
    probs = []
    try:
        sm = summ2.summarize(F, f)
    except Exception as e:
        return ["cannot summarise: %s" % e]
    oks = [o for o in sm["outcomes"] if "=> Result::Ok(" in o["text"]]
    if len(oks) != 2:
        return ["expected two success outcomes (sentinel present / absent), found %d" % len(oks)]
    seen = set()
    for o in oks:
        t = o["text"]
        m = re.search(r"#(\d+) = cobs::decode_in_place_report\(arg1\)", t)
        if not m:
            probs.append("frame is not decoded with cobs::decode_in_place_report on the whole input")
            continue
        R = "okval(#%s)" % m.group(1)
        if "cursor: as_ptr(arg1), end: (as_ptr(arg1) + %s.dst_used)" % R not in t:
            probs.append("value is not decoded from the decoded prefix s[..dst_used]")
        m2 = re.search(r"=> Result::Ok\(\(okval\(#\d+\), arg1\[(.*)\.\.len\(arg1\)\]\)\)$", t)
        if not m2:
            probs.append("returned remainder is not a tail of the input")
            continue
        lo = m2.group(1)
        probe = "index(after#%s(*arg1), %s.src_used)" % (m.group(1), R)
        inb = "len(arg1) - %s.src_used" % R
        if lo == "(%s.src_used + 1)" % R:
            seen.add("present")
            for c in o["when"]:
                d = {l[1]: l[2] for l in c}
                if d.get(probe) != [[0, 0]] or d.get(inb) != [[1, None]]:
                    probs.append("remainder skips one byte although no zero sentinel was seen at src_used (condition: %s)" % c)
        elif lo == "%s.src_used" % R:
            seen.add("absent")
            for c in o["when"]:
                d = {l[1]: l[2] for l in c}
                zero_possible = probe not in d or any((lo_ is None or lo_ <= 0) and (hi_ is None or hi_ >= 0) for lo_, hi_ in d[probe])
                inb_possible = inb not in d or any(hi_ is None or hi_ >= 1 for lo_, hi_ in d[inb])
                if zero_possible and inb_possible:
                    probs.append("remainder starts at src_used although a zero sentinel may follow the frame (condition: %s)" % c)
        else:
            probs.append("remainder starts at offset %s, expected src_used%s" % (lo, " (+1 after the sentinel)"))
    if seen != {"present", "absent"} and not probs:
        probs.append("sentinel-present and sentinel-absent cases are not both handled")
    return probs


def run(run_, ctx):
    run_groups(run_, ctx, [
        ("E", "ser_cobs", None, "COBS encoder flavor"),
        # the encoder flavor does not override try_extend: multi-byte writes reach it through the trait's provided method
        ("E", "ser_default", None, "provided try_extend (what Cobs inherits)"),
        ("E", "ser_entry", lambda k: "cobs" in k, "COBS encode wrapper"),
        ("D", "de_entry", lambda k: "cobs" in k, "COBS decode glue"),
    ])
    run_.floor("E", 8)
    run_.floor("D", 2)
    F = ctx.facts("A")
    pc = F.crate("postcard")
    # semantic: payload flow of the encoder flavor against the hand-written reading of the cobs contract (rules/handspec.py)
    import handspec
    handspec.check(run_, "EX", F, pc, [k for k in handspec.HAND if k.startswith("<ser::flavors::Cobs<B>")],
                   "every byte goes through the encoder state; its answer alone decides what is patched and pushed, in that order",
                   renames=glue.renames(F, pc, glue.load2("A")))
    run_.floor("EX", 3)
    # semantic: remainder offset identity in take_from_bytes_cobs, read off the function's semantic summary (canonical slices:
    # however the two halves are split, the returned remainder is printed as arg1[lo..len(arg1)] with lo in linear normal form)
    f = [x for x in pc.fns if x.def_ == "de::take_from_bytes_cobs"]
    if len(f) != 1:
        run_.bad("DX", "take_from_bytes_cobs", "not found")
    else:
        f = f[0]
        probs = check_take_offsets(F, f)
        run_.check(not probs, "DX", "take_from_bytes_cobs offsets", probs[0] if probs else "remainder = s[src_used (+1 if sentinel)..], value from s[..dst_used]", f.where(), found=probs)
    run_.floor("DX", 1)
    run_.explanation = (
        "The COBS encoder flavor (try_new/try_push/finalize), the four to_*_cobs wrappers and the two decode entry points are summarised "
        "per path from MIR and compared with specified summaries; additionally the operands of each PushResult arm are traced to the "
        "matched payload fields, and the two split_at_mut offsets of take_from_bytes_cobs are proved to add up to src_used (+1 iff a "
        "sentinel follows) by linear arithmetic, so the reported remainder starts right after the frame's sentinel.")
    run_.trusted += ["cobs 0.2.3: EncoderState::push/finalize contract, decode_in_place(_report) report fields"]
