"""WIT — compile-time witnesses: run the harness crate's doc-tests (compile_fail with error codes + compiling twins, no_run:
nothing of postcard is executed) against /repo's current tree and report one instance per witness."""
import os
import re
import shutil
import subprocess

import facts

VERIF = facts.VERIF


def run_witnesses(run_, rule, root=None, only=None):
    root = root or facts.REPO
    src = os.path.join(VERIF, "harness", "witness")
    work = os.path.join(facts.CACHE, "witness")
    with facts.locked("witness"):
        out = _build_and_test(root, src, work)
    return _judge(run_, rule, out, only)


def _build_and_test(root, src, work):
    os.makedirs(os.path.join(work, "src"), exist_ok=True)
    toml = open(os.path.join(src, "Cargo.toml.in")).read().replace("@REPO@", root)
    open(os.path.join(work, "Cargo.toml"), "w").write(toml)
    shutil.copy(os.path.join(src, "src", "lib.rs"), os.path.join(work, "src", "lib.rs"))
    lock = os.path.join(root, "Cargo.lock")
    if os.path.exists(lock):
        shutil.copy(lock, os.path.join(work, "Cargo.lock"))
    env = dict(os.environ, CARGO_TARGET_DIR=facts.bounded_target(os.path.join(facts.CACHE, "tgt-witness")), CARGO_NET_OFFLINE="true")
    r = subprocess.run(["cargo", "+nightly", "test", "--doc", "--offline"], cwd=work, env=env,
                       stdout=subprocess.PIPE, stderr=subprocess.STDOUT, text=True)
    return r.stdout


def _judge(run_, rule, out, only):
    res = {}
    for m in re.finditer(r"^test src/lib\.rs - (\w+) \(line \d+\) - (compile fail|compile) \.\.\. (ok|FAILED)", out, re.M):
        name, kind, verdict = m.group(1), m.group(2), m.group(3)
        res.setdefault(name, {})[kind] = verdict
    if not res:
        run_.bad(rule, "harness", "witness crate did not build against the current tree:\n" + out[-1500:])
        return 0
    n = 0
    for name, d in sorted(res.items()):
        if only and not only(name):
            continue
        n += 1
        cf, tw = d.get("compile fail"), d.get("compile")
        if tw != "ok":
            run_.bad(rule, name, "the compiling twin of the witness does not compile: the witness is stale (API changed?)")
        elif cf != "ok":
            run_.bad(rule, name, "a program that violates the lifetime clause now COMPILES (or fails with a different error): "
                                 "a decoded value / remainder / output slice can outlive or alias the buffer it borrows from")
        else:
            run_.ok(rule, name, "violating program rejected with the expected borrow-check error; twin compiles", method="compile_fail witness")
    return n
