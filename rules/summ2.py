"""Semantic summaries of glue functions (second generation of summ.py).

A summary says what a function does, as a set of *outcomes*.  An outcome is the ordered list of effects a path has on the world
outside the function (calls to code that is not in the analysed crates or cannot be resolved - generic trait methods, std functions with
side effects -, writes through its parameters, raw-pointer reads/writes) together with the returned value; each outcome carries the
condition under which it happens, a disjunction of conjunctions of literals.

Everything that does not change behaviour is normalised away before two summaries are compared:
  * local (same-workspace) callees are inlined, so extracting or inlining a private helper, or renaming one, is invisible;
  * `?`, `match`, `if let`, `map_err`, `map`, `ok_or`, `is_err()` + early return ... all become a case split on the tag of the opaque
    Result/Option with payload projections (`okval`, `errval`, `someval`); a Result returned unchanged is eta-expanded the same way;
  * std functions without side effects (len, as_ptr, add, from_raw_parts, split_at, iter, ...) are terms, not effects: evaluating them
    once or twice, earlier or later, hoisted into a `let` or not, gives the same summary;
  * integer/pointer arithmetic is printed as a sorted linear form (`a + b` = `b + a`, `end - cursor` however it was computed);
  * branch conditions are literals over canonical variables: `tag(x)` with a set of admitted variant indices, or a linear form with a set
    of admitted integer intervals (`x < 128` = `x <= 127` = `!(x >= 128)`; unsigned `x != 0` = `x >= 1`), and two summaries agree when, for
    every outcome, their conditions are equal as boolean functions (decided by enumerating the finitely many regions of the variables:
    no solver) - so splitting or merging paths, swapping branches, flipping polarity, or reordering independent tests is invisible;
  * writes to the same place between two effects are folded to the last one; struct literals are printed with fields sorted by name;
  * as a fallback, a bijective renaming of private field names that makes all summaries of a crate agree is accepted.
Nothing here matches source text, positions, local names or temporaries.
"""
import itertools
import json
import math
import re
from fractions import Fraction

import lin
import sym
import tbl
from bit import term_ty
from sym import is_c
from tbl import norm

LOCAL_CRATES = ("postcard", "postcard_schema", "postcard_dyn", "postcard_derive")

# std functions that only compute a value from their arguments (no write through any argument, no I/O, no allocation that matters here)
PURE_NAMES = {
    "len", "is_empty", "as_ptr", "as_mut_ptr", "add", "sub", "offset", "offset_from", "cast", "from_raw_parts", "from_raw_parts_mut",
    "as_bytes", "as_str", "as_ref", "as_mut", "as_slice", "as_mut_slice", "deref", "deref_mut", "borrow", "borrow_mut", "iter", "iter_mut",
    "chars", "split_at", "split_at_mut", "split_first", "split_last", "first", "last", "get", "get_mut", "position", "from_utf8", "from_ref",
    "size_of", "align_of", "into", "from", "try_from", "try_into", "clone", "copied", "cloned", "len_utf8", "encode_utf8", "to_owned",
    "wrapping_add", "wrapping_sub", "wrapping_mul", "min", "max", "eq", "ne", "index", "index_mut", "default", "new", "is_some", "is_none",
    "unwrap_or", "count", "next", "all", "any", "rev", "enumerate", "zip", "map", "to_le_bytes", "to_be_bytes", "from_le_bytes",
    "from_be_bytes", "leading_zeros", "trailing_zeros", "to_bits", "from_bits", "as_array", "to_vec", "to_string", "into_iter",
    "unwrap_unchecked", "is_char_boundary", "digest", "digest_with_initial",
    "to_ne_bytes", "from_ne_bytes", "to_le", "to_be", "from_le", "from_be", "swap_bytes", "reverse_bits", "rotate_left", "rotate_right",
    "wrapping_neg", "wrapping_shl", "wrapping_shr", "count_ones", "count_zeros", "is_power_of_two", "abs_diff", "div_ceil",
    "saturating_sub", "saturating_add", "checked_sub", "checked_add", "checked_mul", "then_some", "as_ptr_range", "as_mut_ptr_range",
    "addr", "offset_from_unsigned", "slice_from_raw_parts", "slice_from_raw_parts_mut", "cast_signed", "cast_unsigned", "is_none_or", "is_some_and",
}
PURE_PREFIX = ("core::", "std::", "alloc::")
# never pure whatever the name: they write through their first argument
IMPURE_NAMES = {"write", "copy_nonoverlapping", "copy_from_slice", "push", "extend", "extend_from_slice", "insert", "update", "write_all",
                "read_exact", "flush", "write_str", "write_fmt", "write_char", "swap", "fill", "clear", "truncate", "try_push", "try_extend",
                "pop", "try_take_n", "finalize", "push_str"}


def inline_local(target_fn, ev):
    return target_fn.crate in LOCAL_CRATES


HOF_NAMES = {"map", "all", "any", "position", "unwrap_or_else", "map_err", "and_then", "for_each", "try_for_each", "filter", "find", "fold",
             "ok_or_else", "map_or", "map_or_else", "or_else", "then", "filter_map", "flat_map", "take_while", "skip_while", "rposition"}
_FACTS = [None]


class _E:
    models = sym.MODELS
    syn = sym.SYN_MODELS


def _closure_args_pure(e):
    F = _FACTS[0]
    for a in e["args"]:
        canon = None
        if isinstance(a, tuple) and a:
            if a[0] == "agg" and a[1] == "closure":
                canon = a[2]
            elif a[0] == "closure":
                canon = a[1]
            elif a[0] == "fn":
                continue
        if canon is None:
            continue
        f = F.fn_by_canon(canon) if F is not None else None
        if f is None or sym._has_effects(_E, f, F):
            return False
    return True


def inline_glue(target_fn, ev):
    """inline everything local except the integer helpers that BIT verifies on their own"""
    import vint
    return target_fn.crate in LOCAL_CRATES and not vint.is_helper(target_fn)


def is_pure_event(e):
    c = e.get("callee")
    if c is None:
        return False
    nm = c["name"]
    if nm in IMPURE_NAMES and not (nm == "finalize" and (c.get("def") or "").startswith("crc::")):
        return False
    if nm in HOF_NAMES and not _closure_args_pure(e):
        return False
    d = c.get("def") or ""
    tr = c.get("trait") or ""
    _val = ("heapless::", "cobs::")
    if not e["args"] and nm in ("new", "default") and (d.startswith(_val) or (c.get("self_ty") or "").startswith(_val) or
                                                       ((c.get("args") or [""])[0] or "").startswith(_val)):
        return True          # an empty fixed-capacity container / a fresh encoder state: a value, not an effect
    if nm in PURE_NAMES and (d.startswith(PURE_PREFIX) or tr.startswith(PURE_PREFIX)):
        # trait methods of core traits on *local or generic* types (Deref on a user type, Iterator::next on an unknown iterator) are not
        # known to be pure; core traits on core types are
        st = c.get("self_ty") or c.get("impl_self") or ""
        if tr and not (st.startswith(("&", "[", "*", "core::", "std::", "alloc::", "u", "i", "bool", "char", "str", "f32", "f64", "(")) or st in sym.INT_BITS):
            return False
        return True
    if d.startswith(("crc::", "cobs::")) and nm in ("digest", "digest_with_initial", "max_encoding_length", "new"):
        return True
    if d.startswith("crc::") and nm == "finalize":
        return True          # Digest::finalize(self) computes the checksum value; it has no effect
    return False


# trusted-base equivalences between two external entry points (documented contract of the crate, stated here once):
#   cobs::decode_in_place(buf) == cobs::decode_in_place_report(buf).map(|r| r.dst_used)      (cobs 0.2.x: both expand the same decoder)
EFFECT_ALIAS = {"cobs::decode_in_place": ("cobs::decode_in_place_report", ".dst_used")}


def _effect_alias(name):
    return EFFECT_ALIAS.get(name, (name, ""))[0]


def _memcpy_text(ct, e):
    """`from_raw_parts_mut(p, n).copy_from_slice(src)` with n = src.len() (so the length check of copy_from_slice cannot fail) is
    `ptr::copy_nonoverlapping(src.as_ptr(), p, n)`: std implements the former by the latter.  Printed in the latter form."""
    if not (e.get("key") or "").endswith("::copy_from_slice") or len(e["args"]) != 2:
        return None
    d, s_ = e["args"]
    if not (d[0] == "ref" and d[1][0] == "P" and s_[0] == "ref" and s_[1][0] == "P"):
        return None
    fr = sym._frp(d[1][1])
    if fr is None or fr[1] != ("len", s_[1][1]):
        return None
    return "std::ptr::copy_nonoverlapping(as_ptr(%s), %s, %s)" % (ct.t(norm(s_[1][1])), ct.t(norm(fr[0])), ct.t(norm(fr[1])))


def _arrconv(e):
    """(element type, N, converts to a reference?) when the call is a slice -> array conversion of core (TryFrom/TryInto)"""
    c = (e or {}).get("callee") or {}
    nm, tr = c.get("name"), c.get("trait") or ""
    a = list(c.get("args") or [])
    if nm == "try_into" and tr.endswith("TryInto") and len(a) >= 2:
        src, dst = c.get("self_ty") or a[0], a[1]
    elif nm == "try_from" and tr.endswith("TryFrom") and len(a) >= 2:
        dst, src = c.get("self_ty") or a[0], a[1]
    else:
        return None
    ms = re.match(r"^&(?:'\w+ )?(?:mut )?\[(\w+)\]$", src or "")
    md = re.match(r"^(&(?:'\w+ )?)?\[(\w+); (\w+)\]$", dst or "")
    if not ms or not md or ms.group(1) != md.group(2):
        return None
    return ms.group(1), md.group(3), bool(md.group(1))


def _alias(nm):
    """accessors that denote the same value"""
    return {"as_mut_ptr": "as_ptr"}.get(nm, nm)


class NeedSplit(Exception):
    def __init__(self, atom):
        self.atom = atom


# ---- canonical terms --------------------------------------------------------------------------------------------------------------

class CT:
    """canonical printer of terms for one (path, extra tag facts)"""

    def __init__(self, F, path, fn, extra=None, renames=None):
        self.ren = renames or {}
        self.F = F
        self.path = path
        self.fn = fn
        self.extra = extra or {}
        self.ids = {}
        self.pure = {}
        self.vars = {}
        n = 0
        for e in path.events:
            if e["k"] == "call" and not e.get("modelled") and not e.get("inlined"):
                if is_pure_event(e):
                    self.pure[e["id"]] = e
                else:
                    n += 1
                    self.ids[e["id"]] = n
        self.self_name = fn.locals[1].get("name") == "self" if fn.argc >= 1 else False
        self._facts = None

    # -- tag facts (from the engine's forks and from our own case splits)
    def tagfact(self, x):
        if self._facts is None:
            self._facts = {}
            for a, v in self.path.tagfacts.items():
                if isinstance(a, tuple) and a and a[0] == "tag":
                    self._facts[repr(norm(a[1]))] = v
        x = repr(norm(x))
        if x in self.extra:
            return self.extra[x][1]
        return self._facts.get(x)

    def condfact(self, c):
        c = norm(c)
        v = self.extra.get(repr(("cond", c)))
        if v is not None:
            return bool(v[1])
        for pc, truth, kind in self.path.pc:
            if isinstance(truth, bool) and norm(pc) == c:
                return truth
        return None

    def tag_is(self, x, want):
        """True/False/None: is the variant index of opaque x equal to `want`"""
        f = self.tagfact(x)
        if f is None:
            return None
        if isinstance(f, int):
            return f == want
        if want in f[1]:
            return False
        return None

    # -- Result / Option normal form
    def rform(self, t):
        """-> ('agg', ...) Ok/Err/Some/None constructor form of a Result/Option-valued term, splitting on undecided opaque tags"""
        k = t[0]
        if k == "agg":
            return t
        if k == "try":
            return self.rform(t[1])
        if k == "map_err":
            inner = self.rform(t[1])
            if inner[3] == "Ok":
                return inner
            return _mk_variant("core::result::Result", "Err", 1, self.apply_closure(t[2], inner[5][0]))
        if k == "map_ok":
            inner = self.rform(t[1])
            if inner[3] == "Err":
                return inner
            return _mk_variant("core::result::Result", "Ok", 0, self.subst_ok(t[2], t[1], inner[5][0]))
        if k == "ok_or":
            inner = self.oform(t[1])
            if inner[3] == "Some":
                return _mk_variant("core::result::Result", "Ok", 0, inner[5][0])
            return _mk_variant("core::result::Result", "Err", 1, t[2])
        if k == "err_from":
            inner = self.rform(t[1]) if t[1][0] != "unwrapped_residual" else None
            if inner is None or inner[3] != "Err":
                return _mk_variant("core::result::Result", "Err", 1, ("from", ("errval", t[1])))
            return _mk_variant("core::result::Result", "Err", 1, ("from", inner[5][0]))
        # opaque
        is_ok = self.tag_is(t, 0)
        is_err = self.tag_is(t, 1)
        if is_ok:
            return _mk_variant("core::result::Result", "Ok", 0, ("okval", t))
        if is_err:
            return _mk_variant("core::result::Result", "Err", 1, ("errval", t))
        raise NeedSplit(norm(t))

    def oform(self, t):
        k = t[0]
        if k == "agg":
            return t
        if k == "optif":
            v = self.condfact(t[1])
            if v is None:
                raise NeedSplit(("cond", norm(t[1])))
            if v:
                return _mk_variant("core::option::Option", "Some", 1, t[2])
            return ("agg", "adt", "core::option::Option", "None", (), (), 0)
        is_none = self.tag_is(t, 0)
        is_some = self.tag_is(t, 1)
        if is_some:
            return _mk_variant("core::option::Option", "Some", 1, ("someval", t))
        if is_none:
            return ("agg", "adt", "core::option::Option", "None", (), (), 0)
        raise NeedSplit(norm(t))

    def subst_ok(self, body, r, okv):
        """map_ok bodies are expressed over okval(r); substitute the resolved payload"""
        target = sym.ok_payload(r)
        if target == okv:
            return body

        def go(x):
            if not isinstance(x, tuple) or not x:
                return x
            if x == target:
                return okv
            return tuple(go(y) if isinstance(y, tuple) else y for y in x)
        return go(body)

    def apply_closure(self, clo, arg):
        c = tbl.closure_const(self.F, clo)
        if c is not None:
            return c
        canon = clo[2] if clo[0] == "agg" and clo[1] == "closure" else (clo[1] if clo[0] == "closure" else None)
        f = self.F.fn_by_canon(canon) if canon else None
        if f is not None and f.argc == 2:
            sub = sym.Engine(self.F, inline=inline_local, max_visits=2, max_steps=800)
            ps = [p for p in sub.run(f, [clo, arg]) if p.status == "return"]
            if len(ps) == 1 and not [e for e in ps[0].events if e["k"] == "call" and not e.get("modelled") and not e.get("inlined") and not is_pure_event(e)]:
                return ps[0].ret
        return ("closure_result", clo, arg)

    def resolve(self, t, top_ty=None, depth=0):
        """rewrite every lazy Result/Option combinator inside t into constructor form"""
        if not isinstance(t, tuple) or not t or depth > 20:
            return t
        k = t[0]
        if k in ("map_err", "map_ok", "ok_or", "err_from"):
            r = self.rform(t)
            return r[:5] + (tuple(self.resolve(x, None, depth + 1) for x in r[5]),) + r[6:]
        if k == "optif":
            r = self.oform(t)
            return r[:5] + (tuple(self.resolve(x, None, depth + 1) for x in r[5]),) + r[6:]
        if k == "closure_result":
            return self.resolve(self.apply_closure(t[1], self.resolve(t[2], None, depth + 1)), None, depth + 1)
        if k in ("okval", "errval", "someval"):
            inner = t[1]
            if inner[0] in ("map_err", "map_ok", "ok_or", "err_from", "agg"):
                pay = {"okval": sym.ok_payload, "errval": sym.err_payload, "someval": sym.some_payload}[k](inner)
                if pay != t:
                    return self.resolve(pay, None, depth + 1)
        if k == "from":
            return ("from", self.resolve(t[1], None, depth + 1))
        if k in ("c", "param", "str", "bytes", "fn", "unit"):
            return t
        if top_ty and k in ("call", "okval", "someval", "getf", "init", "param") or (top_ty and k == "try"):
            if re.match(r"^(core|std)::result::Result<", top_ty):
                r = self.rform(t)
                return r[:5] + (tuple(self.resolve(x, None, depth + 1) for x in r[5]),) + r[6:]
            if re.match(r"^(core|std)::option::Option<", top_ty):
                r = self.oform(t)
                return r[:5] + (tuple(self.resolve(x, None, depth + 1) for x in r[5]),) + r[6:]
        return tuple(self.resolve(x, None, depth + 1) if isinstance(x, tuple) else x for x in t)

    # -- locations
    def loc(self, l):
        k = l[0]
        if k == "L":
            return "_local"
        if k == "P":
            return "*" + self.t(l[1])
        if k == "F":
            b = self.loc(l[1])
            if self.self_name and b.startswith("*self"):
                b = b[1:]
            return b + "." + self.ren.get(l[2], l[2])
        if k == "D":
            return "(%s as %s)" % (self.loc(l[1]), l[2])
        if k == "I":
            return "%s[%s]" % (self.loc(l[1]), self.t(l[2]))
        if k == "S":
            if l[1][0] == "A1":
                return "[%s]" % self.loc(l[1][1])        # one-element view of a place
            return "%s[%s..%s]" % (self.loc(l[1]), self.t(l[2]), self.t(l[3]))
        if k == "A1":
            return self.loc(l[1])
        return repr(l)

    # -- terms
    def t(self, x, depth=0):
        if not isinstance(x, tuple) or not x:
            return repr(x)
        if depth > 16:
            return "…"
        r = lambda y: self.t(y, depth + 1)
        k = x[0]
        if k == "c":
            if x[2] == "bool":
                return "true" if x[1] else "false"
            return str(sym.sval(x) if sym.is_signed(x[2]) else x[1])
        if k == "param":
            if x[1] == 1 and self.self_name:
                return "self"
            return "arg%d" % x[1]
        if k == "unit":
            return "()"
        if k == "str":
            return repr(x[1])
        if k == "bin":
            op = x[1]
            if op in ("Add", "Sub") or (op == "Mul" and (is_c(x[2]) or is_c(x[3]))):
                s = self.linear(x, depth)
                if s is not None:
                    return s
            if op in sym.CMP:
                return self.cmp_text(x, depth)
            a, b = r(x[2]), r(x[3])
            if op in ("BitAnd", "BitOr", "BitXor", "Mul") and b < a:
                a, b = b, a
            return "%s(%s, %s)" % (op, a, b)
        if k == "un":
            return "%s(%s)" % (x[1], r(x[2]))
        if k == "cast":
            if x[1] in ("PointerExposeProvenance", "PtrToPtr"):
                return r(x[2])
            if x[1] == "IntToInt":
                fb, tb = sym.INT_BITS.get(x[3]), sym.INT_BITS.get(x[4])
                if fb and tb and tb >= fb and not sym.is_signed(x[3]):
                    return r(x[2])          # zero-extension keeps the value
            return "(%s as %s)" % (r(x[2]), x[4])
        if k == "ref":
            l = x[1]
            if l[0] == "P":
                return r(l[1])
            if l[0] == "S" and l[1][0] == "P":
                # a sub-slice of an opaque slice value
                return "%s[%s..%s]" % (r(l[1][1]), r(l[2]), r(l[3]))
            if l[0] == "I" and l[1][0] == "P":
                return "&%s[%s]" % (r(l[1][1]), r(l[2]))
            if l[0] == "S":
                return self.loc(l)          # a slice is always a reference
            return "&" + self.loc(l)
        if k == "and":
            a, b = r(x[1]), r(x[2])
            if b < a:
                a, b = b, a
            return "(%s && %s)" % (a, b)
        if k == "b2i":
            return r(x[1])
        if k == "init":
            l = x[1]
            if l[0] == "P":
                s = r(l[1])
                if l[1][0] == "okval" and l[1][1][0] == "call":
                    ac = _arrconv(self.pure.get(l[1][1][1]))
                    if ac is not None and ac[2]:
                        return s          # the array behind the `&[T; N]` a slice converts to: printed like the by-value conversion
                return "*" + s
            return self.loc(l)
        if k == "getf":
            return "%s.%s" % (r(x[1]), self.ren.get(x[2], x[2]))
        if k == "agg":
            if x[1] == "adt":
                if (x[2] or "") == "core::iter::adapters::copied::Copied" and len(x[5]) == 1:
                    return "copied(%s)" % r(x[5][0])          # the engine's value form of `iter.copied()`: printed as the call it stands for
                nm = (x[2] or "").split("::")[-1]
                if x[3] and x[3] != nm:
                    nm += "::" + x[3]
                names = [self.ren.get(f, f) for f in (x[4] or ())]
                if names and any(not f.isdigit() for f in names):
                    return "%s{%s}" % (nm, ", ".join("%s: %s" % (f, r(v)) for f, v in sorted(zip(names, x[5]), key=lambda fv: fv[0])))
                return "%s(%s)" % (nm, ", ".join(r(v) for v in x[5])) if x[5] else nm
            if x[1] == "array":
                return "[%s]" % ", ".join(r(v) for v in x[5])
            if x[1] == "tuple":
                return "(%s)" % ", ".join(r(v) for v in x[5])
            if x[1] == "closure":
                return "closure<%s>(%s)" % (self.closure_text(x[2]), ", ".join(r(v) for v in x[5]))
            return "%s{%s}" % (x[1], ", ".join(r(v) for v in x[5]))
        if k == "closure":
            return "closure<%s>()" % self.closure_text(x[1])
        if k == "call":
            n = self.ids.get(x[1])
            if n is not None:
                return "#%d" % n
            e = self.pure.get(x[1])
            if e is not None:
                if (x[2] == e["key"] and len(x[3]) == len(e["args"]) and tuple(norm(a) for a in x[3]) != tuple(norm(a) for a in e["args"])):
                    # a term derived from this call with other arguments (e.g. a sub-slice of from_raw_parts(p, n)): print the term's own
                    return "%s(%s)" % (_alias(short(x[2]).rsplit("::", 1)[-1]), ", ".join(r(a) for a in x[3]))
                return self.pure_text(e, depth)
            return "%s(%s)" % (_alias(short(x[2]).rsplit("::", 1)[-1]), ", ".join(r(a) for a in x[3]))
        if k == "havoc":
            n = self.ids.get(x[1])
            if n is None:
                # written by a pure call: nothing was written
                return self.loc(x[2])
            if sym._root_kind(x[2]) == "L":
                return "after#%s(~)" % n      # which local slot held the value is not behaviour
            return "after#%s(%s)" % (n, self.loc(x[2]))
        if k == "from":
            return r(x[1])      # From<T> for T / error conversions between equal types: C-rules that care check the variant
        if k == "okval" and x[1][0] == "call" and re.match(r"^(core|std)::result::Result<\(\), ", x[1][4] or ""):
            return "()"         # the only value of the unit type
        if k == "okval" and x[1][0] == "call" and (x[1][2] or "") in EFFECT_ALIAS:
            return "okval(%s)%s" % (r(x[1]), EFFECT_ALIAS[x[1][2]][1])
        if k in ("okval", "errval", "someval", "try", "residual", "tag", "tagflip", "to_bits", "from_bits"):
            return "%s(%s)" % (k, r(x[1]))
        if k == "len":
            return "len(%s)" % r(x[1])
        if k == "from_bytes":
            return "from_%s_bytes::<%s>(%s)" % (x[1], x[2], r(x[3]))
        if k == "fn":
            # a private function of the analysed crates used as a value (`position(is_sentinel)`) is what it does, like a closure without
            # captures; public and foreign functions keep their names
            d = x[2] if len(x) > 2 and isinstance(x[2], dict) else {}
            f = self.F.fn_by_canon(d.get("canon") or "") if d.get("krate") in LOCAL_CRATES else None
            if f is not None and f.j.get("vis") != "Public" and not f.impl_trait and f.argc <= 2 and len(f.blocks or []) <= 12:
                # (a closure's first parameter is its environment: number the function's parameters as a closure's would be)
                return "closure<%s>()" % re.sub(r"\barg(\d+)\b", lambda m: "arg%d" % (int(m.group(1)) + 1), self.closure_text(f.canon))
            return "fn " + x[1]
        if k == "pref":
            return "&const " + r(x[1])
        if k == "slice":
            return self.loc(x[1])
        if k == "tyconst":
            return "const<%s>" % str(x[1]).split("/")[0]
        if k == "repeat":
            return "[%s; %s]" % (r(x[1]), str(x[2]).split("/")[0])
        return "%s(%s)" % (k, ", ".join(r(y) if isinstance(y, tuple) else repr(y) for y in x[1:]))

    def closure_text(self, canon):
        """closures are identified by what they do (their own summary), never by position or index"""
        f = self.F.fn_by_canon(canon)
        if f is None:
            return "?"
        try:
            s = summarize(self.F, f, _nested=True, renames=self.ren)
            return " | ".join(sorted(o["text"] for o in s["outcomes"]))[:400]
        except Exception as ex:  # a closure we cannot summarise is named by its arity only
            return "closure/%d" % f.argc

    def pure_text(self, e, depth):
        c = e["callee"]
        nm = c["name"]
        args = [self.t(norm(a), depth + 1) if not (isinstance(a, tuple) and a and a[0] == "ref" and sym._root_kind(a[1]) == "L" and sn is not None)
                else "&{" + self.t(norm(sn), depth + 1) + "}" for a, sn in zip(e["args"], e["snap"])]
        if nm in ("add", "offset") and len(args) == 2:
            s = self.linear(("call", e["id"], e["key"], tuple(e["args"]), e["result"][4] if e.get("result") else ""), depth)
            if s is not None:
                return s
        if nm in ("index", "index_mut") and len(e["args"]) == 2:
            rg = norm(e["args"][1])
            if rg[0] == "agg" and rg[1] == "adt" and (rg[2] or "").startswith(("core::ops::range::", "std::ops::")):
                f_ = dict(zip(rg[4], rg[5]))
                base = args[0][1:] if args[0].startswith("&") and not args[0].startswith("&{") else args[0]
                lo = self.t(f_["start"], depth + 1) if "start" in f_ else "0"
                kind = (rg[2] or "").split("::")[-1]
                if kind in ("Range", "RangeTo", "RangeFrom", "RangeFull"):
                    hi = self.t(f_["end"], depth + 1) if "end" in f_ else "len(%s)" % base
                    return "%s[%s..%s]" % (base, lo, hi)
        if nm in ("wrapping_mul", "wrapping_add", "min", "max", "saturating_add", "saturating_mul") and len(args) == 2:
            args = sorted(args)
        if nm == "as_mut_ptr":
            nm = "as_ptr"           # same address; mutability of the pointer is a type-level matter
        if nm in ("slice_from_raw_parts", "slice_from_raw_parts_mut") and (c.get("def") or "").startswith(("core::ptr", "std::ptr")):
            nm = nm[len("slice_"):]          # the raw slice pointer `&*`/`&mut *` turns into the slice `from_raw_parts(_mut)` builds
        if nm == "default" and (c.get("trait") or "").endswith("default::Default") and not args:
            # `Default::default()` of a std / heapless collection is its `new()`
            st = re.sub(r"<.*$", "", c.get("self_ty") or (c.get("args") or [""])[0] or "")
            if re.match(r"^(std|alloc|heapless)::(.*::)?(Vec|String|VecDeque|HashSet|HashMap|BTreeMap|BTreeSet)$", st):
                return "%s%s::new()" % ("heapless::" if st.startswith("heapless::") else "", st.split("::")[-1])
        if nm == "new" and not c.get("trait") and not args and (c.get("def") or "").startswith("heapless::"):
            segs = [x for x in re.sub(r"<[^<>]*>", "", re.sub(r"<[^<>]*>", "", c.get("def") or "")).split("::") if x]
            return "heapless::%s::new()" % (segs[-2] if len(segs) >= 2 else "Vec")
        if nm in ("new", "default", "with_capacity") and not c.get("trait"):
            segs = re.sub(r"<[^<>]*>", "", re.sub(r"<[^<>]*>", "", c.get("def") or nm)).split("::")
            segs = [x for x in segs if x]
            return "%s(%s)" % ("::".join(segs[-2:]), ", ".join(args))
        ac = _arrconv(e)
        if ac is not None and len(args) == 1:
            # `<[T; N]>::try_from(&[T])`, `<&[T; N]>::try_from(&[T])` and the `try_into` spellings: Ok iff the length is N, the array is the
            # slice's N elements (by value or in place); one canonical spelling, the value form's
            return "try_into::<&[%s],&[%s],[%s; %s]>(%s)" % (ac[0], ac[0], ac[0], ac[1], args[0])
        ty = ""
        if nm in ("from", "into", "try_from", "try_into", "size_of", "default", "new", "cast"):
            ty = "::<%s>" % ",".join([c.get("self_ty") or ""] + list(c.get("args") or []))[:80]
        return "%s%s(%s)" % (nm, ty, ", ".join(args))

    def linear(self, x, depth):
        try:
            co, c = lin.linearize(norm(x))
        except Exception:
            return None
        parts = []
        for a, v in co.items():
            parts.append((self.atom_text(a, depth), v))
        parts.sort()
        out = []
        for s, v in parts:
            if v == 1:
                out.append("+ " + s)
            elif v == -1:
                out.append("- " + s)
            else:
                out.append("%s %s*%s" % ("+" if v > 0 else "-", abs(v), s))
        if c != 0 or not out:
            out.append("%s %s" % ("+" if c >= 0 else "-", abs(c)))
        if len(out) == 1 and out[0].startswith("+ ") and "*" not in out[0].split(" ")[1][:3]:
            return out[0][2:]
        s = " ".join(out)
        return "(" + (s[2:] if s.startswith("+ ") else s) + ")"

    def atom_text(self, a, depth):
        if isinstance(a, tuple) and a and a[0] == "pure":
            return "%s(%s)" % (a[1], ", ".join(self.atom_text(y, depth + 1) for y in a[2]))
        return self.t(a, depth + 1)

    def cmp_text(self, x, depth):
        lit = literal_of(self, x, True)
        if lit is None:
            return "%s(%s, %s)" % (x[1], self.t(x[2], depth + 1), self.t(x[3], depth + 1))
        return lit_text(lit)


def short(k):
    return k or "<indirect>"


def _mk_variant(adt, variant, idx, payload):
    return ("agg", "adt", adt, variant, ("0",), (payload,), idx)


# ---- literals ----------------------------------------------------------------------------------------------------------------------

INF = None


def _norm_intervals(iv):
    """sorted, merged list of inclusive integer intervals; None = unbounded"""
    iv = [(lo, hi) for lo, hi in iv if lo is None or hi is None or lo <= hi]
    iv.sort(key=lambda p: (-math.inf if p[0] is None else p[0]))
    out = []
    for lo, hi in iv:
        if out:
            plo, phi = out[-1]
            if phi is None or (lo is not None and lo <= phi + 1) or lo is None:
                nhi = None if (phi is None or hi is None) else max(phi, hi)
                out[-1] = (plo, nhi)
                continue
        out.append((lo, hi))
    return tuple(out)


def _complement(iv):
    out = []
    cur = None  # lower bound of the next gap (None = -inf)
    first = True
    for lo, hi in iv:
        if lo is not None:
            out.append((cur if not first else None, lo - 1) if first else (cur, lo - 1))
        first = False
        if hi is None:
            return _norm_intervals(out)
        cur = hi + 1
    out.append((None, None) if first else (cur, None))
    return _norm_intervals(out)


def _intersect(a, b):
    out = []
    for lo1, hi1 in a:
        for lo2, hi2 in b:
            lo = lo2 if lo1 is None else (lo1 if lo2 is None else max(lo1, lo2))
            hi = hi2 if hi1 is None else (hi1 if hi2 is None else min(hi1, hi2))
            out.append((lo, hi))
    return _norm_intervals(out)


def literal_of(ct, cond, truth):
    """-> ('tag'|'lin', var text, allowed) or None for a trivially true literal; `truth` is bool, int or ('not', values)"""
    flip = False
    c = cond
    while isinstance(c, tuple) and ((c[0] == "un" and c[1] == "Not") or c[0] in ("tagflip", "b2i")):
        if c[0] == "b2i":
            c = c[1]
            continue
        flip = not flip
        c = c[2] if c[0] == "un" else c[1]
    if c[0] == "tag":
        var = "tag(%s)" % ct.t(norm(c[1]))
        _tag_domain(ct, var, c[1])
        if isinstance(truth, tuple):
            # the engine records the excluded set in the variable's own numbering (already un-flipped)
            return ("tag", var, ("not", tuple(sorted(truth[1]))))
        v = int(truth)
        if flip:
            v = 1 - v
        return ("tag", var, ("in", (v,)))
    if c[0] in ("bin", "and") and (c[0] == "and" or c[1] in sym.CMP) and not isinstance(truth, bool):
        # a boolean switched on as an integer (0/1)
        if isinstance(truth, tuple):
            rest = {0, 1} - set(truth[1])
            if len(rest) != 1:
                return None if rest else ("tag", "false", ("in", (1,)))
            truth = bool(rest.pop())
        else:
            truth = bool(truth)
    if c[0] == "bin" and c[1] in sym.CMP and isinstance(truth, bool):
        t = truth != flip
        op = c[1]
        if not t:
            op = {"Lt": "Ge", "Le": "Gt", "Gt": "Le", "Ge": "Lt", "Eq": "Ne", "Ne": "Eq"}[op]
        return _lin_literal(ct, c[2], c[3], op)
    # integer- or bool-valued opaque term compared with constants by a switch
    if isinstance(truth, bool):
        t = truth != flip
        ty = term_ty(c) if isinstance(c, tuple) else None
        if ty == "bool" or ty is None:
            return ("tag", "bool(%s)" % ct.t(norm(c)), ("in", (1 if t else 0,)))
        return _lin_literal(ct, c, sym.C(0, ty), "Ne" if t else "Eq")
    if isinstance(truth, tuple):
        ty = term_ty(c) or "usize"
        lits = None
        iv = ((None, None),)
        for v in truth[1]:
            l = _lin_literal(ct, c, sym.C(v, ty), "Ne")
            if l is None:
                continue
            iv = _intersect(iv, l[2])
            lits = l
        return (lits[0], lits[1], iv) if lits else None
    ty = term_ty(c) or "usize"
    return _lin_literal(ct, c, sym.C(int(truth), ty), "Eq")


def cond_dnf(ct, cond, truth):
    """a branch condition with its outcome as a small DNF: list of alternative conjunctions (lists of literals)"""
    flip = False
    c = cond
    while isinstance(c, tuple) and c and ((c[0] == "un" and c[1] == "Not") or c[0] == "b2i"):
        if c[0] == "un":
            flip = not flip
            c = c[2]
        else:
            c = c[1]
    if isinstance(c, tuple) and c and c[0] == "and" and isinstance(truth, tuple):
        rest = {0, 1} - set(truth[1])
        if len(rest) == 1:
            truth = bool(rest.pop())
    if isinstance(c, tuple) and c and c[0] == "and" and isinstance(truth, (bool, int)) and not isinstance(truth, tuple):
        t = bool(truth) != flip
        A = cond_dnf(ct, c[1], True)
        B = cond_dnf(ct, c[2], True)
        if t:
            return [a + b for a in A for b in B]
        nA = cond_dnf(ct, c[1], False)
        nB = cond_dnf(ct, c[2], False)
        return nA + [a + b for a in A for b in nB]
    if isinstance(c, tuple) and c and c[0] == "bin" and c[1] in sym.CMP and isinstance(truth, int) and not isinstance(truth, bool):
        truth = bool(truth)
    l = literal_of(ct, cond if not flip else c, truth if not flip or not isinstance(truth, bool) else (not truth)) if False else literal_of(ct, cond, truth if not (isinstance(truth, int) and not isinstance(truth, bool) and isinstance(c, tuple) and c[0] == "bin" and c[1] in sym.CMP) else bool(truth))
    return [[l]] if l is not None else [[]]


KNOWN_ENUMS = {"cobs::PushResult": 3, "cobs::enc::PushResult": 3}


def _tag_domain(ct, var, x):
    """Result and Option have exactly the variant indices 0 and 1"""
    try:
        ty = term_ty(x) if x[0] != "param" else x[2]
    except Exception:
        ty = None
    if x[0] == "call":
        ty = x[4]
    if isinstance(ty, str) and re.match(r"^(core|std)::(result::Result|option::Option)<", ty):
        ct.vars[var] = {"dom": [0, 1]}
    elif isinstance(ty, str):
        n = KNOWN_ENUMS.get(ty.split("<")[0])
        if n is None:
            for cr in getattr(ct.F, "crates", {}).values() if isinstance(getattr(ct.F, "crates", None), dict) else []:
                adt = cr.adts.get(cr.name + "::" + ty.split("<")[0]) if hasattr(cr, "adts") else None
                if adt and adt.get("kind") == "Enum":
                    n = len(adt["variants"])
        if n:
            ct.vars[var] = {"dom": list(range(n))}


def _lin_literal(ct, a, b, op):
    try:
        la, ca = lin.linearize(norm(a))
        lb, cb = lin.linearize(norm(b))
    except Exception:
        return ("tag", "bool(%s(%s, %s))" % (op, ct.t(norm(a)), ct.t(norm(b))), ("in", (1,)))
    co = dict(la)
    for x, v in lb.items():
        co[x] = co.get(x, 0) - v
    co = {x: v for x, v in co.items() if v != 0}
    c = ca - cb
    if not co:
        val = {"Lt": c < 0, "Le": c <= 0, "Gt": c > 0, "Ge": c >= 0, "Eq": c == 0, "Ne": c != 0}[op]
        return None if val else ("tag", "false", ("in", (1,)))
    named = sorted(((ct.atom_text(x, 0), v, x) for x, v in co.items()), key=lambda p: p[0])
    g = 0
    for _, v, _ in named:
        v = Fraction(v)
        g = v if g == 0 else Fraction(math.gcd(g.numerator * v.denominator, v.numerator * g.denominator), g.denominator * v.denominator)
    g = abs(g)
    sign = 1 if named[0][1] > 0 else -1
    s = g * sign
    parts = []
    for nm, v, _ in named:
        k = Fraction(v) / s
        parts.append(("%s" % nm) if k == 1 else ("- %s" % nm if k == -1 else "%s*%s" % (k, nm)))
    var = " + ".join(parts).replace("+ - ", "- ")
    # s*V + c op 0   <=>   V op' -c/s
    if sign < 0:
        op = {"Lt": "Gt", "Le": "Ge", "Gt": "Lt", "Ge": "Le", "Eq": "Eq", "Ne": "Ne"}[op]
    q = Fraction(-c) / g if sign > 0 else Fraction(c) / g      # V op q
    fl, ce = math.floor(q), math.ceil(q)
    if op == "Le":
        iv = ((None, fl),)
    elif op == "Lt":
        iv = ((None, ce - 1),)
    elif op == "Ge":
        iv = ((ce, None),)
    elif op == "Gt":
        iv = ((fl + 1, None),)
    elif op == "Eq":
        iv = ((fl, fl),) if fl == q else ()
    else:
        iv = _complement(((fl, fl),)) if fl == q else ((None, None),)
    # domain: a single unsigned atom cannot be negative
    if len(named) == 1 and Fraction(named[0][1]) / s == 1 and _unsigned_atom(named[0][2]):
        iv = _intersect(iv, ((0, None),))
        if iv == ((0, None),):
            return None
    iv = _norm_intervals(iv)
    if iv == ((None, None),):
        return None
    ct.vars[var] = [[nm, str(Fraction(v) / s), bool(_unsigned_atom(x))] for nm, v, x in named]
    return ("lin", var, iv)


def _unsigned_atom(a):
    if isinstance(a, tuple) and a and a[0] == "pure":
        return a[1] == "len"
    try:
        ty = term_ty(a)
    except Exception:
        ty = None
    if ty is None and isinstance(a, tuple) and a and a[0] in ("len",):
        return True
    return ty in ("u8", "u16", "u32", "u64", "u128", "usize")


def lit_text(l):
    k, var, allowed = l
    if k == "tag":
        return "%s %s %s" % (var, "in" if allowed[0] == "in" else "not in", list(allowed[1]))
    return "%s in %s" % (var, " u ".join("[%s,%s]" % ("-inf" if lo is None else lo, "+inf" if hi is None else hi) for lo, hi in allowed) or "{}")


# ---- outcomes ---------------------------------------------------------------------------------------------------------------------

def _arg_text(ct, a, snap):
    if isinstance(a, tuple) and a and a[0] == "ref" and sym._root_kind(a[1]) == "L" and snap is not None:
        if a[1][0] == "S" and snap[0] == "slice":
            return ct.t(norm(a))
        return "&{" + ct.t(norm(ct.resolve(snap))) + "}"
    return ct.t(norm(ct.resolve(a)))


def _path_outcome(F, fn, p, extra, hide_calls=(), renames=None):
    ct = CT(F, p, fn, extra, renames)
    lits = []
    alts_all = []
    for c, truth, kind in p.pc:
        if kind == "assert":
            continue
        alts = cond_dnf(ct, norm(c), truth)
        if len(alts) == 1:
            lits += alts[0]
        else:
            alts_all.append(alts)
    for atom, v in extra.values():
        if isinstance(atom, tuple) and atom and atom[0] == "cond":
            alts = cond_dnf(ct, atom[1], bool(v))
            if len(alts) != 1:
                raise RuntimeError("case split on a compound condition")
            lits += alts[0]
        else:
            lits.append(("tag", "tag(%s)" % ct.t(atom), ("in", (v,))))
            ct.vars["tag(%s)" % ct.t(atom)] = {"dom": [0, 1]}
    evs = []
    seg = {}          # writes since the last effect: loc text -> value text (last one wins)

    def flush():
        for k in sorted(seg):
            if seg[k] != k and seg[k] != "*" + k:      # writing back the value a place already holds is no effect
                evs.append("%s := %s" % (k, seg[k]))
        seg.clear()
    for e in p.events:
        if e["k"] == "call" and not e.get("modelled") and not e.get("inlined"):
            if e["id"] in ct.pure:
                continue
            if any((e["key"] or "").endswith(h) for h in hide_calls):
                continue
            flush()
            import summ
            evs.append("#%d = %s" % (ct.ids[e["id"]], _memcpy_text(ct, e) or
                                     "%s(%s)" % (_effect_alias(summ.call_name(e)), ", ".join(_arg_text(ct, a, sn) for a, sn in zip(e["args"], e["snap"])))))
        elif e["k"] == "write":
            seg[ct.loc(e["loc"])] = ct.t(norm(ct.resolve(e["val"])))
        elif e["k"] == "rawderef":
            pass        # reading through a raw pointer is not an effect; writes through one are `write` events
        elif e["k"] == "intrinsic":
            flush()
            evs.append("%s(%s)" % (e["name"], ", ".join(ct.t(norm(a)) for a in e["args"])))
    flush()
    ret = None
    if p.ret is not None:
        ret = ct.t(norm(ct.resolve(p.ret, top_ty=fn.locals[0]["ty"])))
    text = "%s => %s%s" % ("; ".join(evs) or "-", ret, "" if p.status == "return" else " [%s]" % p.status)
    if p.status == "cut":
        # exploration stopped at the loop bound: what was seen up to there depends on where the bound falls in the code, not on behaviour;
        # the complete iterations below the bound are separate outcomes
        text = "... [loop bound]"
    conjs = [list(lits)]
    for alts in alts_all:
        conjs = [c + a for c in conjs for a in alts]
    return text, conjs, ct.vars


class XPath:
    """a path of the engine after the Result/Option case splits: `ret` is in constructor normal form, `tagfacts` include the splits"""

    def __init__(self, p, ret, extra):
        self.status = p.status
        self.ret = ret
        self.store = p.store
        self.events = p.events
        self.pc = p.pc
        self.tagfacts = dict(p.tagfacts)
        for atom, v in extra.values():
            if isinstance(atom, tuple) and atom and atom[0] == "cond":
                self.pc = self.pc + [(atom[1], bool(v), "branch")]
            else:
                self.tagfacts[("tag", atom)] = v
                for e in p.events:
                    if e["k"] == "call" and e.get("result") is not None and norm(e["result"]) == atom:
                        self.tagfacts[("tag", e["result"])] = v
        self.orig = p


def expand_paths(F, fn, paths):
    """split every path on the undecided tags of lazily combined Results/Options in its returned value, so that rules can look at
    `Ok(..)` / `Err(..)` / `Some(..)` / `None` whatever combinator, `?` or match produced them"""
    _FACTS[0] = F
    out = []
    top = fn.locals[0]["ty"]
    for p in paths:
        if p.ret is None or p.status != "return":
            out.append(p)
            continue
        pending = [{}]
        guard = 0
        while pending:
            extra = pending.pop()
            guard += 1
            if guard > 64:
                raise RuntimeError("case-split explosion in %s" % fn.def_)
            ct = CT(F, p, fn, extra)
            try:
                r = ct.resolve(p.ret, top_ty=top)
            except NeedSplit as ns:
                for v in (0, 1):
                    e2 = dict(extra)
                    e2[repr(ns.atom)] = (ns.atom, v)
                    pending.append(e2)
                continue
            # a split that contradicts a fact the path already has is not a path
            bad = False
            for atom, v in extra.values():
                if not (isinstance(atom, tuple) and atom and atom[0] == "cond"):
                    f0 = CT(F, p, fn, {}).tagfact(atom)
                    if isinstance(f0, int) and f0 != v:
                        bad = True
                    if isinstance(f0, tuple) and v in f0[1]:
                        bad = True
            if not bad:
                out.append(XPath(p, r, extra))
    return out


def err_source(ret):
    """for a returned `Err(e)`: the opaque Result whose error is passed on unchanged (through `?`/From of the same type), else None"""
    if not (isinstance(ret, tuple) and ret and ret[0] == "agg" and ret[3] == "Err"):
        return None
    e = ret[5][0]
    while isinstance(e, tuple) and e and e[0] == "from":
        e = e[1]
    if isinstance(e, tuple) and e and e[0] == "errval":
        x = e[1]
        while isinstance(x, tuple) and x and x[0] in ("map_ok", "try"):
            x = x[1]
        return x
    return None


def summarize(F, fn, max_visits=None, hide_calls=(), _nested=False, inline=inline_local, renames=None, root_subst=None):
    _FACTS[0] = F
    if max_visits is None:
        max_visits = 20 if fn.name == "finalize" and "CrcModifier" in (fn.impl_self or "") else 3
    eng = sym.Engine(F, inline=inline, max_visits=max_visits, max_depth=10, models=sym.SLICE_MODELS)
    eng.root_subst = root_subst
    paths = [p for p in eng.run(fn) if p.status != "infeasible"]
    outcomes = {}
    vtab = {}
    for p in paths:
        pending = [{}]
        guard = 0
        while pending:
            extra = pending.pop()
            guard += 1
            if guard > 64:
                raise RuntimeError("case-split explosion in %s" % fn.def_)
            try:
                text, conjs, vt = _path_outcome(F, fn, p, extra, hide_calls, renames)
                vtab.update(vt)
            except NeedSplit as ns:
                for v in (0, 1):
                    e2 = dict(extra)
                    e2[repr(ns.atom)] = (ns.atom, v)
                    pending.append(e2)
                continue
            for lits in conjs:
                conj = _conj(lits)
                if conj is None:
                    continue          # contradictory literals: not a real path
                outcomes.setdefault(text, []).append(conj)
    out = [{"text": t, "when": [[list(_lit_json(l)) for l in c] for c in sorted(cs, key=repr)]} for t, cs in sorted(outcomes.items())]
    used = set(l[1] for o in out for c in o["when"] for l in c)
    return {"outcomes": out, "truncated": bool(eng.truncated), "vars": {k: v for k, v in sorted(vtab.items()) if k in used}}


def _conj(lits):
    """merge literals on the same variable; None if contradictory"""
    by = {}
    for k, var, allowed in lits:
        key = (k, var)
        if key not in by:
            by[key] = allowed
            continue
        a = by[key]
        if k == "lin":
            r = _intersect(a, allowed)
            if not r:
                return None
            by[key] = r
        else:
            r = _tag_and(a, allowed)
            if r is None:
                return None
            by[key] = r
    if ("tag", "false") in by:
        return None
    return tuple(sorted((k, var, al) for (k, var), al in by.items()))


def _tag_and(a, b):
    if a[0] == "in" and b[0] == "in":
        s = set(a[1]) & set(b[1])
        return ("in", tuple(sorted(s))) if s else None
    if a[0] == "in":
        s = set(a[1]) - set(b[1])
        return ("in", tuple(sorted(s))) if s else None
    if b[0] == "in":
        return _tag_and(b, a)
    return ("not", tuple(sorted(set(a[1]) | set(b[1]))))


def _lit_json(l):
    k, var, allowed = l
    if k == "tag":
        return (k, var, [allowed[0], list(allowed[1])])
    return (k, var, [[lo, hi] for lo, hi in allowed])


def _lit_from_json(j):
    k, var, allowed = j
    if k == "tag":
        return (k, var, (allowed[0], tuple(allowed[1])))
    return (k, var, tuple((lo, hi) for lo, hi in allowed))


# ---- comparison -------------------------------------------------------------------------------------------------------------------

def _dnf_from_json(when):
    return [tuple(_lit_from_json(l) for l in c) for c in when]


def _feasible(asg, vtab, hyps):
    """is the assignment of regions to linear variables consistent with linear arithmetic and the hypotheses?  (rational relaxation)"""
    cons = []
    atoms = set()
    for (k, var), region in asg.items():
        if k != "lin" or not isinstance(vtab.get(var), list):
            continue
        lo, hi = region
        co = {a: Fraction(c) for a, c, u in vtab[var]}
        for a, c, u in vtab[var]:
            atoms.add(a)
            if u:
                cons.append(lin.Ineq({a: 1}, 0))
        if lo is not None:
            cons.append(lin.Ineq(dict(co), -lo))
        if hi is not None:
            cons.append(lin.Ineq({a: -c for a, c in co.items()}, hi))
    for co, c in hyps or ():
        cons.append(lin.Ineq(dict(co), c))
        atoms |= set(co)
    if not cons:
        return True
    try:
        return lin._feasible(cons, sorted(atoms))
    except Exception:
        return True


def dnf_equal(a, b, cap=400000, vtab=None, hyps=None):
    """are two DNFs (lists of conjunctions of literals) the same boolean function, on every assignment that linear arithmetic (and the
    given hypotheses) admits? -> (True, None) | (False, witness text)"""
    vtab = vtab or {}
    vars_ = {}
    for dnf in (a, b):
        for c in dnf:
            for k, var, allowed in c:
                d = vars_.setdefault((k, var), set())
                if k == "tag":
                    d.update(allowed[1])
                else:
                    for lo, hi in allowed:
                        if lo is not None:
                            d.add(lo)
                            d.add(lo - 1)
                        if hi is not None:
                            d.add(hi)
                            d.add(hi + 1)
    doms = []
    keys = sorted(vars_)
    total = 1
    for key in keys:
        if key[0] == "tag":
            vt = vtab.get(key[1])
            if isinstance(vt, dict) and "dom" in vt:
                dom = list(vt["dom"])
            else:
                dom = sorted(vars_[key]) + ["other"]
        else:
            # homogeneous regions between the cut points
            pts = sorted(vars_[key])
            dom = []
            prev = None
            for p_ in pts:
                if prev is None:
                    dom.append((None, p_ - 1))
                elif p_ - 1 >= prev + 1:
                    dom.append((prev + 1, p_ - 1))
                dom.append((p_, p_))
                prev = p_
            dom.append(((prev + 1) if prev is not None else None, None))
        doms.append(dom)
        total *= len(dom)
    if total > cap:
        sa = sorted(repr(c) for c in a)
        sb = sorted(repr(c) for c in b)
        return (sa == sb), ("too many cases to enumerate (%d); syntactic comparison" % total)

    def holds(dnf, asg):
        for c in dnf:
            ok = True
            for k, var, allowed in c:
                v = asg[(k, var)]
                if k == "tag":
                    inside = v in allowed[1]
                    if (allowed[0] == "in") != inside:
                        ok = False
                        break
                else:
                    rlo, rhi = v
                    if not any((lo is None or (rlo is not None and rlo >= lo)) and (hi is None or (rhi is not None and rhi <= hi)) for lo, hi in allowed):
                        ok = False
                        break
            if ok:
                return True
        return False
    for combo in itertools.product(*doms):
        asg = dict(zip(keys, combo))
        if holds(a, asg) != holds(b, asg):
            if not _feasible(asg, vtab, hyps):
                continue
            return False, ", ".join("%s=%s" % (k[1], v) for k, v in asg.items())
    return True, None


def struct_invariants(vtab):
    """start <= cursor <= end for every raw-pointer cursor struct whose fields occur among the atoms (wherever the struct lives: `self`,
    a field of self, a value handed back by an opaque call), and idx <= N for the accumulator: the invariants the constructors establish
    and every writer preserves (C03.R1 / C05.G / C11.BX / C08)"""
    atoms = set()
    for v in vtab.values():
        if isinstance(v, list):
            for a, c, u in v:
                atoms.add(a)
    out = []
    for a in atoms:
        if a.endswith(".cursor"):
            pre = a[:-len("cursor")]
            if pre + "end" in atoms:
                out.append(({pre + "end": 1, a: -1}, 0))
            if pre + "start" in atoms:
                out.append(({a: 1, pre + "start": -1}, 0))
        if a.endswith(".idx") and "const<N>" in atoms:
            out.append(({"const<N>": 1, a: -1}, 0))
    return out


def compare(spec, got, hyps=None):
    """spec/got: summarize() results (or their JSON). -> list of difference strings (empty = equivalent)"""
    vtab = dict(spec.get("vars") or {})
    vtab.update(got.get("vars") or {})
    hyps = list(hyps or []) + struct_invariants(vtab)
    so = {o["text"]: _dnf_from_json(o["when"]) for o in spec["outcomes"]}
    go = {o["text"]: _dnf_from_json(o["when"]) for o in got["outcomes"]}
    diffs = []
    for t in sorted(set(so) | set(go)):
        if t not in go:
            diffs.append("missing outcome: " + t)
        elif t not in so:
            diffs.append("unexpected outcome: " + t)
        else:
            ok, wit = dnf_equal(so[t], go[t], vtab=vtab, hyps=hyps)
            if not ok:
                diffs.append("outcome `%s` happens under a different condition (differs at: %s)" % (t[:160], wit))
    return diffs


def fmt(s):
    out = []
    for o in s["outcomes"]:
        conds = " || ".join(" && ".join(lit_text(_lit_from_json(l)) for l in c) or "always" for c in o["when"])
        out.append("  when %s:\n      %s" % (conds, o["text"]))
    return "\n".join(out)


def check(run, rule, fn, want, F, what="", key=None, renames=None, hyps=None, inline=None, per_outcome=False, root_subst=None):
    import summ
    k = key or summ.fn_key(fn)
    try:
        got = summarize(F, fn, renames=renames, inline=inline or inline_local, root_subst=root_subst)
    except Exception as ex:
        run.bad(rule, k, "%scould not be summarised: %s: %s" % ((what + ": ") if what else "", type(ex).__name__, ex), fn.where())
        return False
    diffs = compare(want, got, hyps)
    if per_outcome:
        # one instance per specified case; unexpected outcomes are reported once
        okall = True
        for i, o in enumerate(want["outcomes"]):
            mine = [d for d in diffs if o["text"][:160] in d]
            kk = "%s case %d: %s" % (k, i + 1, o["text"].rsplit(" => ", 1)[-1][:60])
            if mine:
                okall = False
                run.bad(rule, kk, "%s%s" % ((what + ": ") if what else "", mine[0]), fn.where(), expected=fmt(want).splitlines(), found=fmt(got).splitlines())
            else:
                run.ok(rule, kk, "case as specified", fn.where(), method="semantic summary")
        extra = [d for d in diffs if d.startswith("unexpected outcome")]
        if extra:
            okall = False
            run.bad(rule, k + " extra behaviour", extra[0], fn.where(), expected=fmt(want).splitlines(), found=fmt(got).splitlines())
        return okall
    if diffs:
        # compositional retry: a call the specification keeps opaque (`<W<T> as Trait>::m(..)`, judged by its own specified instances) stays
        # opaque even if the tree now has a local generic impl the evaluator could look into
        opaque = _spec_calls(want)
        if opaque:
            base = inline or inline_local
            hit = []

            def inl(g, ev):
                if base(g, ev) and summ.call_name(ev) in opaque:
                    hit.append(summ.call_name(ev))
                    return False
                return base(g, ev)
            try:
                got2 = summarize(F, fn, renames=renames, inline=inl, root_subst=root_subst)
                if hit and not compare(want, got2, hyps):
                    run.ok(rule, k, (what or "behaviour as specified") + " (callee %s kept opaque as in the specification)" % sorted(set(hit))[0],
                           fn.where(), method="semantic summary")
                    return True
            except Exception:
                pass
    if not diffs:
        run.ok(rule, k, what or "behaviour as specified", fn.where(), method="semantic summary")
        return True
    run.bad(rule, k, "%sbehaviour differs from the specified summary: %s" % ((what + ": ") if what else "", diffs[0]),
            fn.where(), expected=fmt(want).splitlines(), found=fmt(got).splitlines())
    return False


def equals_provided(F, fn, want, renames=None, hyps=None):
    """is this (unspecified) override of a provided trait method the provided method itself, written out for the implementing type?  The
    override is summarised with the impl's other trait methods kept as calls on `Self`, and compared with the specification of the
    provided method.  -> list of differences (empty = same behaviour)"""
    def inl(g, ev):
        return inline_local(g, ev) and not (g.impl_trait == fn.impl_trait and g.impl_self == fn.impl_self)
    got = summarize(F, fn, renames=renames, inline=inl)
    me = "<%s as " % fn.impl_self

    def sub(txt):
        return txt.replace(me, "<Self as ")
    got2 = {"outcomes": [{"text": sub(o["text"]), "when": [[[l[0], sub(l[1]), l[2]] for l in c] for c in o["when"]]} for o in got["outcomes"]],
            "truncated": got.get("truncated", False)}
    got2["outcomes"].sort(key=lambda o: o["text"])
    return compare(want, got2, hyps)


def _spec_calls(want):
    """names of the trait-qualified calls that occur as effects in a specification"""
    out = set()
    for o in want.get("outcomes", []):
        for seg in o["text"].split("; "):
            m = re.match(r"^#\d+ = (<.*)$", seg)
            if not m:
                continue
            t, depth = m.group(1), 0
            for i, ch in enumerate(t):
                if ch == "<":
                    depth += 1
                elif ch == ">":
                    depth -= 1
                elif ch == "(" and depth == 0:
                    out.add(t[:i])
                    break
    return out


def apply_renames(s, ren):
    """ren: {new field name: specified field name}; textual on canonical field accesses `.name` and struct literal keys `name:`"""
    if not ren:
        return s
    pat = re.compile(r"(?<=[.{ ])(%s)(?=\b)" % "|".join(re.escape(k) for k in sorted(ren, key=len, reverse=True)))

    def sub(txt):
        return pat.sub(lambda m: ren[m.group(1)], txt)
    out = {"outcomes": [], "truncated": s.get("truncated", False)}
    for o in s["outcomes"]:
        out["outcomes"].append({"text": sub(o["text"]), "when": [[[l[0], sub(l[1]), l[2]] for l in c] for c in o["when"]]})
    out["outcomes"].sort(key=lambda o: o["text"])
    return out
