"""C09 — the accumulator survives overflow and garbage and resyncs at the next sentinel.

C09.V  overflow paths: zero found and too long -> idx = 0, OverFull(release); no zero and too long -> idx = 0,
       OverFull(&input[N - idx0..]) with idx0 the index *before* the reset; these are the only producers of OverFull, and
       OverFull is produced only when the bytes really do not fit (guard exactness by LIN).
C09.P  panic sites of feed/feed_ref/extend_unchecked/new: every arithmetic, index, split and copy site on every path is
       discharged by LIN from Inv (idx <= N), the dominating fit guards and the std contracts (position() < len, split_at halves).
C09.I  Inv's idx <= N is inductive: every write to idx stores 0 or idx + len under the guard idx + len <= N.
C09.D  back in the initial state after every zero byte (idx == 0 on every zero-found path) = C08.D.
Progress of the documented feed loop: a non-Consumed return either shortens the window (N - idx0 >= 1 or n + 1 >= 1) or
returns it unchanged with idx reset from N to 0, after which the next call shortens it when N >= 1 (hand ranking argument
from C09.V and C09.D, recorded as an assumption, not a checked theorem).
"""
import lin
import panlin
import pan
import handspec
import glue
import summ
import sym
import tbl
import acc as accmod
from glueprops import run_groups
from sym import C
from tbl import norm

LEVEL = "other"
MANIFEST = {
    "text": "Exhaustive static path analysis of the accumulator's overflow handling: both overflow paths reset idx and hand back the "
            "right suffix (offset computed from the pre-reset index), OverFull only when the data does not fit, idx <= N is inductive, and "
            "every panic site (add/sub overflow, slice index, split_at, copy_from_slice length) on every path is discharged by linear "
            "reasoning from the guards. Recovery then follows for every interleaving because each call starts from the invariant.",
    "note": "Termination of the re-feed loop is argued by hand from two checked facts (ranking argument), not mechanically. Trusted: std slice contracts.",
    "technique": "static analysis: semantic summary of feed_ref vs the hand-written overflow cases + linear-arithmetic discharge of every panic obligation + typestate (idx reset) rule",
}


def acc_hyps(p, N_terms):
    """hypotheses for the linear discharge inside the accumulator: Inv idx <= N <= isize::MAX, and the contract of Iterator::position
    (the index it returns is smaller than the length of the slice it searched)"""
    hyps = []
    for t in sym.subterms(tuple(norm(c) for c, _, _ in p.pc) + tuple(norm(e.get(k)) for e in p.events if e["k"] == "assert" for k in ("a", "b") if e.get(k) is not None)):
        if t and t[0] == "init" and t[1][0] == "F" and t[1][2] == "idx":
            for N in N_terms:
                hyps.append(lin.ge(N, t))
    for N in N_terms:
        hyps.append(lin.ge(C((1 << 63) - 1, "usize"), N))
    for e in tbl.residual_calls(p):
        if (e["key"] or "").endswith("Iterator::position"):
            it = e["snap"][0] if e.get("snap") else None
            src = None
            if it is not None and it[0] == "call" and it[3]:
                src = it[3][0]
            elif it is not None and it[0] == "agg" and it[2] == "core::slice::iter::Iter":
                src = it[5][1]
            if src is not None:
                hyps.append(lin.gt(("len", norm(src)), ("someval", norm(e["result"]))))
    return hyps


def run(run_, ctx):
    run_groups(run_, ctx, [("S", "acc", None, "accumulator")])
    run_.floor("S", 4)
    F = ctx.facts("A")
    pc = F.crate("postcard")
    ren = glue.renames(F, pc, glue.load2("A"))
    # PATH / V: the hand-written case analysis (rules/handspec.py): idx is 0 after every zero byte and after every overflow; OverFull is
    # produced exactly when the data does not fit and carries the bytes after the terminator, or input[N - idx..] with idx read before the reset
    handspec.check(run_, "PATH", F, pc, ["<accumulator::CobsAccumulator<N> as ->::feed_ref"],
                   "reset after zero/overflow; OverFull only when it does not fit; remainder offsets", renames=ren, per_outcome=True)
    run_.floor("PATH", 6)
    n_over = sum(1 for o in handspec.ACC_FEED["outcomes"] if "OverFull" in o["text"])
    run_.check(n_over == 2, "V", "OverFull producers", "the specification has exactly two overflow cases (with and without terminator)")
    # I: the constructor establishes the invariant
    handspec.check(run_, "I", F, pc, ["<accumulator::CobsAccumulator<N> as ->::new"], "new() starts empty: idx = 0, buf zeroed", renames=ren)
    # P: every panic site of feed_ref (private helpers inlined) is discharged by linear arithmetic from the guards on its path, the
    # invariant and the std contracts listed in the trusted base
    fr = [f for f in pc.fns if f.name == "feed_ref" and (f.impl_self or "").startswith("accumulator::CobsAccumulator<")]
    if len(fr) != 1:
        run_.bad("P", "feed_ref", "not found")
    else:
        f = fr[0]
        eng = sym.Engine(F, inline=handspec.acc_inline, max_visits=2, max_depth=10, models=sym.SLICE_MODELS)
        sites, paths, ub = pan.collect(F, f, engine=eng)
        N_terms = set()
        for p in paths:
            for t in sym.subterms(tuple(c for c, _, _ in p.pc)):
                if t and t[0] == "tyconst":
                    N_terms.add(t)
            if p.status not in ("return",):
                run_.bad("P", "feed_ref path", "a path ends in %s (panic reachable?)" % p.status, f.where())
        groups = {}
        for st_ in sites:
            groups.setdefault(st_.key(), []).append(st_)
        for key, ss in sorted(groups.items()):
            bad = [x for x in ss if not panlin.discharged(x.path, x.ev, acc_hyps(x.path, N_terms))]
            if bad:
                run_.bad("P", key, "panic site not discharged on %d of %d path(s): %s %s" % (len(bad), len(ss), bad[0].kind, bad[0].text), f.where())
            else:
                run_.ok("P", key, "linear: guards + idx <= N <= isize::MAX + position() < len", f.where(), method="LIN")
    run_.floor("P", 3)
    run_.assumptions += [
        "ranking argument for the documented feed loop (by hand): a non-Consumed result either returns a strictly shorter window (N - idx0 >= 1 bytes or n + 1 >= 1 bytes dropped) "
        "or, when idx0 == N, the same window with idx reset to 0, after which the next call drops N >= 1 bytes; uses exactly C09.V and C09.D",
        "the accumulator's fields are private and written only inside feed_ref's specified behaviour (C08.O)"]
    run_.explanation = (
        "feed_ref (private helpers inlined) is summarised from MIR and compared, as boolean functions under idx <= N, with the hand-written case analysis: idx is 0 "
        "after any zero byte and after any overflow; OverFull carries the bytes after the terminator, or input[N-idx..] with idx read before the reset, and is produced "
        "exactly when idx+len > N; every MIR assertion (add/sub overflow) and every slicing / split / copy site on every path is discharged by Fourier-Motzkin from the "
        "guards, the invariant idx <= N and std contracts; new() establishes idx = 0.")
    run_.trusted += ["core slice::split_at / Iterator::position / Index<RangeFrom> contracts", "arrays and slices are at most isize::MAX bytes"]
