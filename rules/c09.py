"""C09 — the accumulator survives overflow and garbage and resyncs at the next sentinel.

C09.V  overflow paths: zero found and too long -> idx = 0, OverFull(release); no zero and too long -> idx = 0,
       OverFull(&input[N - idx0..]) with idx0 the index *before* the reset; these are the only producers of OverFull, and
       OverFull is produced only when the bytes really do not fit (guard exactness by LIN).
C09.P  panic sites of feed/feed_ref/extend_unchecked/new: every arithmetic, index, split and copy site on every path is
       discharged by LIN from Inv (idx <= N), the dominating fit guards and the std contracts (position() < len, split_at halves).
C09.I  Inv's idx <= N is inductive: every write to idx stores 0 or idx + len under the guard idx + len <= N.
C09.D  back in the initial state after every zero byte (idx == 0 on every zero-found path) = C08.D.
Progress of the documented feed loop: a non-Consumed return either shortens the window (N - idx0 >= 1 or n + 1 >= 1) or
returns it unchanged with idx reset from N to 0, after which the next call shortens it when N >= 1 (hand ranking argument
from C09.V and C09.D, recorded as an assumption, not a checked theorem).
"""
import lin
import summ
import sym
import tbl
import acc as accmod
from glueprops import run_groups
from sym import C
from tbl import norm

LEVEL = "other"
MANIFEST = {
    "text": "Exhaustive static path analysis of the accumulator's overflow handling: both overflow paths reset idx and hand back the "
            "right suffix (offset computed from the pre-reset index), OverFull only when the data does not fit, idx <= N is inductive, and "
            "every panic site (add/sub overflow, slice index, split_at, copy_from_slice length) on every path is discharged by linear "
            "reasoning from the guards. Recovery then follows for every interleaving because each call starts from the invariant.",
    "note": "Termination of the re-feed loop is argued by hand from two checked facts (ranking argument), not mechanically. Trusted: std slice contracts.",
    "technique": "static analysis: exhaustive path enumeration + linear-inequality discharge of panic obligations + typestate (idx reset) rule",
}


def run(run_, ctx):
    run_groups(run_, ctx, [("S", "acc", None, "accumulator")])
    run_.floor("S", 4)
    F = ctx.facts("A")
    A = accmod.Acc(F)
    site = A.feed_ref.where()
    over = 0
    for i, p in enumerate(A.paths):
        if p.status != "return":
            run_.bad("P", "feed_ref path %d" % i, "a path ends in %s (panic reachable?)" % p.status, site)
            continue
        v = A.variant(p)
        zf = A.zero_found(p)
        tag = "%s/%s" % (v, {True: "zero", False: "nozero", None: "empty"}[zf])
        probs = []
        fin = A.final_idx(p)
        # D / I
        if zf and fin != C(0, "usize"):
            probs.append("D: a zero byte was consumed but idx = %s afterwards (not back in the initial state)" % sym.show(fin))
        writes = [e for e in p.events if e["k"] == "write" and e["loc"] == A.idx_loc]
        for w in writes:
            if w["val"] != C(0, "usize"):
                probs.append("I: idx is set to %s in feed_ref (only 0 is allowed here; growth goes through the guarded append)" % sym.show(w["val"]))
        if v == "OverFull":
            over += 1
            if fin != C(0, "usize"):
                probs.append("V: overflow reported but idx = %s afterwards" % sym.show(fin))
            rem = norm(p.ret[5][0])
            if zf:
                sp = A.calls(p, "<impl [T]>::split_at")
                if not sp or rem != norm(("getf", sp[0]["result"], "1")):
                    probs.append("V: overflow with terminator must drop through the terminator and return the bytes after it")
                take = ("getf", sp[0]["result"], "0") if sp else None
                # really does not fit
                if take and not A.prove(p, lin.gt(("bin", "Add", A.idx0, ("len", norm(take)), "usize"), A.N)):
                    probs.append("V: OverFull although the segment would fit")
            else:
                ix = A.calls(p, "Index::index")
                okr = False
                if len(ix) == 1 and norm(ix[0]["args"][0]) == A.input and norm(ix[0]["result"]) == rem:
                    r = ix[0]["args"][1]
                    if r[0] == "agg" and r[2].endswith("::RangeFrom"):
                        start = norm(r[5][0])
                        okr = start == norm(("bin", "Sub", A.N, A.idx0, "usize"))
                        if not okr:
                            probs.append("V: overflow without terminator returns &input[%s..], expected &input[N - idx..] with idx read before the reset" % sym.show(start))
                            okr = True
                if not okr:
                    probs.append("V: overflow without terminator does not return the tail of the input")
                if not A.prove(p, lin.gt(("bin", "Add", A.idx0, A.len_in, "usize"), A.N)):
                    probs.append("V: OverFull although the chunk would fit")
        else:
            # not OverFull: the data fitted (or was empty)
            for e in A.calls(p, "::extend_unchecked"):
                x = norm(e["args"][1])
                if not A.prove(p, lin.ge(A.N, ("bin", "Add", A.idx0, ("len", x), "usize"))):
                    probs.append("I: append of %s not guarded by idx + len <= N (idx could exceed N)" % sym.show(x))
        # P: panic sites on this path
        for e in p.events:
            if e["k"] == "assert" and e["static"] is not True:
                ok_ = discharge(A, p, e)
                if not ok_:
                    probs.append("P: %s check %s not discharged" % (e["kind"], sym.show(norm(e["cond"]))))
            elif e["k"] == "call" and not e.get("inlined"):
                k = e["key"]
                if k.endswith("<impl [T]>::split_at"):
                    if not A.prove(p, lin.ge(A.len_in, e["args"][1])):
                        probs.append("P: split_at(%s) may exceed the input length" % sym.show(norm(e["args"][1])))
                elif k.endswith("Index::index") and norm(e["args"][0]) == A.input:
                    r = e["args"][1]
                    if not (r[0] == "agg" and r[2].endswith("::RangeFrom") and A.prove(p, lin.ge(A.len_in, r[5][0]))):
                        probs.append("P: &input[%s..] may start past the end of the input" % sym.show(norm(r[5][0]) if r[0] == "agg" else r))
                elif k.startswith("core::panicking") or k.endswith("::unwrap") or k.endswith("::expect"):
                    probs.append("P: call to %s" % k)
        run_.check(not probs, "PATH", "feed_ref %s" % tag, probs[0] if probs else "reset/remainder/guards/panic sites hold on this path", site, found=probs)
    run_.floor("PATH", 6)
    run_.check(over == 2, "V", "OverFull producers", "expected exactly two overflow paths (with and without terminator), found %d" % over, site)
    # extend_unchecked's own sites under its precondition idx + len <= N (established at both call sites, see PATH)
    e = A.extend
    eng = sym.Engine(F, max_visits=2)
    probs = []
    for p in eng.run(e):
        if p.status != "return":
            probs.append("path ends in %s" % p.status)
        s = ("P", ("param", 1, e.locals[1]["ty"]))
        idx0 = ("init", ("F", s, "idx"))
        x = ("param", 2, e.locals[2]["ty"])
        for ev in p.events:
            if ev["k"] == "assert" and ev["static"] is not True:
                if not (ev["kind"] == "Overflow" and ev.get("op") == "Add"):
                    probs.append("unexpected %s check" % ev["kind"])
            if ev["k"] == "call" and ev["key"].endswith("copy_from_slice"):
                im = [c for c in tbl.residual_calls(p) if c["key"].endswith("IndexMut::index_mut")]
                okl = False
                if len(im) == 1 and norm(ev["args"][0]) == norm(im[0]["result"]) and norm(ev["args"][1]) == x:
                    r = im[0]["args"][1]
                    if r[0] == "agg" and r[2].endswith("::Range"):
                        try:
                            d = lin.ge(("bin", "Sub", r[5][1], r[5][0], "usize"), ("len", x))
                            okl = not d.co and d.c == 0 and norm(r[5][0]) == idx0
                        except Exception:
                            okl = False
                if not okl:
                    probs.append("copy_from_slice lengths are not provably equal (destination must be buf[idx..idx+len])")
    run_.check(not probs, "P", "extend_unchecked sites", probs[0] if probs else "range = idx..idx+len (<= N by the callers' guard); copy lengths equal; idx+len cannot overflow", e.where(), found=probs)
    # new
    ls = summ.lines(summ.summarize(F, A.new))
    run_.check(len(ls) == 1 and "idx: 0" in ls[0] and "=> CobsAccumulator{" in ls[0], "I", "new establishes Inv", "new() must start with idx = 0", A.new.where(), found=ls)
    run_.assumptions += [
        "ranking argument for the documented feed loop (by hand): a non-Consumed result either returns a strictly shorter window (N - idx0 >= 1 bytes or n + 1 >= 1 bytes dropped) "
        "or, when idx0 == N, the same window with idx reset to 0, after which the next call drops N >= 1 bytes; uses exactly C09.V and C09.D",
        "callers of extend_unchecked are feed_ref only (who-may-write, C08.O)"]
    run_.explanation = (
        "All paths of the loop-free feed_ref are enumerated. For each: idx is 0 after any zero byte and after any overflow; OverFull carries the bytes after the "
        "terminator, or &input[N-idx..] with idx read before the reset, and is produced only when idx+len > N is implied by the guards; every MIR assertion "
        "(add/sub overflow) and every split_at / index site is discharged by Fourier-Motzkin from the guards, the invariant idx <= N and std contracts; "
        "extend_unchecked's range and copy lengths are checked under the precondition its two call sites establish.")
    run_.trusted += ["core slice::split_at / Iterator::position / Index<RangeFrom> contracts", "arrays and slices are at most isize::MAX bytes"]


def discharge(A, p, e):
    if e["kind"] != "Overflow":
        return False
    a, b = e.get("a"), e.get("b")
    op = e.get("op")
    if op == "Add":
        # a + b <= usize::MAX
        return A.prove(p, lin.ge(C((1 << 64) - 1, "usize"), ("bin", "Add", a, b, "usize")))
    if op == "Sub":
        return A.prove(p, lin.ge(a, b))
    return False
