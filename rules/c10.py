"""C10 — CRC framing appends the right checksum and never accepts a wrong one.

C10.S  serialiser flavor, per width (5 macro instances, separate MIR bodies): try_push updates the digest with exactly
       the byte it forwards; finalize pushes digest.finalize().to_le_bytes() byte by byte in index order (the loop over
       the constant array is unrolled, the k-th push is `(crc >> 8k) as u8`), then finalizes the inner flavor; try_extend
       is not overridden (the trait default forwards byte-wise to try_push, C20.D).
C10.D  deserialiser flavor, per width: pop/try_take_n update the digest with exactly the bytes they return and only on
       Ok; size_hint forwards; finalize takes size_of::<width>() bytes, finalizes the inner flavor, compares
       digest.finalize() with from_le_bytes(those bytes): equal -> Ok(remainder), else DeserializeBadCrc.
C10.W  wrappers: from_bytes_uN / take_from_bytes_uN build CrcModifier::new(Slice::new(s), digest), deserialize, and the
       result of Deserializer::finalize is checked with `?` on every path to Ok; to_*_uN go through serialize_with_flavor;
       the crc32 re-exports call the u32 instances.
"""
import re

import glue
import summ
from glueprops import run_groups

LEVEL = "other"
MANIFEST = {
    "text": "Static check of all five CRC widths on both sides (each macro instance is a separate MIR body): the digest covers "
            "exactly the bytes forwarded/consumed, the checksum is appended/compared little-endian byte by byte, Ok is "
            "dominated by the equality test, and every wrapper passes through finalize. Decides 'frame = plain || LE checksum of "
            "exactly those bytes' and 'success => consumed bytes are followed by their checksum' for all inputs and widths.",
    "note": "Trusted: the crc crate (Digest::update/finalize), std byte-order functions. Which corruptions a polynomial detects is CRC theory, not decided.",
    "technique": "static analysis: canonical per-path summaries of every macro instance (feature use-crc) + sibling agreement across widths",
}

WIDTHS = {"u8": 1, "u16": 2, "u32": 4, "u64": 8, "u128": 16}


def run(run_, ctx):
    is_crc = lambda k: "crc" in k
    run_groups(run_, ctx, [
        ("S", "ser_crc", None, "CRC serialiser flavor"),
        ("D", "de_crc", None, "CRC deserialiser flavor"),
        ("W", "ser_entry", is_crc, "CRC encode wrapper"),
        ("W", "de_entry", is_crc, "CRC decode wrapper"),
    ])
    run_.floor("S", 11)
    run_.floor("D", 21)
    run_.floor("W", 29)
    F = ctx.facts("A")
    pc = F.crate("postcard")
    # semantic sibling checks on the tree itself
    ser = {summ.fn_key(f): f for f in glue.fns_of_group(pc, "ser_crc")}
    de = {summ.fn_key(f): f for f in glue.fns_of_group(pc, "de_crc")}
    for w, nb in WIDTHS.items():
        kf = "<ser::flavors::crc::CrcModifier<'a, B, %s> as Flavor>::finalize" % w
        kp = "<ser::flavors::crc::CrcModifier<'a, B, %s> as Flavor>::try_push" % w
        probs = []
        if kf in ser:
            ls = summ.lines(summ.summarize(F, ser[kf]))
            full = [l for l in ls if "Flavor>::finalize(" in l and "=> #" in l]
            if len(full) != 1:
                probs.append("no single all-success path ending in the inner finalize")
            else:
                pushes = re.findall(r"try_push\(&\{[^}]*\}, ([^;]*?)\);", full[0] + ";")
                exp = ["(#1 as u8)"] + ["(Shr(#1, %d) as u8)" % (8 * k) for k in range(1, nb)]
                if nb == 1:
                    exp = ["#1"]
                if pushes != exp:
                    probs.append("checksum bytes pushed are %s, expected little-endian %s" % (pushes, exp))
                if full[0].count("Flavor>::finalize(") != 1 or not full[0].rstrip().endswith("=> #%d" % (nb + 2)):
                    probs.append("inner flavor is not finalized last")
        else:
            probs.append("finalize not found")
        if kp in ser:
            lp = summ.lines(summ.summarize(F, ser[kp]))
            if len(lp) != 1 or "update(&*self.digest, &{[arg2]})" not in lp[0] or "try_push(&*self.flav, arg2) => #2" not in lp[0]:
                probs.append("try_push does not digest exactly the byte it forwards")
        else:
            probs.append("try_push not found")
        if [k for k in ser if ("B, %s>" % w) in k and k.endswith("::try_extend")]:
            # an override must digest the same slice it forwards
            ke = [k for k in ser if ("B, %s>" % w) in k and k.endswith("::try_extend")][0]
            le = " ".join(summ.lines(summ.summarize(F, ser[ke])))
            if "update(&*self.digest, arg2)" not in le:
                probs.append("try_extend override forwards bytes that the digest does not cover")
        run_.check(not probs, "SX", "ser width %s" % w, probs[0] if probs else "digest covers forwarded bytes; %d LE checksum bytes; inner finalize last" % nb, found=probs)
        # de side
        kfd = "<de::flavors::crc::CrcModifier<'de, B, %s> as Flavor>::finalize" % w
        probs = []
        if kfd in de:
            ls = summ.lines(summ.summarize(F, de[kfd]))
            oks = [l for l in ls if "=> Result::Ok(" in l]
            if len(oks) != 1:
                probs.append("expected exactly one path to Ok(remainder), found %d" % len(oks))
            else:
                l = oks[0]
                if "try_take_n(&{self.flav}, %d)" % nb not in l:
                    probs.append("does not take exactly %d checksum bytes" % nb)
                if not re.search(r"#\d+ == from_le_bytes::<%s>\(okval\(#\d+\)\)" % w, l) and \
                        not re.search(r"from_le_bytes::<%s>\(okval\(#\d+\)\) == #\d+" % w, l):
                    probs.append("Ok(remainder) is not guarded by digest == from_le_bytes(checksum bytes)")
            bad = [l for l in ls if re.search(r"(#\d+ != from_le_bytes|from_le_bytes::<\w+>\(okval\(#\d+\)\) != #\d+)", l)]
            if len(bad) != 1 or "DeserializeBadCrc" not in bad[0]:
                probs.append("checksum mismatch does not return DeserializeBadCrc")
        else:
            probs.append("finalize not found")
        for nm, argpat in (("pop", r"update\(&\*self\.digest, &\{\[okval\(#1\)\]\}\) => Result::Ok\(okval\(#1\)\)"),
                           ("try_take_n", r"update\(&\*self\.digest, okval\(#1\)\) => Result::Ok\(okval\(#1\)\)")):
            k = "<de::flavors::crc::CrcModifier<'de, B, %s> as Flavor>::%s" % (w, nm)
            if k not in de:
                probs.append("%s not found" % nm)
                continue
            ls = summ.lines(summ.summarize(F, de[k]))
            okl = [l for l in ls if "tag(#1) == 0" in l]
            erl = [l for l in ls if "tag(#1) == 1" in l]
            if len(okl) != 1 or not re.search(argpat, okl[0]):
                probs.append("%s does not digest exactly the bytes it returns" % nm)
            if len(erl) != 1 or "update(" in erl[0]:
                probs.append("%s touches the digest on the error path" % nm)
        run_.check(not probs, "DX", "de width %s" % w, probs[0] if probs else "digest covers consumed bytes; %d-byte LE compare guards Ok" % nb, found=probs)
    run_.floor("SX", 5)
    run_.floor("DX", 5)
    run_.explanation = (
        "With feature use-crc every one of the 5 width instances of the CRC flavors (ser: try_push/finalize, de: "
        "pop/try_take_n/size_hint/finalize) and the 25 wrapper functions are summarised path by path from MIR and compared with the "
        "specified summaries; the checksum loop over the constant to_le_bytes() array is unrolled so each pushed byte is visible as "
        "(crc >> 8k) as u8. Extra semantic checks per width: number and order of checksum bytes, digest argument = forwarded/returned "
        "bytes, Ok(remainder) dominated by the equality, mismatch -> DeserializeBadCrc, wrappers propagate finalize's result with `?`.")
    run_.trusted += ["crc crate Digest semantics", "std to_le_bytes/from_le_bytes", "rustc MIR"]
    run_.assumptions += ["the Flavor trait's default try_extend forwards byte-wise to try_push (checked under C20.D)"]
