"""C10 — CRC framing appends the right checksum and never accepts a wrong one.

C10.S  serialiser flavor, per width (5 macro instances, separate MIR bodies): try_push updates the digest with exactly
       the byte it forwards; finalize pushes digest.finalize().to_le_bytes() byte by byte in index order (the loop over
       the constant array is unrolled, the k-th push is `(crc >> 8k) as u8`), then finalizes the inner flavor; try_extend
       is not overridden (the trait default forwards byte-wise to try_push, C20.D).
C10.D  deserialiser flavor, per width: pop/try_take_n update the digest with exactly the bytes they return and only on
       Ok; size_hint forwards; finalize takes size_of::<width>() bytes, finalizes the inner flavor, compares
       digest.finalize() with from_le_bytes(those bytes): equal -> Ok(remainder), else DeserializeBadCrc.
C10.W  wrappers: from_bytes_uN / take_from_bytes_uN build CrcModifier::new(Slice::new(s), digest), deserialize, and the
       result of Deserializer::finalize is checked with `?` on every path to Ok; to_*_uN go through serialize_with_flavor;
       the crc32 re-exports call the u32 instances.
"""
import re

import glue
import summ
from glueprops import run_groups

LEVEL = "other"
MANIFEST = {
    "text": "Static check of all five CRC widths on both sides (each macro instance is a separate MIR body): the digest covers "
            "exactly the bytes forwarded/consumed, the checksum is appended/compared little-endian byte by byte, Ok is "
            "dominated by the equality test, and every wrapper passes through finalize. Decides 'frame = plain || LE checksum of "
            "exactly those bytes' and 'success => consumed bytes are followed by their checksum' for all inputs and widths.",
    "note": "Trusted: the crc crate (Digest::update/finalize), std byte-order functions. Which corruptions a polynomial detects is CRC theory, not decided.",
    "technique": "static analysis: semantic MIR summaries of every macro instance (feature use-crc, five widths) vs specifications + per-width digest / byte-order rules + sibling agreement",
}

WIDTHS = {"u8": 1, "u16": 2, "u32": 4, "u64": 8, "u128": 16}


def run(run_, ctx):
    is_crc = lambda k: "crc" in k
    run_groups(run_, ctx, [
        ("S", "ser_crc", None, "CRC serialiser flavor"),
        ("D", "de_crc", None, "CRC deserialiser flavor"),
        ("W", "ser_entry", is_crc, "CRC encode wrapper"),
        ("W", "de_entry", is_crc, "CRC decode wrapper"),
    ])
    run_.floor("S", 11)
    run_.floor("D", 21)
    run_.floor("W", 29)
    F = ctx.facts("A")
    pc = F.crate("postcard")
    # semantic sibling checks on the tree itself, read off the semantic summaries (summ2): helper extraction, `?` vs match, operand
    # order, loops vs try_for_each do not change them
    import summ2
    ren = glue.renames(F, pc, glue.load2("A"))
    # (keys without lifetime names: `impl<'a, B> .. for CrcModifier<'a, B, u8>` and `.. for CrcModifier<'_, B, u8>` are the same impl)
    nolt = lambda k: re.sub(r"'\w+, ", "", k)
    ser = {nolt(summ.fn_key(f)): f for f in glue.fns_of_group(pc, "ser_crc")}
    de = {nolt(summ.fn_key(f)): f for f in glue.fns_of_group(pc, "de_crc")}

    def outs(f):
        return summ2.summarize(F, f, renames=ren)["outcomes"]

    def split(o):
        body, ret = o["text"].rsplit(" => ", 1)
        return ([] if body == "-" else body.split("; ")), ret
    for w, nb in WIDTHS.items():
        kf = "<ser::flavors::crc::CrcModifier<B, %s> as Flavor>::finalize" % w
        kp = "<ser::flavors::crc::CrcModifier<B, %s> as Flavor>::try_push" % w
        probs = []
        if kf in ser:
            full = [o for o in outs(ser[kf]) if re.search(r"=> Result::Ok\(okval\(#\d+\)\)$", o["text"])]
            if len(full) != 1:
                probs.append("no single all-success outcome ending in the inner finalize")
            else:
                evs, ret = split(full[0])
                pushes = [re.sub(r"^#\d+ = <B as Flavor>::try_push\(&\{[^}]*\}, (.*)\)$", r"\1", e) for e in evs if "Flavor>::try_push(" in e]
                D = "finalize(self.digest)"
                exp = ["(%s as u8)" % D] + ["(Shr(%s, %d) as u8)" % (D, 8 * k) for k in range(1, nb)]
                if nb == 1:
                    exp = [D]
                if pushes != exp:
                    probs.append("checksum bytes pushed are %s, expected the little-endian bytes of the digest's final value %s" % (pushes, exp))
                if not evs or not re.match(r"^#(\d+) = <B as Flavor>::finalize\(", evs[-1]) or ret != "Result::Ok(okval(#%d))" % len(evs):
                    probs.append("inner flavor is not finalized last")
        else:
            probs.append("finalize not found")
        if kp in ser:
            for o in outs(ser[kp]):
                evs, ret = split(o)
                if len(evs) != 2 or not evs[0].endswith("::update(&self.digest, &{[arg2]})") or not evs[1].endswith("<B as Flavor>::try_push(&self.flav, arg2)"):
                    probs.append("try_push does not digest exactly the byte it forwards")
        else:
            probs.append("try_push not found")
        for ke in [k for k in ser if ("B, %s>" % w) in k and k.endswith("::try_extend")]:
            # an override must digest the same slice it forwards
            for o in outs(ser[ke]):
                evs, ret = split(o)
                if not any(e.endswith("::update(&self.digest, arg2)") for e in evs) or not any("try_extend(&self.flav, arg2)" in e for e in evs):
                    probs.append("try_extend override forwards bytes that the digest does not cover")
        run_.check(not probs, "SX", "ser width %s" % w, probs[0] if probs else "digest covers forwarded bytes; %d LE checksum bytes; inner finalize last" % nb, found=probs)
        # de side
        kfd = "<de::flavors::crc::CrcModifier<B, %s> as Flavor>::finalize" % w
        probs = []
        if kfd in de:
            os_ = outs(de[kfd])
            oks = [o for o in os_ if "=> Result::Ok(" in o["text"]]
            if len(oks) != 1:
                probs.append("expected exactly one outcome Ok(remainder), found %d" % len(oks))
            else:
                o = oks[0]
                evs, ret = split(o)
                if not any("try_take_n(&{self.flav}, %d)" % nb in e for e in evs):
                    probs.append("does not take exactly %d checksum bytes" % nb)
                for c in o["when"]:
                    eq = [l for l in c if l[0] == "lin" and l[2] == [[0, 0]] and ("from_le_bytes::<%s>(" % w) in l[1] and "finalize(self.digest)" in l[1]
                          and "okval(#1)" in l[1]]
                    if not eq:
                        probs.append("Ok(remainder) is not guarded by digest == from_le_bytes(the %d checksum bytes taken)" % nb)
            bad = [o for o in os_ if "DeserializeBadCrc" in o["text"]]
            if len(bad) != 1 or not all(any(l[0] == "lin" and ("from_le_bytes::<%s>(" % w) in l[1] and [0, 0] not in l[2] for l in c) for c in bad[0]["when"]):
                probs.append("checksum mismatch does not return DeserializeBadCrc")
        else:
            probs.append("finalize not found")
        for nm, arg in (("pop", "&{[okval(#1)]}"), ("try_take_n", "okval(#1)")):
            k = "<de::flavors::crc::CrcModifier<B, %s> as Flavor>::%s" % (w, nm)
            if k not in de:
                probs.append("%s not found" % nm)
                continue
            for o in outs(de[k]):
                evs, ret = split(o)
                upd = [e for e in evs if "::update(" in e]
                if ret.startswith("Result::Ok("):
                    if ret != "Result::Ok(okval(#1))" or len(upd) != 1 or not upd[0].endswith("::update(&self.digest, %s)" % arg) or "Flavor>::%s(&self.flav" % nm not in evs[0]:
                        probs.append("%s does not digest exactly the bytes it returns" % nm)
                elif upd:
                    probs.append("%s touches the digest on the error path" % nm)
        run_.check(not probs, "DX", "de width %s" % w, probs[0] if probs else "digest covers consumed bytes; %d-byte LE compare guards Ok" % nb, found=probs)
    run_.floor("SX", 5)
    run_.floor("DX", 5)
    run_.explanation = (
        "With feature use-crc every one of the 5 width instances of the CRC flavors (ser: try_push/finalize, de: "
        "pop/try_take_n/size_hint/finalize) and the 25 wrapper functions are summarised path by path from MIR and compared with the "
        "specified summaries; the checksum loop over the constant to_le_bytes() array is unrolled so each pushed byte is visible as "
        "(crc >> 8k) as u8. Extra semantic checks per width: number and order of checksum bytes, digest argument = forwarded/returned "
        "bytes, Ok(remainder) dominated by the equality, mismatch -> DeserializeBadCrc, wrappers propagate finalize's result with `?`.")
    run_.trusted += ["crc crate Digest semantics", "std to_le_bytes/from_le_bytes", "rustc MIR"]
    run_.assumptions += ["the Flavor trait's default try_extend forwards byte-wise to try_push (checked under C20.D)"]
