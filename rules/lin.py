"""LIN — conjunctions of linear inequalities over opaque atoms; implication by Fourier–Motzkin.

Terms of the path evaluator are linearised (Add/Sub/const-Mul, width-preserving casts, pointer `add`)
into  sum(coef*atom) + const.  Atoms are arbitrary sub-terms (a field's initial value, a slice length,
a pointer's address).  All atoms of unsigned type are >= 0.  `implies(facts, goal)` decides whether the
facts entail the goal over the rationals with integer tightening of strict inequalities, which is sound
for the integer goals we ask (the conclusion holds for all integer models because every integer model
is a rational one).  Used only with dominating guards and declared struct invariants; no joins.
"""
from fractions import Fraction

from sym import is_c, sval, is_signed, INT_BITS

PURE_PTR_FUNCS = ("as_ptr", "as_mut_ptr")


class NonLinear(Exception):
    pass


def atom_of(t):
    """canonical atom for a term: pure accessor calls lose their call id"""
    if isinstance(t, tuple) and t and t[0] == "call":
        key = t[2] or ""
        nm = key.rsplit("::", 1)[-1]
        if nm in PURE_PTR_FUNCS or nm in ("len",):
            # the address of a slice's first element is the same whichever accessor produced it
            return ("pure", "as_ptr" if nm == "as_mut_ptr" else nm, tuple(atom_of(strip_ref(a)) for a in t[3]))
    if isinstance(t, tuple) and t and t[0] == "len":
        return ("pure", "len", (atom_of(strip_ref(t[1])),))
    return t


def strip_ref(t):
    while isinstance(t, tuple) and t and t[0] == "ref" and t[1][0] == "P":
        t = t[1][1]
    return t


def linearize(t):
    """-> (dict atom->Fraction, Fraction const)"""
    k = t[0]
    if k == "c":
        v = sval(t) if is_signed(t[2]) else t[1]
        return {}, Fraction(v)
    if k == "bin":
        op = t[1]
        if op in ("Add", "Sub"):
            a, ca = linearize(t[2])
            b, cb = linearize(t[3])
            s = 1 if op == "Add" else -1
            out = dict(a)
            for x, c in b.items():
                out[x] = out.get(x, 0) + s * c
            return {x: c for x, c in out.items() if c != 0}, ca + s * cb
        if op == "Mul":
            if is_c(t[2]):
                b, cb = linearize(t[3])
                m = Fraction(t[2][1])
                return {x: c * m for x, c in b.items()}, cb * m
            if is_c(t[3]):
                a, ca = linearize(t[2])
                m = Fraction(t[3][1])
                return {x: c * m for x, c in a.items()}, ca * m
    if k == "cast":
        ck = t[1]
        if ck in ("PointerExposeProvenance", "PtrToPtr"):
            return linearize(t[2])
        if ck == "IntToInt":
            fb, tb = INT_BITS.get(t[3]), INT_BITS.get(t[4])
            if fb and tb and tb >= fb and not is_signed(t[3]) and (not is_signed(t[4]) or tb > fb):
                return linearize(t[2])
    if k == "call":
        key = t[2] or ""
        nm = key.rsplit("::", 1)[-1]
        if nm == "add" and ("const_ptr" in key or "mut_ptr" in key) and len(t[3]) == 2 and (t[4] or "").endswith("u8"):
            a, ca = linearize(t[3][0])
            b, cb = linearize(t[3][1])
            out = dict(a)
            for x, c in b.items():
                out[x] = out.get(x, 0) + c
            return out, ca + cb
    return {atom_of(t): Fraction(1)}, Fraction(0)


class Ineq:
    """sum(coef*atom) + const >= 0"""
    __slots__ = ("co", "c")

    def __init__(self, co, c):
        self.co = {a: Fraction(v) for a, v in co.items() if v != 0}
        self.c = Fraction(c)

    def __repr__(self):
        return "%s + %s >= 0" % (" + ".join("%s*%r" % (v, a) for a, v in self.co.items()), self.c)


def ge(a, b):
    """a >= b as Ineq"""
    la, ca = linearize(a)
    lb, cb = linearize(b)
    co = dict(la)
    for x, c in lb.items():
        co[x] = co.get(x, 0) - c
    return Ineq(co, ca - cb)


def gt(a, b):
    i = ge(a, b)
    return Ineq(i.co, i.c - 1)   # integers: a > b  <=>  a - b - 1 >= 0


def cmp_facts(op, a, b, truth):
    """list of Ineq implied by  (a op b) == truth  (integer semantics); Eq -> two, Ne -> none"""
    if not truth:
        op = {"Lt": "Ge", "Le": "Gt", "Gt": "Le", "Ge": "Lt", "Eq": "Ne", "Ne": "Eq"}[op]
    if op == "Ge":
        return [ge(a, b)]
    if op == "Gt":
        return [gt(a, b)]
    if op == "Le":
        return [ge(b, a)]
    if op == "Lt":
        return [gt(b, a)]
    if op == "Eq":
        return [ge(a, b), ge(b, a)]
    return []


def facts_from_pc(pc):
    out = []
    for cond, truth, kind in pc:
        out += facts_of_cond(cond, truth)
    return out


def facts_of_cond(cond, truth):
    if isinstance(truth, tuple):
        return []
    k = cond[0]
    if k == "un" and cond[1] == "Not":
        return facts_of_cond(cond[2], not truth)
    if k == "bin" and cond[1] in ("Eq", "Ne", "Lt", "Le", "Gt", "Ge"):
        aty = _ty(cond[2]) or _ty(cond[3])
        if aty and is_signed(aty):
            return []
        try:
            return cmp_facts(cond[1], cond[2], cond[3], bool(truth))
        except NonLinear:
            return []
    if k == "ovf" and not truth:
        # no overflow of unsigned Sub: a >= b ; of Add/Mul: no linear fact needed
        if cond[1] == "Sub" and not is_signed(cond[4]):
            return [ge(cond[2], cond[3])]
    return []


def _ty(t):
    from bit import term_ty
    try:
        return term_ty(t)
    except Exception:
        return None


def implies(facts, goal, nonneg_atoms=True):
    """facts: list of Ineq ; goal: Ineq.  True iff facts (and atom >= 0) entail goal."""
    # refute: facts and not(goal)  where not(g >= 0) is  -g - 1 >= 0 over integers
    neg = Ineq({a: -v for a, v in goal.co.items()}, -goal.c - 1)
    sys_ = list(facts) + [neg]
    atoms = set()
    for i in sys_:
        atoms |= set(i.co)
    if nonneg_atoms:
        for a in atoms:
            sys_.append(Ineq({a: 1}, 0))
    return not _feasible(sys_, list(atoms))


def _feasible(sys_, atoms):
    """Fourier-Motzkin with a deterministic min-fill elimination order and duplicate removal."""
    def key(i):
        return (tuple(sorted(((repr(a), v) for a, v in i.co.items()))), i.c)

    def dedupe(lst):
        best = {}
        for i in lst:
            # normalise by the smallest-repr atom's coefficient magnitude to merge scalar multiples
            if i.co:
                k0 = min(i.co, key=repr)
                s = abs(i.co[k0])
                co = {a: v / s for a, v in i.co.items()}
                c = i.c / s
            else:
                co, c = {}, i.c
            kk = tuple(sorted((repr(a), v) for a, v in co.items()))
            if kk not in best or c < best[kk][1]:
                best[kk] = (co, c)
        return [Ineq(co, c) for co, c in (best[k] for k in sorted(best))]

    cur = dedupe(sys_)
    remaining = sorted(set(atoms), key=repr)
    while remaining:
        # contradiction already visible?
        for i in cur:
            if not i.co and i.c < 0:
                return False
        def cost(x):
            p = sum(1 for i in cur if i.co.get(x, 0) > 0)
            n = sum(1 for i in cur if i.co.get(x, 0) < 0)
            return (p * n - p - n, repr(x))
        x = min(remaining, key=cost)
        remaining.remove(x)
        pos, neg_, rest = [], [], []
        for i in cur:
            c = i.co.get(x, 0)
            if c > 0:
                pos.append(i)
            elif c < 0:
                neg_.append(i)
            else:
                rest.append(i)
        new = rest
        for p in pos:
            for n in neg_:
                cp, cn = p.co[x], -n.co[x]
                co = {}
                for a, v in p.co.items():
                    if a != x:
                        co[a] = co.get(a, 0) + v * cn
                for a, v in n.co.items():
                    if a != x:
                        co[a] = co.get(a, 0) + v * cp
                new.append(Ineq(co, p.c * cn + n.c * cp))
        cur = dedupe(new)
        if len(cur) > 20000:
            return True  # give up: treat as feasible (cannot prove)
    for i in cur:
        if not i.co and i.c < 0:
            return False
    return True
