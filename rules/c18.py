"""C18 — the dynamic codec is total on untrusted bytes, JSON and schemas.

C18.P  panic sites (PAN) of every function of postcard-dyn: MIR assertions, explicit todo!/unreachable!/panic!, panicking std calls;
       each discharged by a dominating guard (LIN), a length fact (copy_from_slice after take_n(4/8)), RangeFull indexing, or the BIT
       proof of the helper copies (bounded loops, constant shifts).
C18.A  allocation / progress: in the decoder every loop whose trip count is decoded from the input must consume at least one input
       byte per iteration (a reader or take_one/take_n(>=1) call inside the body on every path) or be guarded against the remaining
       length; no allocation may be sized by a value decoded from the input (with_capacity / reserve / vec![x; n]).
C18.R  per schema kind the encoder's wire effects and the decoder's reads follow the same table (C17.W re-evaluated): what one writes
       the other reads back, a necessary condition for decode-after-encode success and re-encode equality.
C18.C  arm coverage agreement: every schema kind for which the encoder has an accepting path has an accepting, non-panicking arm in the
       decoder (necessary for 'what encoding accepts, decoding accepts').
Does not decide re-encode byte equality for all JSON values nor recursion depth.
"""
import re

import dynarms
import grd
import lin
import pan
import summ
import sym
import tbl
from tbl import norm

LEVEL = "other"
MANIFEST = {
    "text": "Static totality check of postcard-dyn: every panic site on every explored path of every function is enumerated and discharged (guards by "
            "linear reasoning, length facts, bit-affine proofs for the helper copies); input-counted decoder loops must make progress and no allocation may be "
            "sized by decoded values; every kind the encoder accepts has a decoder arm; outside std the codec may call only serde_json's shallow Value/Map/Number "
            "operations (a call into any other crate, whose recursion depth / panics / allocation are not established here, fails closed). Reachability of an unimplemented arm or an unguarded index is a "
            "question about all schemas/inputs, decided per arm.",
    "note": "Known finding (listed in known_findings.jsonl): the Seq arm loops `0..len` with an attacker-chosen len and a body that may consume no input "
            "(zero-width element schemas), so time/memory are unbounded in the input length. Trusted: serde_json does not panic; recursion depth unbounded.",
    "technique": "static analysis: panic-site enumeration with LIN/BIT discharge + loop-progress rule + arm-coverage sibling rule + who-may-be-called rule over resolved callees",
}


def discharge_factory(F, helpers):
    def discharge(s):
        fk = summ.fn_key(s.fn)
        e = s.ev
        if s.kind == "call" and "Index>::index(" in s.text and s.text.rstrip(")").endswith("RangeFull"):
            return "RangeFull index of a slice cannot panic"
        if s.kind == "call" and "copy_from_slice" in s.text:
            cp = e.get("copy")
            src = norm(e["args"][1])
            # source = okval(take_n(rest, K)).0 with K == destination length
            if cp and sym.is_c(cp["dst_len"]) and src[0] == "getf" and src[2] == "0" and src[1][0] == "okval" and src[1][1][0] == "call" \
                    and re.search(r"(^|::)take_n$", src[1][1][2] or "") and norm(src[1][1][3][1]) == cp["dst_len"]:
                return "length fact: take_n(%d) returns exactly %d bytes (split_at), destination is a %d-byte array" % ((cp["dst_len"][1],) * 3)
            return None
        if s.kind == "call" and "split_at" in s.text and "take_n" in fk:
            pcn = [(norm(c), t, k) for c, t, k in s.path.pc[:e["pc"]]]
            if grd.prove(pcn, [], lin.ge(("len", norm(e["args"][0])), norm(e["args"][1]))):
                return "guard: self.len() >= n dominates split_at(n) (LIN)"
            return None
        if s.kind == "assert:BoundsCheck":
            pcn = [(norm(c), t, k) for c, t, k in s.path.pc[:e["pc"]]]
            if grd.prove(pcn, [], lin.gt(norm(e["len"]), norm(e["index"]))):
                return "guard: dominating length test implies index < len (LIN)"
            return None
        return None
    return discharge


def check_progress(run_, F, A):
    """C18.A on the decoder"""
    fn = A.fn
    # 1. allocations sized by decoded values
    bad = []
    for p in A.paths:
        for e in tbl.residual_calls(p):
            nm = e["name"] or ""
            if nm in ("with_capacity", "reserve", "reserve_exact", "from_elem", "resize"):
                args = [a for a in e["args"] if any(t[0] == "call" and "try_take_varint" in (t[2] or "") for t in sym.subterms(a))]
                if args:
                    bad.append("%s(%s): capacity taken from a length decoded from the input" % (nm, sym.show(norm(args[0]))[:80]))
    run_.check(not bad, "A", "no input-sized allocation", bad[0] if bad else "no allocation is sized by a decoded value", fn.where(), found=sorted(set(bad))[:3])
    # 2. loops counted by decoded values
    loops = {}
    for arm, ps in A.arms.items():
        for p in ps:
            calls = tbl.residual_calls(p)
            nexts = [e for e in calls if e["key"] == "core::iter::traits::iterator::Iterator::next" and "Range<usize>" in (e["callee"].get("self_ty") or "")]
            if len(nexts) < 2:
                continue
            # trip count: the Range's end at the first next()
            rng = nexts[0]["snap"][0]
            if not (rng and rng[0] == "agg" and rng[1] == "adt" and (rng[2] or "").endswith("::Range")):
                continue
            end = rng[5][1]
            if not any(t[0] == "call" and "try_take_varint" in (t[2] or "") for t in sym.subterms(end)):
                continue
            i0, i1 = calls.index(nexts[0]), calls.index(nexts[1])
            body = calls[i0 + 1:i1]
            consumes = [e for e in body if e["callee"] and e["callee"]["krate"] == "postcard_dyn" and
                        (e["name"] == "take_one" or e["name"].startswith("try_take_varint") or
                         (e["name"] == "take_n" and sym.is_c(norm(e["args"][1])) and norm(e["args"][1])[1] >= 1))]
            loops.setdefault(arm, []).append(bool(consumes))
    for arm, oks in sorted(loops.items()):
        run_.check(all(oks), "A", "loop %s" % arm,
                   "the %s arm iterates a count decoded from the input, but an iteration may consume no input byte "
                   "(zero-width element schema): time and memory are unbounded in the input length" % arm, fn.where(),
                   detail="every iteration reads at least one input byte")
    run_.floor("A", 3)


# the only things the dynamic codec may ask of other crates: serde_json's constant-time / shallow Value, Map and Number operations.  Anything
# else (a generic (de)serializer of another crate, serde_json::to_value / from_value / from_str, ...) may recurse on attacker-chosen depth,
# panic or allocate without a bound this check could state
JSON_OK = {"get", "get_mut", "insert", "iter", "len", "is_empty", "new", "with_capacity", "contains_key", "keys", "values", "from_f64",
           "as_array", "as_bool", "as_f64", "as_i64", "as_object", "as_str", "as_u64", "as_null", "as_number", "is_null", "is_array", "is_object",
           "is_string", "is_number", "is_boolean", "is_u64", "is_i64", "is_f64"}
HOME = ("core", "std", "alloc", "postcard_dyn")


def external_calls(run_, F, dc):
    n = 0
    for f in sorted(dc.fns, key=lambda f: f.canon):
        if "/tests/" in (f.file or "") or "::test" in f.canon or not f.blocks:
            continue
        bad = []
        for b in f.blocks:
            t = b.get("term") or {}
            cal = t.get("callee") if t.get("k") == "call" else None
            if not cal:
                continue
            kr = cal.get("krate")
            rk = (cal.get("resolved") or {}).get("krate")
            nm = cal.get("name")
            if kr == "serde_json" and nm in JSON_OK:
                continue
            if kr in HOME and (rk is None or rk in HOME + ("postcard_schema", "serde_json")):
                continue
            bad.append("%s (line %s)" % (cal.get("full") or cal.get("canon"), t.get("line")))
        key = summ_key(f)
        run_.check(not bad, "X", key, "calls into another crate whose totality on untrusted input (recursion depth, panics, allocation) is not "
                   "established by this check: %s" % ", ".join(bad[:3]), f.where(), found=bad,
                   detail="only std and serde_json's shallow Value/Map/Number operations are called")
        n += 1
    return n


def summ_key(f):
    import summ
    return summ.fn_key(f)


def run(run_, ctx):
    F = ctx.facts("A")
    helpers = ctx.helpers("A")
    dc = F.crate("postcard_dyn")
    run_.configs.append("A")
    run_.bodies += len(dc.fns)
    external_calls(run_, F, dc)
    run_.floor("X", 20)
    import vint
    # ---- P -----------------------------------------------------------------------------------------------------------
    fns = []
    for f in dc.fns:
        if f.dk not in ("Fn", "AssocFn", "Closure"):
            continue
        if f.argc == 0:
            continue  # const helpers are folded at their (inlined) call sites
        if (f.impl_trait or "").endswith(("fmt::Debug", "cmp::PartialEq")):
            continue
        if [g for g in (getattr(f, "generics", None) or []) if not g.startswith("'")] and f.j.get("vis") != "Public" and not f.impl_trait \
                and any(f.canon in ((bb["term"].get("callee") or {}).get("canon"),) for h in dc.fns if h is not f for bb in (h.blocks or [])
                        if bb["term"].get("k") == "call"):
            # a private helper generic over a type: what it can do depends on the instantiation; it is analysed in place in each caller
            # (where the type arguments are known), not on its own with an unknown type
            continue
        helper = vint.writer_sig(f) or (f.name.startswith("try_take_varint_u") and f.name[-1].isdigit()) or \
            (f.argc == 1 and f.locals[1]["ty"] in vint.IW) or (f.argc == 1 and f.locals[1]["ty"] in vint.UW and f.locals[0]["ty"] in vint.IW)
        if helper:
            if vint.writer_sig(f):
                info, why = helpers.writer(f.canon)
            elif f.name.startswith("try_take_varint_u"):
                info, why = helpers.dyn_reader(f.canon, int(f.name.split("_u")[1]))
            elif f.locals[1]["ty"] in vint.IW:
                info, why = helpers.zz_enc(f.canon)
            else:
                info, why = helpers.zz_dec(f.canon)
            run_.check(info is not None, "P", "helper " + f.def_, "helper may panic or loop: %s" % why, f.where(), detail="bounded loop, no feasible panic (BIT)")
            continue
        fns.append(f)
    pan.run_sites(run_, "P", F, fns, discharge_factory(F, helpers), inline=dynarms.inline_policy, max_visits=3)
    for f in fns:
        run_.ok("P", summ.fn_key(f) + " scanned", "all explored paths free of undischarged panic sites", f.where())
    run_.floor("P", 30)
    # ---- A -----------------------------------------------------------------------------------------------------------
    Ade = dynarms.Arms(F, helpers, "de")
    Aser = dynarms.Arms(F, helpers, "ser")
    check_progress(run_, F, Ade)
    # ---- C -----------------------------------------------------------------------------------------------------------
    for arm in sorted(set(Aser.arms) | set(Ade.arms)):
        if arm == "*":
            continue
        s_ok = any(Aser.is_success(p) for p in Aser.arms.get(arm, []))
        d_ok = any(Ade.is_success(p) for p in Ade.arms.get(arm, []))
        d_panic = any(p.status in ("diverge", "panic") for p in Ade.arms.get(arm, []))
        s_panic = any(p.status in ("diverge", "panic") for p in Aser.arms.get(arm, []))
        probs = []
        if s_ok and not d_ok:
            probs.append("the encoder accepts schema kind %s but the decoder has no accepting arm for it" % arm)
        if d_panic or s_panic:
            probs.append("an arm for %s panics" % arm)
        run_.check(not probs, "C", arm, probs[0] if probs else ("both directions handle this kind" if s_ok else "refused by both directions with an error"), Ade.fn.where(), found=probs)
    run_.floor("C", 26)
    # ---- R: what the encoder writes per kind is what the decoder reads per kind (necessary for decode-after-encode and re-encode equality)
    import c17
    c17.check_tables(run_, F, helpers, "R")
    run_.floor("R", 56)
    run_.explanation = (
        "All %d non-helper functions of postcard-dyn are explored on all paths (loops 0..2 iterations) and every MIR assertion, diverging call and panicking std call "
        "is listed and discharged; the 17 helper copies are covered by their BIT proofs. In the decoder, loops whose trip count comes from a decoded varint are located "
        "through the Range they iterate and their bodies must contain a read that consumes at least one byte; allocations sized by decoded values are forbidden; "
        "each schema kind accepted by the encoder must have an accepting decoder arm." % len(fns))
    run_.trusted += ["serde_json (Value, Map, Number) does not panic", "Vec::push / String::from do not panic short of OOM"]
    run_.assumptions += ["recursion depth on deeply nested schemas is not bounded (stack)"]
