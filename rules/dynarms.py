"""Per-arm abstraction of postcard-dyn's two schema-directed walkers (ser::ser_named_type, de::deserialize).

For every match arm (keyed by the OwnedDataModelType variant name, sub-keyed by the OwnedData variant for Struct and by the
payload kind for Enum) and every explored path the ordered *tokens* are extracted from MIR:
   json:<accessor>      serde_json accessor / predicate used on the JSON value            (ser)
   ctor:<Value::X>      serde_json::Value constructor of the returned value                (de)
   W<N> ZZ<N> R<N> UZ<N>  call to a helper *proven by BIT* to be the width-N varint writer / zig-zag / reader / inverse zig-zag
   try_from:<ty> from:<ty> cast:<ty>   integer conversions
   push:<c|byte> extend:<varint|bytes|le<k>>  effects on the output vector                 (ser)
   take1 take:<n|len>  reads from the input                                                (de)
   rec:<schema field path> recursion
   std:<name>           structural std calls (get, zip, find, enumerate, next, from_utf8, insert, ...)
"""
import re

import sym
import tbl
import vint
from c16 import field_path
from tbl import norm

SER_FN = "postcard_dyn::ser::ser_named_type"
DE_FN = "postcard_dyn::de::deserialize"
NOISE = ("deref", "deref_mut", "as_ref", "iter", "into_iter", "as_bytes", "len", "clone", "to_string", "to_owned", "new", "branch",
         "from_residual", "borrow", "as_slice", "is_empty", "index", "eq", "ne", "as_str")
STRUCT = ("get", "zip", "find", "enumerate", "next", "values", "keys", "from_utf8", "insert", "push", "collect", "map", "copied",
          "from_f64", "with_capacity", "reserve", "extend", "extend_from_slice", "split_first", "split_at", "copy_from_slice", "is_null")


# serde_json::Value { Null, Bool, Number, String, Array, Object }; a Number is always followed by the numeric accessor that matters
JSON_KIND_TOKEN = {0: "json:Null?", 1: "json:Bool", 2: None, 3: "json:String", 4: "json:Array", 5: "json:Object"}
ACCESSOR_KIND = {"as_bool": "json:Bool", "as_str": "json:String", "as_array": "json:Array", "as_object": "json:Object", "as_null": "json:Null?"}


def inline_policy(fn, ev):
    """private helpers of the dynamic codec are analysed in place (extracting or inlining one does not change the tokens); the integer
    helpers proven by BIT and the recursive walk itself stay calls"""
    if fn.argc == 0:
        return True
    if fn.crate != "postcard_dyn":
        return False
    if fn.canon in (SER_FN, DE_FN):
        # the walk itself stays a call, except on a schema node *built on the spot* (`&OwnedDataModelType::Tuple(vec.clone())`): then the
        # arm it selects is known and is analysed in place, exactly as if its body had been written out or moved to a helper
        return _built_schema_ev(ev)
    if fn.name == "try_take_varint_usize":
        return True
    return not vint.is_helper(fn) and fn.name not in ("take_one", "take_n")


def _built_schema(a):
    if a is None:
        return False
    while isinstance(a, tuple) and a and a[0] in ("ref", "pref"):
        if a[0] == "pref":
            a = a[1]
        elif a[1][0] == "P":
            a = a[1][1]
        else:
            return False
    return isinstance(a, tuple) and len(a) > 3 and a[0] == "agg" and a[1] == "adt" and str(a[2]).endswith("OwnedDataModelType")


def _built_schema_ev(ev):
    if not ev.get("args"):
        return False
    snap = (ev.get("snap") or [None])[0]
    return _built_schema(ev["args"][0]) or _built_schema(snap)


class Arms:
    def __init__(self, F, helpers, which):
        self.F = F
        self.helpers = helpers
        self.which = which
        dc = F.crate("postcard_dyn")
        self.fn = F.fn_by_canon(SER_FN if which == "ser" else DE_FN)
        if self.fn is None:
            import facts
            raise facts.AnchorError("postcard-dyn walker %s not found" % which)
        sc = F.crate("postcard_schema")
        self.dmt = [v["name"] for v in sc.adts["postcard_schema::schema::owned::OwnedDataModelType"]["variants"]]
        self.dat = [v["name"] for v in sc.adts["postcard_schema::schema::owned::OwnedData"]["variants"]]
        eng = sym.Engine(F, inline=inline_policy, max_visits=3, max_paths=20000, max_steps=40000)
        eng.unfold = lambda fn, ev, st: fn.canon in (SER_FN, DE_FN) and _built_schema_ev(ev)
        eng.discr_events = lambda ty: ty.endswith("serde_json::Value") or ty.endswith("serde_json::value::Value")
        self.paths = [p for p in eng.run(self.fn) if p.status != "infeasible"]
        self.truncated = eng.truncated
        self.arms = {}
        for p in self.paths:
            self.arms.setdefault(self.arm_key(p), []).append(p)

    def arm_key(self, p):
        k = None
        sub = None
        for atom, v in p.tagfacts.items():
            if atom[0] != "tag" or not isinstance(v, int):
                continue
            fp = field_path(atom[1])
            if fp == ("arg1",):
                k = self.dmt[v] if v < len(self.dmt) else "?"
            elif fp[:1] == ("arg1",) and fp[-1:] == ("data",) and "as Struct" in fp:
                sub = self.dat[v] if v < len(self.dat) else "?"
        if k == "Struct" and sub:
            return "Struct/" + sub
        return k or "*"

    def is_success(self, p):
        if p.status != "return":
            return False
        r = p.ret
        if r[0] == "agg" and r[3] == "Ok":
            return True
        # tail recursion: the result of the recursive walk is returned unchanged
        return self.tail_rec(p) is not None

    def tail_rec(self, p):
        r = p.ret
        if r and r[0] == "call" and r[2] in ("ser::ser_named_type", "de::deserialize"):
            return r
        return None

    def tokens(self, p):
        out = []
        for e in p.events:
            if e["k"] == "discr":
                t = self.kind_token(p, e)
            elif e["k"] == "call" and not e.get("modelled") and not e.get("inlined"):
                t = self.token(p, e)
            else:
                t = None
            if t and not (t.startswith("json:") and out and out[-1] == t):
                out.append(t)
        return out

    def kind_token(self, p, e):
        """`match value { Value::String(s) => .. }`: which JSON kind this path requires (same token as the accessor form `as_str()`)"""
        atom, flip = sym.tag_atom(e["d"])
        f = p.tagfacts.get(atom)
        if isinstance(f, int):
            return JSON_KIND_TOKEN.get(f)
        if isinstance(f, tuple) and set(f[1]) == {0}:
            return "json:Null?"
        return None

    def token(self, p, e):
        key = e["key"] or ""
        nm = e["name"] or ""
        c = e["callee"]
        if c is None:
            return "indirect"
        if c["krate"] == "postcard_dyn":
            canon = c["canon"]
            f = self.F.fn_by_canon(canon)
            if canon == SER_FN or canon == DE_FN:
                return "rec:" + "/".join(x.replace("as ", "@") for x in schema_arg_path(e["args"][0]))
            if nm == "take_one":
                return "take1"
            if nm == "take_n":
                n = norm(e["args"][1])
                return "take:%s" % (n[1] if sym.is_c(n) else "len")
            if f is not None:
                if vint.writer_sig(f):
                    info, why = self.helpers.writer(canon)
                    return ("W%d" % info["N"]) if info else "W?(%s)" % nm
                if f.argc == 1 and f.locals[1]["ty"] in vint.IW:
                    info, why = self.helpers.zz_enc(canon)
                    return ("ZZ%d" % info["N"]) if info else "ZZ?(%s)" % nm
                if f.argc == 1 and f.locals[1]["ty"] in vint.UW and f.locals[0]["ty"] in vint.IW:
                    info, why = self.helpers.zz_dec(canon)
                    return ("UZ%d" % info["N"]) if info else "UZ?(%s)" % nm
                m = re.match(r"^std::result::Result<\((u16|u32|u64|u128), &\[u8\]\), de::Error>$", f.locals[0]["ty"])
                if m and f.argc == 1:
                    N = int(m.group(1)[1:])
                    info, why = self.helpers.dyn_reader(canon, N)
                    return ("R%d" % N) if info else "R?(%s)" % nm
            return "local:" + nm
        if "serde_json" in key:
            if nm in ACCESSOR_KIND:
                # the kind test: a token only where the path requires that kind (the accessor returned Some)
                return ACCESSOR_KIND[nm] if p.tagfacts.get(("tag", e["result"])) == 1 else None
            if nm == "is_null":
                return "json:Null?"
            if nm in ("as_i64", "as_u64", "as_f64"):
                return "json:" + nm
            if nm in ("from_f64",):
                return "std:from_f64" + (":" + from_float_le(e["args"][0]) if from_float_le(e["args"][0]) else "")
            if "Map" in key and nm in ("insert", "new", "get", "len", "iter", "values", "keys"):
                return None if nm in ("new", "len", "iter") else "std:map_" + nm
            if nm == "from" and "Number" in (c.get("self_ty") or ""):
                a = c["args"][-1] if c["args"] else "?"
                return "num_from:" + a
            return None if nm in NOISE else "json:" + nm
        tr = c.get("trait") or ""
        if tr.endswith("convert::TryFrom") and nm == "try_from":
            dst = c.get("self_ty") or "?"
            src = (list(c.get("args") or []) + ["?", "?"])[1]
            if _lossless_int(src, dst):
                return None      # the blanket infallible conversion (every source value is a target value): no check happens
            return "try_from:" + dst
        if tr.endswith("convert::From") and nm == "from":
            st = c.get("self_ty") or "?"
            if st == "f64" and list(c.get("args") or [])[-1:] == ["f32"]:
                return None      # lossless widening
            if st in ("f64", "f32"):
                return "from:" + st
            return None      # integer widenings keep the value (and are evaluated by the engine's model)
        if tr.endswith("convert::Into") and nm == "into":
            if list(c.get("args") or []) == ["f32", "f64"]:
                return None      # lossless widening
            return "into:" + (c["args"][-1] if c["args"] else "?")
        if nm in ("to_le_bytes", "from_le_bytes", "to_be_bytes", "from_be_bytes"):
            return "%s:%s" % (nm, c.get("impl_self") or "?")
        if nm == "push" and "Vec" in key:
            if self.which == "ser":
                a = norm(e["args"][1])
                if a[0] == "cast" and a[3] == "bool":
                    return "push:bool"        # `b as u8` / u8::from(b): 0 or 1 by construction
                return "push:%s" % (a[1] if sym.is_c(a) else "byte")
            return "std:push"
        if nm == "extend_from_slice":
            a = e["args"][1]
            while a[0] == "ref" and a[1][0] == "P":
                a = a[1][1]
            kind = "bytes"
            if a[0] == "call":
                ev = tbl.event_by_id(p, a[1])
                if ev and ev["callee"] and ev["callee"]["krate"] == "postcard_dyn":
                    kind = "varint"
                elif ev and ev["name"] == "as_bytes":
                    kind = "str-bytes"
            elif e["args"][1][0] == "ref" and e["args"][1][1][0] == "S":
                lo, hi = e["args"][1][1][2], e["args"][1][1][3]
                if sym.is_c(lo) and sym.is_c(hi):
                    kind = float_le(e["snap"][1] if len(e.get("snap") or []) > 1 else None) or "le%d" % (hi[1] - lo[1])
            return "extend:" + kind
        if nm == "split_first_chunk" and "<impl [T]>" in key:
            # `data.split_first_chunk::<N>()`: the first N bytes and the rest, or None when fewer are left - the std spelling of "take N"
            n = (list(c.get("args") or []) + ["?", "?"])[1]
            return "take:%s" % n
        if nm in NOISE:
            return None
        if nm in STRUCT:
            return "std:" + nm
        if key.startswith("core::panicking") or e["diverges"]:
            return "PANIC"
        return "std:" + nm


def _lossless_int(src, dst):
    w = {"8": 8, "16": 16, "32": 32, "64": 64, "128": 128}
    ms, md = re.match(r"^([iu])(8|16|32|64|128)$", src or ""), re.match(r"^([iu])(8|16|32|64|128)$", dst or "")
    if not ms or not md:
        return src == dst and src in ("usize", "isize")
    (ss, sw), (ds, dw) = (ms.group(1), w[ms.group(2)]), (md.group(1), w[md.group(2)])
    return (ss == ds and dw >= sw) or (ss == "u" and ds == "i" and dw > sw)


def float_le(snap):
    """'f32le' / 'f64le' when the array holds, in order, the little-endian bytes of the IEEE bits of an f32 / f64 value (decided on bit rows)"""
    from bit import Bits, Top
    if not (snap and snap[0] == "agg" and snap[1] == "array" and len(snap[5]) in (4, 8)):
        return None
    n = len(snap[5])
    cands = [t for t in sym.subterms(snap[5][0]) if t[0] == "to_bits"]
    b = Bits()
    for x in cands:
        try:
            rows = b.rows(x)
            if len(rows) != 8 * n:
                continue
            if all(b.equal_rows(b.rows(el), rows[8 * k:8 * k + 8]) for k, el in enumerate(snap[5])):
                y = norm(x[1])
                narrowed = y[0] == "cast" and y[-1] == "f32"
                src = norm(y[2]) if narrowed else y
                # the number itself: the payload of the JSON accessor, nothing computed from it
                plain = src[0] in ("someval", "okval") and src[1][0] == "call" and (src[1][2] or "").endswith("::as_f64")
                if not plain:
                    return None
                if n == 4 and narrowed:
                    return "f32le"
                if n == 8 and not narrowed:
                    return "f64le"
        except Top:
            continue
    return None


def from_float_le(a):
    """'f32le' / 'f64le' when the value is exactly the float whose IEEE bits are the little-endian reading of n consecutive input bytes,
    in order (an f32 may be widened losslessly to f64 on the way; nothing else may happen to it)"""
    t = norm(a)
    for _ in range(4):
        if t[0] == "call" and (t[2] or "").endswith(("convert::Into::into", "convert::From::from")) and len(t[3]) == 1:
            t = norm(t[3][0])          # f64::from(f32) / f32.into(): judged lossless by the caller's token rule (only f32 -> f64 is silent)
        elif t[0] == "cast" and t[1] == "FloatToFloat" and t[-1] == "f64":
            t = norm(t[2])
        else:
            break
    if not (t[0] == "from_bits" and t[1][0] == "from_bytes" and t[1][1] == "le" and t[1][2] in ("u32", "u64")):
        return None
    arr = t[1][3]
    n = 4 if t[1][2] == "u32" else 8
    a2 = norm(arr)
    if a2[0] == "init" and a2[1][0] == "P" and a2[1][1][0] == "getf" and a2[1][1][2] == "0" and a2[1][1][1][0] == "someval" \
            and a2[1][1][1][1][0] == "call" and (a2[1][1][1][1][2] or "").endswith("<impl [T]>::split_first_chunk"):
        # the array is the first chunk of the input as handed out by split_first_chunk::<N> (N is pinned by the `take:N` token of the row)
        return "f32le" if n == 4 else "f64le"
    if not (arr[0] == "agg" and arr[1] == "array" and len(arr[5]) == n):
        return None
    idx = []
    base = set()
    for el in arr[5]:
        el = norm(el)
        if el[0] == "init" and el[1][0] == "I" and sym.is_c(el[1][2]):
            idx.append(el[1][2][1])
            base.add(el[1][1])
        else:
            return None
    if idx == list(range(n)) and len(base) == 1:
        return "f32le" if n == 4 else "f64le"
    return None


def schema_arg_path(a):
    fp = field_path(a)
    return tuple(x for x in fp[1:] if x not in ("0",) or True)


def json_ctor(v, p=None):
    """serde_json::Value constructor of a returned value term"""
    v = norm(v)
    if v[0] == "agg" and v[1] == "adt" and (v[2] or "").endswith("serde_json::value::Value"):
        return v[3]
    if v[0] == "getf" and v[2] == "0" and v[1][0] == "okval" and v[1][1][0] == "call" and v[1][1][2] == "de::deserialize":
        return "rec"
    if v[0] == "call" and p is not None and (v[2] or "").endswith("convert::From::from"):
        e = tbl.event_by_id(p, v[1])
        ga = ((e or {}).get("callee") or {}).get("args") or []
        if len(ga) == 2 and ga[0] in ("serde_json::Value", "serde_json::value::Value"):
            src = ga[1].replace("&", "").strip()
            if src in ("i8", "i16", "i32", "i64", "isize", "u8", "u16", "u32", "u64", "usize", "serde_json::Number", "serde_json::number::Number"):
                return "Number"     # serde_json: From<int> for Value is Value::Number(n.into())
            if src == "bool":
                return "Bool"
            if src in ("std::string::String", "str", "'_ str"):
                return "String"
    return "?" + v[0]
