"""PANLIN — discharge of panic obligations by linear arithmetic over the path's guards, independent of how the code is written.

Every potential panic site of the understood kinds is turned into linear goals:
    overflow of unsigned a + b       ->  a + b <= MAX(ty)
    overflow of unsigned a - b       ->  a >= b
    bounds check  index < len        ->  index + 1 <= len
    slice[lo..hi] / [..hi] / [lo..]  ->  lo <= hi,  hi <= len(slice)
    split_at(_mut)(mid)              ->  mid <= len(slice)
    copy_from_slice(dst, src)        ->  len(dst) == len(src)
and is discharged when the facts that hold at that point of the path entail every goal (Fourier-Motzkin, lin.py).  Facts are
  * the branch conditions taken before the site (comparisons, `!=` sharpened by known orderings, no-overflow facts of earlier passed
    assertions, conjunctions),
  * `len(x) <= isize::MAX` for every slice/array length that occurs (a Rust guarantee),
  * caller-supplied hypotheses: struct invariants and the documented contracts of external calls made earlier on the path.
A goal that is not linear, or a site of another kind, is not discharged here (the caller's other strategies or a violation follow).
"""
import lin
import sym
from sym import C
from tbl import norm

ISIZE_MAX = (1 << 63) - 1
UMAX = {"u8": 255, "u16": 65535, "u32": (1 << 32) - 1, "u64": (1 << 64) - 1, "usize": (1 << 64) - 1, "u128": (1 << 128) - 1}


def _len_of(t):
    return sym.mk_len(norm(t))


def goals_of(e, eng=None, st=None):
    """-> (text of the site, [lin.Ineq...]) or None when the event is not a panic site of a linear kind"""
    k = e["k"]
    if k == "assert":
        kind = e["kind"]
        if kind == "Overflow":
            a, b = norm(e["a"]), norm(e["b"])
            op = e.get("op")
            ty = _ty(a) or _ty(b)
            c = e.get("cond")
            while isinstance(c, tuple) and c and c[0] == "un":
                c = c[2]
            if isinstance(c, tuple) and c and c[0] == "ovf":
                ty = c[4]
            if op == "Sub" and ty in UMAX:
                return [lin.ge(a, b)]
            if op == "Add" and ty in UMAX:
                return [lin.ge(C(UMAX[ty], ty), ("bin", "Add", a, b, ty))]
            if op == "Mul" and ty in UMAX and (sym.is_c(a) or sym.is_c(b)):
                return [lin.ge(C(UMAX[ty], ty), ("bin", "Mul", a, b, ty))]
            return None
        if kind == "BoundsCheck":
            return [lin.gt(norm(e["len"]), norm(e["index"]))]
        return None
    if k == "call":
        key = e["key"] or ""
        rg = e.get("range")
        if rg is not None:
            lo, hi, ln = norm(rg["lo"]), norm(rg["hi"]), norm(rg["len"])
            return [lin.ge(hi, lo), lin.ge(ln, hi)]
        nm = key.rsplit("::", 1)[-1]
        if key.endswith(("Index::index", "IndexMut::index_mut")) and len(e["args"]) == 2:
            x, r = e["args"]
            r = norm(r)
            if r[0] == "agg" and r[1] == "adt":
                ln = _len_of(x)
                bd = sym._range_bounds(r, ln)
                if bd is not None:
                    lo, hi = bd
                    return [lin.ge(hi, lo), lin.ge(ln, hi)]
            return None
        if nm in ("split_at", "split_at_mut") and "<impl [T]>" in key:
            return [lin.ge(_len_of(e["args"][0]), norm(e["args"][1]))]
        if nm == "copy_from_slice" and "<impl [T]>" in key:
            cp = e.get("copy")
            a = norm(cp["dst_len"]) if cp else _len_of(e["args"][0])
            b = norm(cp["src_len"]) if cp else _len_of(e["args"][1])
            return [lin.ge(a, b), lin.ge(b, a)]
    return None


def _ty(t):
    from bit import term_ty
    try:
        return term_ty(t)
    except Exception:
        return None


def cursor_invariants(path, e):
    """start <= cursor <= end for every raw-pointer cursor struct whose fields occur in the site's goal or in the guards (wherever the
    struct lives: a parameter, a field, a value handed back by an opaque call)"""
    terms = [norm(c) for c, _, _ in path.pc]
    for k in ("a", "b", "index", "len"):
        if e.get(k) is not None:
            terms.append(norm(e[k]))
    for a in e.get("args") or []:
        terms.append(norm(a))
    groups = {}
    for t in sym.subterms(tuple(terms)):
        if not t:
            continue
        if t[0] == "getf" and t[2] in ("cursor", "end", "start"):
            groups.setdefault(("g", t[1]), {})[t[2]] = t
        elif t[0] == "init" and t[1][0] == "F" and t[1][2] in ("cursor", "end", "start"):
            groups.setdefault(("i", t[1][1]), {})[t[1][2]] = t
    out = []
    for key, fs in groups.items():
        par = key[1]
        mk = (lambda f: ("getf", par, f)) if key[0] == "g" else (lambda f: ("init", ("F", par, f)))
        cur, end, start = mk("cursor"), mk("end"), mk("start")
        if "cursor" in fs or "end" in fs:
            out.append(lin.ge(end, cur))
        if "start" in fs:
            out.append(lin.ge(cur, start))
    return out


def facts_before(path, e, hyps=()):
    """facts that hold when event e is reached"""
    limit = e.get("pc", len(path.pc))
    facts = list(hyps) + cursor_invariants(path, e)
    nes = []
    lens = set()
    for cond, truth, kind in path.pc[:limit]:
        _cond_facts(norm(cond), truth, facts, nes)
    for t in sym.subterms(tuple(norm(c) for c, _, _ in path.pc[:limit])):
        if t and t[0] == "len":
            lens.add(t)
    for g in (goals_of(e) or []):
        for a in g.co:
            if isinstance(a, tuple) and a and (a[0] == "len" or (a[0] == "pure" and a[1] == "len")):
                lens.add(a)
    for l in lens:
        facts.append(lin.Ineq({lin.atom_of(l) if l[0] != "pure" else l: -1}, ISIZE_MAX))
    for a, b in nes:
        try:
            if lin.implies(facts, lin.ge(b, a)):
                facts.append(lin.gt(b, a))
            elif lin.implies(facts, lin.ge(a, b)):
                facts.append(lin.gt(a, b))
        except Exception:
            pass
    return facts


def _cond_facts(c, truth, facts, nes):
    if isinstance(truth, tuple):
        # integer switch "not in {..}": only `!= 0` of an unsigned is linear
        if 0 in truth[1]:
            nes.append((c, C(0, "usize")))
        return
    while isinstance(c, tuple) and c and (c[0] == "b2i" or (c[0] == "un" and c[1] == "Not")):
        if c[0] == "b2i":
            c = c[1]
        else:
            c, truth = c[2], (not truth)
    if not isinstance(c, tuple) or not c:
        return
    truth = bool(truth)
    if c[0] == "and":
        if truth:
            _cond_facts(c[1], True, facts, nes)
            _cond_facts(c[2], True, facts, nes)
        return
    if c[0] == "bin" and ((c[1] == "Eq" and not truth) or (c[1] == "Ne" and truth)):
        nes.append((c[2], c[3]))
        return
    try:
        facts += lin.facts_of_cond(c, truth)
    except Exception:
        pass


def discharged(path, e, hyps=()):
    """True when every linear goal of the site is entailed; None when the site is not of a linear kind"""
    try:
        gs = goals_of(e)
    except Exception:
        gs = None
    if gs is None:
        return None
    try:
        facts = facts_before(path, e, hyps)
        facts = [_canon(f) for f in facts]
        return all(lin.implies(facts, _canon(g)) for g in gs)
    except Exception:
        return False


def _canon(ineq):
    co = {}
    for a, v in ineq.co.items():
        k = lin.atom_of(norm(a)) if isinstance(a, tuple) and a and a[0] != "pure" else a
        co[k] = co.get(k, 0) + v
    return lin.Ineq(co, ineq.c)
