"""C13 — fixed-width integer adapters emit exactly size_of bytes in the chosen byte order.

C13.S/D  each of the 32 macro-generated impls (LE/BE x 8 integer types x Serialize/Deserialize) and the four
         `with`-module functions has the specified summary: Serialize = `<[u8; size_of] as Serialize>::serialize`
         of `to_le_bytes`/`to_be_bytes` of self.0 (modelled byte-exactly: byte k = (v >> 8k) as u8, reversed for BE);
         Deserialize = `<[u8; size_of] as Deserialize>` mapped through `from_le_bytes`/`from_be_bytes` then the wrapper.
C13.X    per type: the byte order used by Serialize equals the one used by Deserialize; LE and BE differ; no varint path.
"""
import re

import glue
import summ
import summ2
from glueprops import run_groups

LEVEL = "proof"
MANIFEST = {
    "text": "Complete static check of all 32 LE/BE impls and 4 module functions: the serialized value is the [u8; size_of] "
            "array whose k-th element is the k-th little-/big-endian byte of the integer (bit-exact term), handed to serde's "
            "array impl; deserialisation applies the matching from_*_bytes. With C02 (tuple -> nothing, u8 -> raw byte) the wire "
            "bytes are exactly the integer's bytes in the chosen order for all values; those C02/C03 cells (tuple, u8, element) and the storage "
            "summaries are re-decided under this property (rules U, ST). Obligations are enumerated from the "
            "macro instances present in MIR, so the level is proof relative to the trusted base.",
    "note": "Trusted: std to/from_{le,be}_bytes semantics (modelled), serde's [u8; N] Serialize/Deserialize = tuple of N u8.",
    "technique": "static analysis: semantic MIR summaries of all macro instances (byte-order functions modelled byte-exactly) + sibling cross-check",
}

TYPES = ["i16", "i32", "i64", "i128", "u16", "u32", "u64", "u128"]
SIZE = {"i16": 2, "u16": 2, "i32": 4, "u32": 4, "i64": 8, "u64": 8, "i128": 16, "u128": 16}


def run(run_, ctx):
    n = run_groups(run_, ctx, [("SD", "fixint", None, "fixed-width adapter")])
    run_.floor("SD", 36)
    F = ctx.facts("A")
    pc = F.crate("postcard")
    # C13.X semantic cross-check on the summaries actually found in the tree (not on the expectation file)
    fns = {summ.fn_key(f): f for f in glue.fns_of_group(pc, "fixint")}
    fns_spec = glue.load2("A").get("fixint", {})
    for t in TYPES:
        for order in ("LE", "BE"):
            ks = [(fns[k], None) for k in fns if k.startswith("<fixint::%s<%s> as " % (order, t)) and k.endswith("::serialize")]
            kd = [(fns[k], None) for k in fns if k.startswith("<fixint::%s<%s> as " % (order, t)) and k.endswith("::deserialize")]
            # one generic impl for the wrapper serves every integer type: judged at this type
            if not ks:
                ks = [x for x in [glue.generic_instance(pc, "<fixint::%s<%s> as Serialize>::serialize" % (order, t), fns_spec)] if x[0] is not None]
            if not kd:
                kd = [x for x in [glue.generic_instance(pc, "<fixint::%s<%s> as Deserialize>::deserialize" % (order, t), fns_spec)] if x[0] is not None]
            key = "%s<%s>" % (order, t)
            if len(ks) != 1 or len(kd) != 1:
                run_.bad("X", key, "expected exactly one Serialize and one Deserialize impl, found %d/%d" % (len(ks), len(kd)))
                continue
            ren = glue.renames(F, pc, glue.load2("A"))
            so = summ2.summarize(F, ks[0][0], renames=ren, root_subst=ks[0][1])["outcomes"]
            do = summ2.summarize(F, kd[0][0], renames=ren, root_subst=kd[0][1])["outcomes"]
            ls = " ".join(o["text"] for o in so)
            ld = " ".join(o["text"] for o in do)
            probs = []
            nb = SIZE[t]
            # the array handed to serde, element by element: byte k of the value, in wrapper order
            exp = ["(self.0 as u8)" if nb > 1 else "self.0"] + ["(Shr(self.0, %d) as u8)" % (8 * k) for k in range(1, nb)]
            if t == "i8" or (nb == 1 and t.startswith("i")):
                exp = ["(self.0 as u8)"]
            if order == "BE":
                exp = exp[::-1]
            want_call = "#1 = <[u8; %d] as Serialize>::serialize(&{[%s]}, arg2)" % (nb, ", ".join(exp))
            for o in so:
                if not o["text"].startswith(want_call + " => "):
                    probs.append("Serialize does not hand the %d %s bytes of the value, in order, to serde's [u8; %d] impl (does: %s)" % (nb, order, nb, o["text"][:200]))
                    break
            oks = [o for o in do if "=> Result::Ok(" in o["text"]]
            want_ok = "#1 = <[u8; %d] as Deserialize>::deserialize(arg1) => Result::Ok(%s(from_%s_bytes::<%s>(okval(#1))))" % (nb, order, order.lower(), t)
            if len(oks) != 1 or oks[0]["text"] != want_ok:
                probs.append("Deserialize does not rebuild the integer with %s::from_%s_bytes from a [u8; %d] (does: %s)" % (t, order.lower(), nb, [o["text"][:200] for o in oks]))
            if re.search(r"serialize_[ui](16|32|64|128)|varint", ls + ld):
                probs.append("a varint path is reachable")
            run_.check(not probs, "X", key, probs[0] if probs else "ser/de agree on %s order, %d bytes" % (order, nb),
                       ks[0][0].where(), found=probs)
    run_.floor("X", 16)
    # the `with` modules use the matching wrapper
    for mod, wrap in (("le", "LE"), ("be", "BE")):
        for fnm in ("serialize", "deserialize"):
            k = "fixint::%s::%s" % (mod, fnm)
            f = fns.get(k)
            if f is None:
                run_.bad("W", k, "module function not found")
                continue
            # the wrapper's own impl is judged above; here only *which* wrapper the module function goes through
            l = " ".join(o["text"] for o in summ2.summarize(F, f, inline=lambda g, ev: summ2.inline_local(g, ev) and not
                                                             re.match(r"^fixint::(LE|BE)<", g.impl_self or ""))["outcomes"])
            run_.check(("fixint::%s<T>" % wrap) in l and ("fixint::%s<T>" % ("BE" if wrap == "LE" else "LE")) not in l,
                       "W", k, "`%s` module must go through the %s wrapper" % (mod, wrap), f.where(), found=l)
    run_.floor("W", 4)
    # C13.U / C13.ST: "exactly size_of bytes in the chosen order" needs, besides the adapters, that postcard writes/reads serde's `[u8; N]`
    # (a tuple of N u8) as N raw bytes and nothing else, and that storage keeps those bytes: the tuple / u8 cells of the wire-format tables
    # (C02/C03) and the storage summaries are re-run under this property (as C11.U / C20.U do for theirs)
    import c02
    import c03
    from c20 import _Sub
    helpers = ctx.helpers("A")
    sub = _Sub(run_, "U")
    CELLS_SER = {"serialize_tuple", "serialize_u8"}
    CELLS_DE = {"deserialize_tuple", "deserialize_u8", "next_element_seed"}
    for f in sorted(pc.fns, key=lambda f: (f.impl_self or "", f.impl_trait or "", f.name)):
        if f.dk != "AssocFn":
            continue
        sf = f.impl_self or ""
        if sf == c02.SELF_TY and ((f.impl_trait == c02.SER_TRAIT and f.name in CELLS_SER) or f.impl_trait == "serde_core::ser::SerializeTuple"):
            c02.check_method(sub, F, helpers, f)
        if (c03.is_deser_self(sf) and f.impl_trait == c03.DE_TRAIT and f.name in CELLS_DE) or \
                (c03.is_access_impl(f, ("SeqAccess",)) and f.name in CELLS_DE):
            c03.check_method(sub, F, helpers, f)
    run_.floor("U", 7)
    run_groups(run_, ctx, [
        ("ST", "ser_slice", lambda k: "Index" not in k, "slice storage"),
        ("ST", "ser_storage", lambda k: "Index" not in k and "Size" not in k, "vector/extend storage"),
        ("ST", "ser_writer", None, "writer storage"),
        ("ST", "de_slice", None, "slice source"),
        ("ST", "de_reader", None, "reader source"),
    ])
    run_.floor("ST", 30)
    run_.explanation = (
        "All 36 functions of postcard::fixint are summarised path by path from MIR; to_le_bytes/to_be_bytes are modelled "
        "byte-exactly so the array handed to serde is visible as [(v as u8), (v>>8 as u8), ...] (reversed for BE). Each macro "
        "instance is compared with its specified summary and cross-checked semantically: array length = size_of, order matches "
        "the wrapper, Serialize and Deserialize of one wrapper use the same order, no varint serializer method is reachable.")
    run_.trusted += ["std integer byte-order functions", "serde array impls", "rustc MIR"]
