"""C15 — borrowed and owned schemas are the same thing on the wire.

C15.A  declarations (ADT facts): DataModelType ~ OwnedDataModelType, Data ~ OwnedData, NamedField ~ OwnedNamedField,
       Variant ~ OwnedVariant: same variants in the same order with the same names and constructor kinds, same field
       names in the same order, field types related only by serde-transparent wrappers
       (&'static X ~ Box<X'> ~ X', &'static [&'static X] ~ Box<[X']>, &'static str ~ Box<str>).
C15.S  derived code agrees (serde_derive output read from MIR): the eight derived Serialize bodies emit, arm by arm, the same
       Serializer call kind, variant index, variant name and ordered field names on both sides (this also catches a
       representation-changing serde attribute on one side); the owned side's derived Deserialize uses the same
       variant/field name tables (VARIANTS / FIELDS).
C15.F  conversion (the four From impls): in the arm for source variant k the value built is the variant with the same name
       (and index) of the owned type and its i-th field derives from the same-named field of the matched source variant through
       into / Box::new / iter().map(into).collect() only.
"""
import re

import summ
import sym
import tbl
from tbl import norm

LEVEL = "proof"
MANIFEST = {
    "text": "Complete static comparison: the two parallel declaration families are compared variant by variant and field by field from the "
            "compiler's ADT tables; the serde-derived Serialize bodies of both families are read from MIR and compared arm by arm (call kind, "
            "index, names, field order); the hand-written 26+4+1+1-arm conversion is checked arm by arm for kind and field provenance. All "
            "26+4+2+2 items are obligations, so a swap of two adjacent variants or fields anywhere is a violation whether or not a sample hits it. "
            "Every clause is decided in the workspace configuration (use-std) and in the alloc-only configuration of postcard-schema, whose feature-gated "
            "siblings no test compiles.",
    "note": "Trusted: serde_derive's generated code means what its Serializer calls say; postcard encodes those calls per C02 (index as varint, fields in call order).",
    "technique": "static analysis: ADT table comparison + sibling agreement of derive-generated MIR + per-arm provenance check of every fn(&Borrowed) -> Owned conversion",
}

PAIRS = [("DataModelType", "OwnedDataModelType"), ("Data", "OwnedData"), ("NamedField", "OwnedNamedField"), ("Variant", "OwnedVariant")]


def norm_ty(t):
    # one name per std item whichever facade the configuration names it through (`alloc::boxed::Box` without std)
    t = re.sub(r"(?<![\w:])(?:\w+::)+alloc::(?=(string|vec|collections|boxed|borrow)::)", "alloc::", t)
    t = re.sub(r"(?<![\w:])(core|alloc)::(?=(num|option|result|ops|string|vec|collections|boxed|borrow|marker)::)", "std::", t)
    t = t.replace("&'static ", "").replace("&", "")
    while True:
        m = re.search(r"std::boxed::Box<([^<>]*(?:<[^<>]*>)?[^<>]*)>", t)
        if not m:
            break
        t = t[:m.start()] + m.group(1) + t[m.end():]
    t = t.replace("schema::owned::Owned", "").replace("schema::", "")
    t = t.replace("Self", "DataModelType")
    return t.strip()


def adt(sc, name, owned):
    canon = "postcard_schema::schema::%s%s" % ("owned::" if owned else "", name)
    return sc.adts.get(canon)


def ser_arms(F, f):
    """-> {index or None: (method, type_name, variant_name, [(field name, field type)])} from the all-success paths"""
    eng = sym.Engine(F, max_visits=2)
    arms = {}
    for p in eng.run(f):
        if p.status != "return":
            continue
        evs = tbl.residual_calls(p)
        if any(p.tagfacts.get(("tag", e["result"])) == 1 for e in evs):
            continue
        if not evs:
            continue
        head = evs[0]
        m = head["name"]
        if not m.startswith("serialize_"):
            continue
        args = head["args"]
        strs = [a[1] for a in args if isinstance(a, tuple) and a[0] == "str"]
        ints = [a[1] for a in args if sym.is_c(a) and a[2] == "u32"]
        idx = ints[0] if ints else None
        tname = strs[0] if strs else None
        vname = strs[1] if len(strs) > 1 else None
        fields = []
        if m in ("serialize_newtype_variant", "serialize_newtype_struct"):
            fields.append(("0", (head["callee"]["args"] or ["?"])[-1]))
        for e in evs[1:]:
            if e["name"] == "serialize_field":
                nm = [a[1] for a in e["args"] if isinstance(a, tuple) and a[0] == "str"]
                fields.append((nm[0] if nm else str(len(fields)), (e["callee"]["args"] or ["?"])[-1]))
        arms[idx] = (m, tname, vname, fields)
    return arms


class _Cfg:
    """the same clauses in another build configuration: keys carry the configuration, floors are per configuration"""

    def __init__(self, run_, cfg):
        self.run_, self.cfg = run_, cfg
        self.counts = {}

    def _k(self, key):
        return "%s [%s]" % (key, self.cfg)

    def ok(self, rule, key, detail="", site=None, method=None):
        self.counts[rule] = self.counts.get(rule, 0) + 1
        return self.run_.ok(rule + self.cfg, self._k(key), detail, site, method)

    def bad(self, rule, key, what, site=None, expected=None, found=None):
        return self.run_.bad(rule + self.cfg, self._k(key), what, site, expected, found)

    def check(self, cond, rule, key, what, site=None, expected=None, found=None, detail=""):
        if cond:
            return self.ok(rule, key, detail or what, site)
        return self.bad(rule, key, what, site, expected, found)

    def floor(self, rule, n):
        return self.run_.floor(rule + self.cfg, n)

    def note(self, msg):
        if hasattr(self.run_, "note"):
            self.run_.note("[%s] %s" % (self.cfg, msg))


def run(run_, ctx):
    run_config(run_, ctx.facts("A"))
    run_.configs.append("A")
    # the owned family and its conversions are feature-gated (`use-std` / `alloc`): the alloc-only build is a configuration of its own
    # (the workspace build unifies `use-std` in, so no test ever compiles it)
    try:
        FC = ctx.facts("C")
    except Exception as e:
        run_.bad("AC", "configuration C", "the alloc-only configuration of postcard-schema could not be analysed: %s" % e)
        FC = None
    if FC is not None:
        run_.configs.append("C")
        run_config(_Cfg(run_, "C"), FC)
    run_.explanation = (
        "ADT tables of the four declaration pairs are compared variant-by-variant (names, order, constructor kind, field names/order, types modulo "
        "transparent wrappers). The eight serde-derived Serialize bodies are explored from MIR: per enum arm / struct the Serializer method, variant index, "
        "variant name and ordered field names with their value types must agree between the borrowed and owned family, and indices follow declaration order. "
        "The generated (de)serialisation of the owned family may call only generated code and other crates (no hand-written hook). "
        "Each arm of every conversion fn(&Borrowed) -> Owned (the From impls and whatever they forward to; constructor helpers are analysed in place) must build "
        "the same-named variant and fill each field from the same-named source field through conversions/Box::new/iter().map(conversion).collect() only. "
        "All clauses are decided twice: in the workspace configuration (use-std) and in the alloc-only configuration of postcard-schema.")
    run_.trusted += ["serde_derive", "postcard wire encoding of the Serializer calls (C02)"]


def run_config(run_, F):
    sc = F.crate("postcard_schema")
    if hasattr(run_, "bodies"):
        run_.bodies += len(sc.fns)
    # ---- A ------------------------------------------------------------------------------------------------
    for b, o in PAIRS:
        ab, ao = adt(sc, b, False), adt(sc, o, True)
        if not ab or not ao:
            run_.bad("A", b, "declaration not found (%s / %s)" % (b, o))
            continue
        vb, vo = ab["variants"], ao["variants"]
        if len(vb) != len(vo):
            run_.bad("A", b, "%s has %d variants, %s has %d" % (b, len(vb), o, len(vo)), ab.get("file"))
        for i in range(max(len(vb), len(vo))):
            x = vb[i] if i < len(vb) else None
            y = vo[i] if i < len(vo) else None
            key = "%s#%d %s" % (b, i, (x or y)["name"])
            site = "%s:%s" % (ab.get("file"), ab.get("line"))
            if x is None or y is None:
                run_.bad("A", key, "variant exists on one side only", site)
                continue
            probs = []
            if ab["kind"] == "Enum" and x["name"] != y["name"]:
                probs.append("variant #%d is %s in %s but %s in %s (order or name differs)" % (i, x["name"], b, y["name"], o))
            if x["ctor"] != y["ctor"]:
                probs.append("constructor kind differs (%s vs %s)" % (x["ctor"], y["ctor"]))
            fx = [(f["name"], norm_ty(f["ty"])) for f in x["fields"]]
            fy = [(f["name"], norm_ty(f["ty"])) for f in y["fields"]]
            if [n for n, _ in fx] != [n for n, _ in fy]:
                probs.append("field names/order differ: %s vs %s" % ([n for n, _ in fx], [n for n, _ in fy]))
            elif fx != fy:
                probs.append("field types are not related by transparent wrappers: %s vs %s" % (fx, fy))
            run_.check(not probs, "A", key, probs[0] if probs else "same name, position, constructor kind and fields", site, found=probs)
    run_.floor("A", 32)
    # ---- S ------------------------------------------------------------------------------------------------
    sers = {}
    for f in sc.fns:
        if f.name == "serialize" and f.impl_trait == "serde_core::ser::Serialize":
            s = f.impl_self or ""
            for b, o in PAIRS:
                if s == "schema::" + b:
                    sers[(b, False)] = f
                if s == "schema::owned::" + o:
                    sers[(b, True)] = f
    for b, o in PAIRS:
        fb, fo = sers.get((b, False)), sers.get((b, True))
        if not fb or not fo:
            run_.bad("S", b, "derived Serialize impl not found for %s / %s" % (b, o))
            continue
        ab_, ao_ = ser_arms(F, fb), ser_arms(F, fo)
        for idx in sorted(set(ab_) | set(ao_), key=lambda x: (-1 if x is None else x)):
            x, y = ab_.get(idx), ao_.get(idx)
            key = "%s arm %s" % (b, idx if idx is not None else "struct")
            if x is None or y is None:
                run_.bad("S", key, "Serialize arm present on one side only", fb.where())
                continue
            probs = []
            if x[0] != y[0]:
                probs.append("different Serializer call: %s vs %s" % (x[0], y[0]))
            if x[2] != y[2]:
                probs.append("variant name differs: %s vs %s" % (x[2], y[2]))
            nx, ny = [n for n, _ in x[3]], [n for n, _ in y[3]]
            if nx != ny:
                probs.append("fields are emitted in a different order / under different names: %s vs %s" % (nx, ny))
            tx, ty = [norm_ty(t) for _, t in x[3]], [norm_ty(t) for _, t in y[3]]
            if not probs and tx != ty:
                probs.append("field value types differ beyond transparent wrappers: %s vs %s" % (tx, ty))
            run_.check(not probs, "S", key, probs[0] if probs else "%s(%s) with fields %s on both sides" % (x[0], x[2] or x[1], nx), fb.where(), found=probs)
        # variant numbering equals declaration order
        ab = adt(sc, b, False)
        if ab["kind"] == "Enum":
            okn = all(ab_.get(v["idx"], (None, None, None))[2] == v["name"] for v in ab["variants"])
            run_.check(okn, "S", b + " indices", "derived variant indices do not follow declaration order", fb.where(),
                       detail="variant index k = k-th declared variant")
    run_.floor("S", 34)
    # owned Deserialize name tables
    for b, o in PAIRS:
        ao = adt(sc, o, True)
        want = [v["name"] for v in ao["variants"]] if ao["kind"] == "Enum" else [f["name"] for f in ao["variants"][0]["fields"]]
        tables = []
        for c in sc.consts:
            if c["name"] in ("VARIANTS", "FIELDS") and "owned" in c["def"] and c["hir"]:
                names = hir_strs(c["hir"])
                tables.append((c["def"], names))
        hit = [n for d, n in tables if n == want]
        run_.check(bool(hit), "S", o + " Deserialize names", "derived Deserialize of %s has no VARIANTS/FIELDS table equal to %s" % (o, want),
                   detail="Deserialize name table = Serialize names")
    # the derived Deserialize of the owned family must be plain derive output: a custom hook (`deserialize_with`, `default = "path"`, ...)
    # could reject or alter what the borrowed family writes.  Generated items live in anonymous consts (`_#n`); they may only call each other
    # and other crates.
    gen = [f for f in sc.fns if re.search(r"::owned::_#\d+::", f.canon) or "::owned::_::" in f.canon]
    hooks = set()
    for f in gen:
        for b in f.blocks or []:
            t = b.get("term") or {}
            cal = t.get("callee") if t.get("k") == "call" else None
            if not cal or cal.get("krate") != "postcard_schema":
                continue
            for cn in (cal.get("canon"), (cal.get("resolved") or {}).get("canon")):
                g = sc.by_canon.get(cn) if cn else None
                if g is not None and not re.search(r"::_(#\d+)?::", g.canon) and (g.impl_trait or "").split("::")[-1] not in ("Deserialize", "Serialize", "Clone", "Default"):
                    hooks.add((f.canon.split("::deserialize")[0], g.def_))
    run_.check(bool(gen) and not hooks, "S", "owned Deserialize is plain derive output",
               "derive-generated (de)serialisation of the owned schema calls hand-written code: %s" % sorted(hooks)[:3] if hooks else "generated impls not found",
               detail="%d generated functions call only generated code and other crates" % len(gen))
    # ---- F ------------------------------------------------------------------------------------------------
    for b, o in PAIRS:
        fs = [f for f in sc.fns if f.name == "from" and f.impl_trait == "core::convert::From" and (f.impl_self or "") == "schema::owned::" + o]
        if len(fs) != 1:
            run_.bad("F", o, "conversion From<&%s> for %s not found" % (b, o))
            continue
        check_from(run_, F, sc, fs[0], b, o)
    run_.floor("F", 32)


def hir_strs(h):
    out = []

    def rec(x):
        if isinstance(x, dict):
            if x.get("k") == "lit" and "str" in x:
                out.append(x["str"])
            for v in x.values():
                rec(v)
        elif isinstance(x, list):
            for v in x:
                rec(v)
    rec(h)
    return out


def conversions(sc, F=None):
    """the conversion functions borrowed-declaration -> owned twin: the `From` impls, and any function with that signature a conversion
    merely forwards its argument to (e.g. an inherent `from_borrowed`).  Other functions of that signature (constructor helpers for one
    variant) are private helpers and are analysed in place.  {canon: (borrowed, owned)}"""
    cand = {}
    for g in sc.fns:
        if "{closure" in g.canon or len(g.locals) < 2 or getattr(g, "argc", 1) != 1:
            continue
        ret, a1 = g.locals[0]["ty"], g.locals[1]["ty"]
        for b, o in PAIRS:
            if ret == "schema::owned::" + o and re.match(r"^&('\w+ )?schema::%s$" % b, a1):
                cand[g.canon] = (b, o)
    out = {cn: bo for cn, bo in cand.items() if (sc.by_canon[cn].impl_trait or "") in ("core::convert::From", "core::convert::Into")}
    if F is None:
        return out
    work = list(out)
    while work:
        f = sc.by_canon[work.pop()]
        ps = [p for p in sym.Engine(F, max_visits=2, inline=lambda g, ev: False).run(f) if p.status == "return"]
        if len(ps) != 1 or ps[0].ret[0] != "call" or ps[0].pc:
            continue
        e = tbl.event_by_id(ps[0], ps[0].ret[1])
        cal = (e or {}).get("callee") or {}
        src = ("param", 1, f.locals[1]["ty"])
        for cn in (cal.get("canon"), (cal.get("resolved") or {}).get("canon")):       # (a method of a private trait resolves to its impl)
            if cn in cand and cn not in out and cand[cn] == out[f.canon] and len(e["args"]) == 1 and norm(e["args"][0]) in (src, ("init", ("P", src)), ("ref", ("P", src))):
                out[cn] = cand[cn]
                work.append(cn)
    # a conversion that is a method of a local (private) trait is also known by the trait-level name generic code calls it through
    # (`items.iter().map(|i| i.to_owned_schema())` in an impl for `[&T]`), provided *every* impl of that method is a conversion or a
    # structure-preserving container impl judged where it is used
    for cn in list(out):
        g = sc.by_canon[cn]
        tr = g.impl_trait or ""
        if tr.startswith("postcard_schema::") and g.j.get("impl_trait_reachable") is False:
            out.setdefault("%s::%s" % (tr, g.name), out[cn])
    return out


def check_from(run_, F, sc, f, b, o, chain=()):
    ab, ao = adt(sc, b, False), adt(sc, o, True)
    convs = conversions(sc, F)
    # private helpers are analysed in place; the conversions themselves (any fn(&Borrowed) -> Owned) stay calls and are judged one by one
    eng = sym.Engine(F, max_visits=2, max_depth=8,
                     inline=lambda g, ev: g.crate == "postcard_schema" and g.canon not in convs and "{closure" not in g.canon)
    paths = [p for p in eng.run(f) if p.status == "return"]
    src = ("param", 1, f.locals[1]["ty"])
    # a conversion that only forwards its argument to another conversion of the same pair is judged through that one
    if len(paths) == 1 and paths[0].ret[0] == "call" and not paths[0].pc:
        e = tbl.event_by_id(paths[0], paths[0].ret[1])
        cal_ = (e.get("callee") or {}) if e else {}
        g = (F.fn_by_canon((cal_.get("resolved") or {}).get("canon") or "") or F.fn_by_canon(cal_.get("canon") or "")) if e else None
        if g is not None and convs.get(g.canon) == (b, o) and g.canon not in chain and g is not f \
                and len(e["args"]) == 1 and norm(e["args"][0]) in (src, ("init", ("P", src)), ("ref", ("P", src))):
            run_.note("F: %s forwards to %s" % (f.canon, g.canon)) if hasattr(run_, "note") else None
            return check_from(run_, F, sc, g, b, o, chain + (f.canon,))
    seen = set()
    for p in paths:
        if ab["kind"] == "Enum":
            k = p.tagfacts.get(("tag", ("init", ("P", src))))
            if isinstance(k, tuple) and k and k[0] == "not":
                # a chain of `if let` tests that all failed: the one variant that is left
                rest = sorted(set(range(len(ab["variants"]))) - set(k[1]))
                if len(rest) == 1:
                    k = rest[0]
            if not isinstance(k, int):
                run_.bad("F", "%s arm ?" % o, "a path does not dispatch on the source variant", f.where())
                continue
            sv = ab["variants"][k]
        else:
            k = 0
            sv = ab["variants"][0]
        seen.add(k)
        key = "%s <- %s::%s" % (o, b, sv["name"])
        r = p.ret
        probs = []
        if not (r[0] == "agg" and r[1] == "adt" and r[2].endswith("::" + o)):
            probs.append("does not build a %s" % o)
        else:
            if ab["kind"] == "Enum" and (r[3] != sv["name"] or r[6] != k):
                probs.append("source variant %s (#%d) is converted to %s (#%d)" % (sv["name"], k, r[3], r[6]))
            names = list(r[4] or [])
            want = [fl["name"] for fl in sv["fields"]]
            if names != want:
                probs.append("fields %s built from a variant with fields %s" % (names, want))
            else:
                for nm, v in zip(names, r[5]):
                    root, why = provenance(F, sc, p, v, convs=convs)
                    base = ("D", ("P", src), sv["name"]) if ab["kind"] == "Enum" else ("P", src)
                    if why and unit_shortcut(sc, p, v, ("F", base, nm), [fl["ty"] for fl in sv["fields"] if fl["name"] == nm]):
                        # `match &src.f { B::Unit => Owned::Unit, other => other.into() }`: on the path where the source field is known to be
                        # the payload-free variant X, building the owned X directly is what the field's conversion does (its own rule F)
                        continue
                    if why:
                        probs.append("field %s: %s" % (nm, why))
                    elif root != ("F", base, nm):
                        probs.append("field %s is filled from %s, expected the source's field %s" % (nm, sym.show_loc(root) if root else "?", nm))
        run_.check(not probs, "F", key, probs[0] if probs else "same variant; fields converted one-to-one", f.where(), found=probs)
    missing = set(range(len(ab["variants"]))) - seen if ab["kind"] == "Enum" else set()
    for k in sorted(missing):
        run_.bad("F", "%s <- %s::%s" % (o, b, ab["variants"][k]["name"]), "no conversion arm for this variant", f.where())


def unit_shortcut(sc, p, v, floc, ftys):
    v = norm(v)
    if not (v[0] == "agg" and v[1] == "adt" and not v[5] and ftys):
        return False
    bty = re.sub(r"^&('\w+ )?", "", ftys[0]).split("<")[0].split("::")[-1]
    ab = adt(sc, bty, False)
    if not ab or ab["kind"] != "Enum" or not v[2].endswith("::Owned" + bty):
        return False
    idx = [x["idx"] for x in ab["variants"] if x["name"] == v[3] and not x["fields"]]
    if len(idx) != 1:
        return False
    for atom, val in p.tagfacts.items():
        if atom[0] != "tag":
            continue
        a = norm(atom[1])
        if a in (("init", floc), ("ref", floc)) or (a[0] == "init" and a[1][0] == "P" and norm(a[1][1]) in (("ref", floc), ("init", floc))):
            return val == idx[0]
    return False


ALLOWED = ("Into::into", "From::from", "Box::<T>::new", "Iterator::map", "Iterator::collect", "<impl [T]>::iter", "IntoIterator::into_iter", "Iterator::copied",
           "Iterator::cloned", "Vec::<T, A>::into_boxed_slice", "Vec::<T>::into_boxed_slice")      # same elements, same order


def provenance(F, sc, p, v, depth=0, convs=()):
    """-> (source location, None) or (None, reason)"""
    v = norm(v)
    if depth > 8:
        return None, "conversion chain too deep"
    if v[0] == "init":
        return v[1], None
    if v[0] == "ref":
        return v[1], None
    if v[0] == "call":
        e = tbl.event_by_id(p, v[1])
        key = v[2] or ""
        canon = ((e or {}).get("callee") or {}).get("canon")
        # an argument that is a reference to a *local copy* of a source field (`match *src { X { data, .. } => (&data).into() }` on a Copy
        # type) is, for provenance, that source field: the snapshot taken at the call says what the local held
        if e is not None and v[3]:
            args2 = list(v[3])
            for i_, a_ in enumerate(args2):
                sn = (e.get("snap") or [None] * len(args2))[i_] if i_ < len(e.get("snap") or []) else None
                if isinstance(a_, tuple) and a_ and a_[0] == "ref" and sym._root_kind(a_[1]) == "L" and sn is not None and norm(sn)[0] == "init":
                    args2[i_] = ("ref", norm(sn)[1])
            v = v[:3] + (tuple(args2),) + v[4:]
        if canon in convs:
            if len(v[3]) != 1:
                return None, "conversion %s called with %d arguments" % (key, len(v[3]))
            return provenance(F, sc, p, v[3][0], depth + 1, convs)
        if not any(key.endswith(a) or a in key for a in ALLOWED):
            return None, "passes through %s (only into/Box::new/iter/map/collect/into_boxed_slice are structure-preserving)" % key
        if "Iterator::map" in key:
            c = v[3][1]
            while c[0] == "cast" and isinstance(c[2], tuple) and c[2]:
                c = c[2]
            if c[0] == "fn" and len(c) > 2 and isinstance(c[2], dict):
                # a function item: must itself be a conversion (a From/Into instance or one of this crate's fn(&Borrowed) -> Owned)
                full = c[1] or ""
                if c[2].get("canon") in convs or re.search(r"(Into|From)(<.*>)?>?::(into|from)$", full):
                    return provenance(F, sc, p, v[3][0], depth + 1, convs)
                return None, "elements are mapped with %s, expected the element's own conversion" % full
            cc = c[2] if c[0] == "agg" else c[1] if c[0] == "closure" else None
            cf = F.fn_by_canon(cc) if cc else None
            if cf is None:
                return None, "map closure not found"
            why = closure_converts(F, cf, convs)
            if why:
                return None, why
        return provenance(F, sc, p, v[3][0], depth + 1, convs)
    return None, "unrecognised value %s" % sym.show(v)


def closure_converts(F, cf, convs):
    """the map closure must be |i| <conversion>(i) / (*i).into(): one path, returning the result of one conversion call on its argument"""
    ps = [q for q in sym.Engine(F, max_visits=2, inline=lambda g, ev: False).run(cf) if q.status != "diverge"]
    if len(ps) != 1 or ps[0].status != "return" or ps[0].ret[0] != "call":
        return "elements are not mapped with a single conversion call (%s)" % ", ".join(sym.show(q.ret)[:80] if q.ret else q.status for q in ps)
    q = ps[0]
    e = tbl.event_by_id(q, q.ret[1])
    calls = [x for x in q.events if x["k"] == "call"]
    key = q.ret[2] or ""
    canon = ((e or {}).get("callee") or {}).get("canon")
    if len(calls) != 1 or not (canon in convs or re.search(r"(Into|From)(<.*>)?>?::(into|from)$", key)):
        return "elements are mapped with %s, expected the element's own conversion |i| (*i).into()" % [x["name"] for x in calls]
    a = norm(e["args"][0]) if len(e["args"]) == 1 else None
    while a and a[0] in ("deref", "copy"):
        a = norm(a[1])
    if a and a[0] == "init" and a[1][0] == "P":
        a = a[1][1]
    if not (a and a[0] == "param" and a[1] == 2):
        return "the conversion in the map closure is not applied to the element (%s)" % sym.show(e["args"][0] if e["args"] else None)
    return None
