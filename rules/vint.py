"""Classification of the integer helpers (varint writers/readers, zig-zag maps) by BIT.

Each classifier takes one function body, explores all of its paths with the term evaluator (loops
over `0..varint_max::<T>()` unroll because the bound folds to a constant), abstracts every path
condition and every produced value to GF(2)-affine rows and compares them with the wire
specification (spec/src/wire-format.md: canonical little-endian base-128 groups; zig-zag).  The
verdict holds for every input value of the width, not for sampled ones.
"""
import re

import sym
from sym import C, is_c
from bit import Bits, Top, ONE, term_ty

UW = {"u16": 16, "u32": 32, "u64": 64, "u128": 128, "usize": 64}
IW = {"i16": 16, "i32": 32, "i64": 64, "i128": 128, "isize": 64}


class No(Exception):
    """function is not (provably) what the spec requires; str(e) is the reason"""


def _engine(F, visits, extra_inline=None):
    def pol(fn, ev):
        if sym.inline_consts(fn, ev):
            return True
        if fn.crate == "postcard_dyn" and fn.name in ("take_one", "take_n"):
            return False          # the byte source of the dynamic decoder (a trait method or a free function): always a call
        if fn.crate in ("postcard", "postcard_dyn") and not (fn.impl_trait or ""):
            # integer helpers built from smaller private helpers (a shared widened encoder, a raw reader): analysed in place
            return True
        if extra_inline and extra_inline(fn, ev):
            return True
        return False
    return sym.Engine(F, inline=pol, max_visits=visits, max_steps=60000, max_paths=3000, models=sym.SLICE_MODELS, max_depth=8)


def _feed_conditions(bits, path, strict=True):
    """Feed the path's branch conditions to the BIT context. Returns False if path infeasible."""
    for cond, truth, kind in path.pc:
        if cond[0] in ("tag", "tagflip"):
            continue
        if isinstance(truth, tuple):
            # ('not', values) on a multi-way switch: not used by the helpers
            if strict:
                raise No("multi-way branch on %s" % sym.show(cond))
            continue
        try:
            bits.cond(cond, truth)
        except Top as e:
            if kind == "assert":
                continue  # assumed-true overflow checks only restrict; dropping them is sound
            if strict:
                raise No("branch condition outside the bit-affine fragment: %s (%s)" % (sym.show(cond), e))
            continue
        if bits.infeasible:
            return False
    return True


def _feasible_paths(eng, fn, strict=True):
    paths = eng.run(fn)
    if eng.truncated:
        raise No("path exploration truncated")
    out = []
    for p in paths:
        if p.status == "infeasible":
            continue
        b = Bits()
        if not _feed_conditions(b, p, strict):
            continue
        out.append((p, b))
    return out


def _no_panics(p, b, what):
    if p.status in ("diverge", "panic"):
        raise No("%s has a feasible panicking path (%s)" % (what, _last_call(p)))
    if p.status == "cut":
        raise No("%s: loop does not terminate within the explored bound" % what)
    if p.status != "return":
        raise No("%s: path ends with status %s" % (what, p.status))
    # residual (non-static) asserts must be decided true by BIT
    for e in p.events:
        if e["k"] == "assert" and e["static"] is None:
            try:
                d = b.decide(e["cond"])
            except Top as ex:
                raise No("%s: cannot discharge %s check %s (%s)" % (what, e["kind"], sym.show(e["cond"]), ex))
            if d is None or d != e["expected"]:
                raise No("%s: %s check %s may fail" % (what, e["kind"], sym.show(e["cond"])))


def _last_call(p):
    for e in reversed(p.events):
        if e["k"] == "call":
            return e["key"]
    return "?"


def varint_max(n):
    return (n + 6) // 7


# ---------------------------------------------------------------------------------------------

def writer_sig(fn):
    """(N, K) if the signature looks like fn(uN, &mut [u8; K]) -> &mut [u8]"""
    if fn.argc != 2:
        return None
    t1 = fn.locals[1]["ty"]
    t2 = fn.locals[2]["ty"]
    if t1 not in UW:
        return None
    m = re.match(r"^&mut \[u8; (\d+)\]$", t2)
    if not m or fn.locals[0]["ty"] != "&mut [u8]":
        return None
    return UW[t1], int(m.group(1))


def check_writer(F, fn):
    """Prove: for every n, fn(n, out) returns out[..L] holding the canonical LEB128 encoding of n."""
    sig = writer_sig(fn)
    if sig is None:
        raise No("signature is not fn(uN, &mut [u8; K]) -> &mut [u8]")
    N, K = sig
    if K != varint_max(N):
        raise No("scratch array has %d bytes, the %d-bit maximum encoding needs %d" % (K, N, varint_max(N)))
    eng = _engine(F, K + 3)
    fps = _feasible_paths(eng, fn)
    if not fps:
        raise No("no feasible path")
    nterm = ("param", 1, fn.locals[1]["ty"])
    lens = set()
    for p, b in fps:
        _no_panics(p, b, fn.name)
        r = p.ret
        if not (r[0] == "ref" and r[1][0] == "S" and r[1][1] == ("P", ("param", 2, fn.locals[2]["ty"]))):
            raise No("does not return a prefix of the scratch array (returns %s)" % sym.show(r))
        lo, hi = r[1][2], r[1][3]
        if not (is_c(lo) and lo[1] == 0 and is_c(hi)):
            raise No("returned slice bounds are not constant per path: %s" % sym.show(r))
        L = hi[1]
        if not 1 <= L <= K:
            raise No("returned length %d out of range" % L)
        lens.add(L)
        n = b.rows(nterm)
        # region: exactly the values whose minimal encoding has L groups
        if 7 * L < N and b.all_zero(n[7 * L:]) is not True:
            raise No("returns %d byte(s) for values that need more (bits >= %d not known to be zero)" % (L, 7 * L))
        if L > 1 and b.all_zero(n[7 * (L - 1):]) is not False:
            raise No("returns %d bytes for values that fit in %d (non-minimal encoding)" % (L, L - 1))
        st = sym._store_state(p.store)
        for k in range(L):
            v = eng.read(st, ("I", r[1][1], C(k, "usize")))
            try:
                got = b.rows(v)
            except Top as e:
                raise No("output byte %d is not bit-affine: %s (%s)" % (k, sym.show(v), e))
            exp = [n[7 * k + t] if 7 * k + t < N else 0 for t in range(7)] + [ONE if k < L - 1 else 0]
            if not b.equal_rows(got, exp):
                raise No("output byte %d of a %d-byte encoding is %s, expected bits %d..%d of the value%s" % (
                    k, L, [b.describe(x) for x in got], 7 * k, 7 * k + 6,
                    " with the continuation bit" if k < L - 1 else " without continuation bit"))
    if lens != set(range(1, K + 1)):
        raise No("encodings of lengths %s produced, expected all of 1..%d" % (sorted(lens), K))
    return {"N": N, "K": K, "paths": len(fps)}


# ---------------------------------------------------------------------------------------------

def check_zigzag_enc(F, fn):
    if fn.argc != 1 or fn.locals[1]["ty"] not in IW:
        raise No("signature is not fn(iN) -> uN")
    N = IW[fn.locals[1]["ty"]]
    if UW.get(fn.locals[0]["ty"]) != N:
        raise No("return type %s does not match %s" % (fn.locals[0]["ty"], fn.locals[1]["ty"]))
    eng = _engine(F, 3)
    fps = _feasible_paths(eng, fn)
    if not fps:
        raise No("no feasible path")
    # every feasible path (e.g. the two arms of `if n < 0`) must compute the specification map under its own condition
    for p, b in fps:
        if p.status != "return":
            raise No("a path ends in %s" % p.status)
        _no_panics(p, b, fn.name)
        n = b.rows(("param", 1, fn.locals[1]["ty"]))
        try:
            got = b.rows(p.ret)
        except Top as e:
            raise No("result not bit-affine: %s (%s)" % (sym.show(p.ret), e))
        exp = [n[N - 1]] + [n[i - 1] ^ n[N - 1] for i in range(1, N)]
        if not b.equal_rows(got, exp):
            bad = [i for i in range(N) if b.reduce(got[i] ^ exp[i]) != 0]
            raise No("not the zig-zag map (n<<1)^(n>>%d): result bit %d is %s, expected %s" % (
                N - 1, bad[0], b.describe(got[bad[0]]), b.describe(exp[bad[0]])))
    return {"N": N}


def check_zigzag_dec(F, fn):
    if fn.argc != 1 or fn.locals[1]["ty"] not in UW:
        raise No("signature is not fn(uN) -> iN")
    N = UW[fn.locals[1]["ty"]]
    if IW.get(fn.locals[0]["ty"]) != N:
        raise No("return type %s does not match %s" % (fn.locals[0]["ty"], fn.locals[1]["ty"]))
    eng = _engine(F, 3)
    fps = _feasible_paths(eng, fn)
    if not fps:
        raise No("no feasible path")
    for p, b in fps:
        if p.status != "return":
            raise No("a path ends in %s" % p.status)
        _no_panics(p, b, fn.name)
        u = b.rows(("param", 1, fn.locals[1]["ty"]))
        try:
            got = b.rows(p.ret)
        except Top as e:
            raise No("result not bit-affine: %s (%s)" % (sym.show(p.ret), e))
        exp = [u[i + 1] ^ u[0] for i in range(N - 1)] + [u[0]]
        if not b.equal_rows(got, exp):
            bad = [i for i in range(N) if b.reduce(got[i] ^ exp[i]) != 0]
            raise No("not the inverse zig-zag map (u>>1)^-(u&1): result bit %d is %s, expected %s" % (
                bad[0], b.describe(got[bad[0]]), b.describe(exp[bad[0]])))
    return {"N": N}


# ---------------------------------------------------------------------------------------------

class ByteSource:
    """How a reader obtains its bytes. postcard: `self.flavor.pop()`; dyn: `rest.take_one()` with the rest threaded."""

    def matches(self, e):
        if e.get("key") == self.key:
            return True
        # the dyn byte source by role (canonical name, whatever trait or module carries it)
        c = e.get("callee") or {}
        return self.key.startswith("postcard_dyn::") and c.get("krate") == "postcard_dyn" and e.get("name") == self.key.rsplit("::", 1)[-1]

    def __init__(self, key, err_variant, byte_of, threaded=False, rest_of=None):
        self.key = key
        self.err_variant = err_variant
        self.byte_of = byte_of
        self.threaded = threaded
        self.rest_of = rest_of


TAKE_ONE = ByteSource("postcard_dyn::de::TakeExt::take_one", "SchemaMismatch",
                      lambda callterm: ("getf", ("okval", callterm), "0"), threaded=True,
                      rest_of=lambda callterm: ("getf", ("okval", callterm), "1"))


POP = ByteSource("postcard::de::flavors::Flavor::pop", "DeserializeBadVarint",
                 lambda callterm: ("okval", callterm))


def check_reader(F, fn, N, src=POP, value_of_ret=None):
    """Prove: fn reads groups until the first clear continuation bit, at most K of them; accepts
    exactly when the value fits N bits; returns the little-endian base-128 value; a failing byte
    source is propagated unchanged; every other rejection is `src.err_variant`."""
    K = varint_max(N)
    klast = N - 7 * (K - 1)          # number of payload bits allowed in the last group
    eng = _engine(F, K + 3)
    fps = _feasible_paths(eng, fn)
    if not fps:
        raise No("no feasible path")
    classes = set()
    for p, b in fps:
        _no_panics(p, b, fn.name)
        pops = [e for e in p.events if e["k"] == "call" and src.matches(e)]
        other = [e for e in p.events if e["k"] == "call" and not e.get("modelled") and not e.get("inlined")
                 and not src.matches(e)]
        if other:
            raise No("unexpected call to %s" % other[0]["key"])
        j = len(pops)
        if j == 0 or j > K:
            raise No("a path reads %d bytes (must be 1..%d)" % (j, K))
        tags = []
        for e in pops:
            t = p.tagfacts.get(("tag", e["result"]))
            if t not in (0, 1):
                raise No("result of byte read #%d is not checked" % e["id"])
            tags.append(t)
        if any(t == 1 for t in tags[:-1]):
            raise No("continues after a failed byte read")
        bytes_ = []
        for e in pops:
            try:
                bytes_.append(b.rows(src.byte_of(e["result"])))
            except Top as ex:
                raise No("byte read is not an 8-bit value (%s)" % ex)
        if src.threaded:
            from tbl import norm
            prev = ("param", 1, fn.locals[1]["ty"])
            for e in pops:
                if norm(e["args"][0]) != norm(prev):
                    raise No("byte #%d is read from %s, not from where the previous read stopped" % (e["id"], sym.show(norm(e["args"][0]))))
                prev = src.rest_of(e["result"])

        def cont(i):
            r = b.reduce(bytes_[i][7])
            return True if r == ONE else False if r == 0 else None
        nchk = j - 1
        for i in range(nchk):
            if cont(i) is not True:
                raise No("reads byte %d although byte %d is not known to have its continuation bit set" % (i + 1, i))
        ret = p.ret
        if tags[-1] == 1:
            # byte source failed: must be propagated unchanged
            if not (ret[0] == "err_from" and ret[1] == pops[-1]["result"]) and not _propagates(ret, pops[-1]["result"]):
                raise No("a failing byte source is not propagated unchanged (returns %s)" % sym.show(ret))
            classes.add(("E", j))
            continue
        is_ok = ret[0] == "agg" and ret[3] == "Ok"
        is_err = ret[0] == "agg" and ret[3] == "Err"
        if not (is_ok or is_err):
            raise No("unrecognised return value %s" % sym.show(ret))
        c = cont(j - 1)
        if is_ok:
            if c is not False:
                raise No("accepts after %d byte(s) without the last continuation bit known clear" % j)
            if j == K and klast < 7:
                if b.all_zero(bytes_[j - 1][klast:7]) is not True:
                    raise No("accepts a %d-byte encoding whose last group may exceed %d bits (value overflows u%d)" % (K, klast, N))
            val = ret[5][0]
            if src.threaded:
                from tbl import norm
                if not (val[0] == "agg" and val[1] == "tuple" and len(val[5]) == 2):
                    raise No("does not return (value, rest)")
                if norm(val[5][1]) != norm(src.rest_of(pops[-1]["result"])):
                    raise No("returned rest is %s, not the input after the last byte read" % sym.show(norm(val[5][1])))
                val = val[5][0]
            if value_of_ret:
                val = value_of_ret(val)
            try:
                got = b.rows(val)
            except Top as ex:
                raise No("decoded value is not bit-affine: %s (%s)" % (sym.show(val), ex))
            if len(got) != N:
                raise No("decoded value has %d bits, expected %d" % (len(got), N))
            exp = [0] * N
            for i in range(j):
                for t in range(7):
                    if 7 * i + t < N:
                        exp[7 * i + t] = bytes_[i][t]
            if not b.equal_rows(got, exp):
                bad = [i for i in range(N) if b.reduce(got[i] ^ exp[i]) != 0]
                raise No("decoded bit %d after %d byte(s) is %s, expected %s" % (
                    bad[0], j, b.describe(got[bad[0]]), b.describe(exp[bad[0]])))
            classes.add(("A", j))
        else:
            ev = ret[5][0]
            if not (ev[0] == "agg" and ev[3] == src.err_variant):
                raise No("rejects with %s, expected %s" % (sym.show(ev), src.err_variant))
            if j != K:
                raise No("rejects after only %d byte(s); encodings shorter than %d bytes are all valid" % (j, K))
            if c is True:
                classes.add(("C", j))
            elif c is False:
                if klast >= 7 or b.all_zero(bytes_[j - 1][klast:7]) is not False:
                    raise No("rejects a %d-byte encoding whose last group may fit in %d bits" % (K, klast))
                classes.add(("B", j))
            else:
                # one test for both reasons (`last > max_of_last_byte` with max < 0x80): the path must exclude every acceptable last byte,
                # i.e. know that the continuation bit or one of the excess payload bits is set
                if b.all_zero(bytes_[j - 1][min(klast, 7):8]) is not False:
                    raise No("rejects a %d-byte encoding that may be a valid one (continuation clear and last group within %d bits)" % (K, klast))
                classes.add(("C", j))
                classes.add(("B", j))
    want = set([("A", j) for j in range(1, K + 1)] + [("E", j) for j in range(1, K + 1)] + [("C", K)])
    if klast < 7:
        want.add(("B", K))
    else:
        classes.discard(("B", K))
    if classes != want:
        raise No("path classes %s differ from the specification's %s" % (sorted(classes ^ want), "accept/err/overlong set"))
    return {"N": N, "K": K, "paths": len(fps)}


def _propagates(ret, result):
    import summ2
    from tbl import norm
    src = summ2.err_source(ret)
    return src is not None and norm(src) == norm(result)


def is_helper(fn):
    """integer helpers that are verified on their own by BIT (for all values) and therefore kept as calls, not inlined, by the path rules"""
    if writer_sig(fn):
        return True
    if fn.name.startswith("try_take_varint_u") and fn.name[-1].isdigit():
        return True
    if fn.argc == 1 and len(fn.locals) > 1:
        a, r = fn.locals[1]["ty"], fn.locals[0]["ty"]
        if (a in IW and r in UW) or (a in UW and r in IW):
            return True
    return False
