"""Facts extraction and loading.

Runs the `pcfacts` rustc_private driver (as RUSTC_WORKSPACE_WRAPPER) over /repo's *current working
tree* for a named feature configuration, caches the JSON it writes under a key that is a hash of
every source file, and loads it into light wrapper objects.  Nothing here executes postcard code.
"""
import fcntl
import glob
import hashlib
import json
import re
import os
import shutil
import subprocess
import sys
import time

VERIF = os.path.dirname(os.path.dirname(os.path.abspath(__file__)))
REPO = os.environ.get("PCV_REPO", "/repo")
CACHE = os.path.join(VERIF, ".cache")
DRIVER = os.path.join(VERIF, "driver", "target", "release", "pcfacts")

A_FEATURES = (
    "postcard/use-std,postcard/use-crc,postcard/experimental-derive,postcard/embedded-io-06,"
    "postcard-schema/use-std,postcard-schema/derive,postcard-schema/heapless-v0_7,"
    "postcard-schema/heapless-v0_8,postcard-schema/uuid-v1_0,postcard-schema/chrono-v0_4,"
    "postcard-schema/nalgebra-v0_33"
)

CONFIGS = {
    # id: (cargo scope args, expected crates)
    "A": (["--workspace", "--features", A_FEATURES],
          ["postcard", "postcard_schema", "postcard_dyn", "postcard_derive"]),
    "B": (["-p", "postcard", "--features", "use-std,embedded-io-04"], ["postcard"]),
    "C": (["-p", "postcard-schema", "--features", "alloc,derive"], ["postcard_schema"]),
    "D": (["-p", "postcard", "--no-default-features", "--features", "alloc"], ["postcard"]),
}


def _sysroot():
    return subprocess.check_output(["rustc", "+nightly", "--print", "sysroot"], text=True).strip()


def ensure_driver():
    if os.path.exists(DRIVER):
        # rebuild if sources are newer than the binary (content-based: compare hash file)
        h = _driver_src_hash()
        hf = DRIVER + ".srchash"
        if os.path.exists(hf) and open(hf).read() == h:
            return
    env = dict(os.environ, CARGO_NET_OFFLINE="true")
    r = subprocess.run(["cargo", "build", "--release", "--offline"], cwd=os.path.join(VERIF, "driver"),
                       env=env, stdout=subprocess.PIPE, stderr=subprocess.STDOUT, text=True)
    if r.returncode != 0:
        sys.stderr.write(r.stdout)
        raise RuntimeError("pcfacts driver failed to build")
    open(DRIVER + ".srchash", "w").write(_driver_src_hash())


def _driver_src_hash():
    h = hashlib.sha256()
    for p in sorted(glob.glob(os.path.join(VERIF, "driver", "src", "*.rs"))) + [
            os.path.join(VERIF, "driver", "Cargo.toml")]:
        h.update(p.encode())
        h.update(open(p, "rb").read())
    return h.hexdigest()


def tree_files(root=None):
    root = root or REPO
    out = []
    for base in ("source",):
        for dp, dns, fns in os.walk(os.path.join(root, base)):
            dns[:] = [d for d in dns if d not in ("target", ".git")]
            for fn in fns:
                out.append(os.path.join(dp, fn))
    for fn in ("Cargo.toml", "Cargo.lock"):
        p = os.path.join(root, fn)
        if os.path.exists(p):
            out.append(p)
    return sorted(out)


def tree_hash(root=None):
    h = hashlib.sha256()
    root = root or REPO
    for p in tree_files(root):
        h.update(os.path.relpath(p, root).encode())
        h.update(b"\0")
        try:
            h.update(open(p, "rb").read())
        except OSError:
            pass
        h.update(b"\0")
    return h.hexdigest()


def bounded_target(tgt, every=60):
    """harness target directories grow with every distinct path of the analysed tree (scratch copies): wipe them every `every` builds"""
    try:
        os.makedirs(tgt, exist_ok=True)
        cf_ = os.path.join(tgt, ".pcv-builds")
        n = int(open(cf_).read().strip() or 0) if os.path.exists(cf_) else 0
        if n >= every:
            shutil.rmtree(tgt, ignore_errors=True)
            os.makedirs(tgt, exist_ok=True)
            n = 0
        open(cf_, "w").write(str(n + 1))
    except (OSError, ValueError):
        pass
    return tgt


class locked:
    """exclusive advisory lock on .cache/lock-<name>: harness crates share one work/target directory"""
    def __init__(self, name):
        os.makedirs(CACHE, exist_ok=True)
        self.path = os.path.join(CACHE, "lock-" + name)

    def __enter__(self):
        self.f = open(self.path, "w")
        fcntl.flock(self.f, fcntl.LOCK_EX)
        return self

    def __exit__(self, *a):
        fcntl.flock(self.f, fcntl.LOCK_UN)
        self.f.close()


def facts_dir(config, root=None):
    """Return directory with fact files for `config`, extracting them if not cached."""
    ensure_driver()
    root = root or REPO
    key = hashlib.sha256((_driver_src_hash() + config + repr(CONFIGS[config][0]) + tree_hash(root)).encode()).hexdigest()[:24]
    out = os.path.join(CACHE, "facts", key)
    if os.path.exists(os.path.join(out, "DONE")):
        try:
            os.utime(out)   # LRU: a directory in use is the newest
        except OSError:
            pass
        return out
    os.makedirs(os.path.join(CACHE, "facts"), exist_ok=True)
    lockf = open(os.path.join(CACHE, "lock-" + config), "w")
    fcntl.flock(lockf, fcntl.LOCK_EX)
    try:
        if os.path.exists(os.path.join(out, "DONE")):
            return out
        if os.path.exists(out):
            shutil.rmtree(out)
        tmp = out + ".tmp"
        if os.path.exists(tmp):
            shutil.rmtree(tmp)
        os.makedirs(tmp)
        tgt = os.path.join(CACHE, "tgt-" + config)
        # cargo's freshness cache would skip the wrapper for unchanged members: drop their fingerprints
        for fp in glob.glob(os.path.join(tgt, "debug", ".fingerprint", "postcard*")):
            shutil.rmtree(fp, ignore_errors=True)
        env = dict(os.environ)
        env.update({
            "LD_LIBRARY_PATH": _sysroot() + "/lib",
            "RUSTFLAGS": "-Zmir-opt-level=0 -Awarnings",
            "RUSTC_WORKSPACE_WRAPPER": DRIVER,
            "PCFACTS_OUT": tmp,
            "CARGO_TARGET_DIR": tgt,
            "CARGO_NET_OFFLINE": "true",
        })
        cmd = ["cargo", "+nightly", "check", "--offline"] + CONFIGS[config][0]
        t0 = time.time()
        r = subprocess.run(cmd, cwd=root, env=env, stdout=subprocess.PIPE, stderr=subprocess.STDOUT, text=True)
        if r.returncode != 0:
            sys.stderr.write(r.stdout[-6000:])
            raise BuildError("cargo check failed for configuration %s (the tree does not compile?)" % config)
        have = set(os.path.basename(p).split(".")[0] for p in glob.glob(os.path.join(tmp, "*.json")))
        missing = [c for c in CONFIGS[config][1] if c not in have]
        if missing:
            raise BuildError("fact files missing for crates %s in configuration %s" % (missing, config))
        open(os.path.join(tmp, "DONE"), "w").write("%.1f" % (time.time() - t0))
        os.rename(tmp, out)
        _prune_cache(keep=out)
        return out
    finally:
        fcntl.flock(lockf, fcntl.LOCK_UN)
        lockf.close()


def _prune_cache(keep, maxn=48):
    d = os.path.join(CACHE, "facts")
    ents = [os.path.join(d, e) for e in os.listdir(d) if not e.endswith(".tmp")]
    ents = [e for e in ents if e != keep]
    ents.sort(key=lambda p: os.path.getmtime(p))
    while len(ents) > maxn:
        shutil.rmtree(ents.pop(0), ignore_errors=True)


class BuildError(Exception):
    pass


class Fn:
    __slots__ = ("j", "crate", "def_", "canon", "name", "body", "blocks", "locals", "argc", "promoted",
                 "impl_trait", "impl_self", "file", "line", "dk", "parent", "generics")

    def __init__(self, j, crate):
        self.j = j
        self.crate = crate
        self.def_ = j["def"]
        self.canon = j["canon"]
        self.name = j["name"]
        self.dk = j["dk"]
        self.body = j["body"]
        self.blocks = self.body["blocks"]
        self.locals = self.body["locals"]
        self.argc = self.body["arg_count"]
        self.promoted = j.get("promoted", [])
        self.impl_trait = j.get("impl_trait")
        self.impl_self = j.get("impl_self")
        self.file = j.get("file")
        self.line = j.get("line")
        self.parent = j.get("parent")
        self.generics = j.get("generics", [])

    def where(self):
        return "%s:%s" % (self.file, self.line)

    def __repr__(self):
        return "<Fn %s>" % self.def_


class Crate:
    def __init__(self, j):
        self.j = j
        self.name = j["crate"]
        self.fns = [Fn(f, self.name) for f in j["fns"]]
        self.by_canon = {}
        for f in self.fns:
            self.by_canon[f.canon] = f
        self.adts = {a["canon"]: a for a in j["adts"]}
        self.consts = j["consts"]
        self.impls = j["impls"]
        # associated types defined by local trait impls on concrete types: `<X as path::Trait>::Name` denotes that type
        try:
            import sym
            for im in self.impls:
                tr = im.get("trait")
                if not tr or "<" in (im.get("self_ty") or "<"):
                    continue
                for a in im.get("assoc_tys") or []:
                    sym.PROJECTIONS[(tr.split("::")[-1], im["self_ty"], a["name"])] = (tr, a["ty"])
        except ImportError:
            pass

    def find(self, name=None, impl_trait=None, impl_self=None, canon_suffix=None, dk=None, pred=None):
        out = []
        for f in self.fns:
            if name is not None and f.name != name:
                continue
            if impl_trait is not None and (f.impl_trait or "") != impl_trait:
                if not (impl_trait.startswith("*") and (f.impl_trait or "").endswith(impl_trait[1:])):
                    continue
            if impl_self is not None:
                s = f.impl_self or ""
                if callable(impl_self):
                    if not impl_self(s):
                        continue
                elif s != impl_self:
                    continue
            if canon_suffix is not None and not f.canon.endswith(canon_suffix):
                continue
            if dk is not None and f.dk != dk:
                continue
            if pred is not None and not pred(f):
                continue
            out.append(f)
        return out

    def one(self, **kw):
        r = self.find(**kw)
        if len(r) != 1:
            raise AnchorError("anchor %r matched %d functions in crate %s" % (kw, len(r), self.name))
        return r[0]


class AnchorError(Exception):
    pass


def adt_shape(a):
    """kind, variant names and field (name, type) lists with the type's own name and path abstracted: what a rename leaves unchanged"""
    own = a["def"]
    last = own.split("::")[-1]
    def ty(t):
        return re.sub(r"(?<![A-Za-z0-9_])%s(?![A-Za-z0-9_])" % re.escape(own), "<Self>", t or "")
    return [a.get("kind"), [[("<Self>" if v["name"] == last else v["name"]), [[f["name"], ty(f["ty"])] for f in v.get("fields", [])]] for v in a.get("variants", [])]]


def _moved_types(config, parsed):
    """Types keep the name the specifications know them by.  A struct/enum whose definition path is new (not among the paths recorded
    with the specifications, rules/expect2/adts_<config>.json) but which is re-exported (`use`) under a recorded path has only been
    moved to another module: every occurrence of the new path is read as the recorded one.  -> [(new path, recorded path)]"""
    p = os.path.join(VERIF, "rules", "expect2", "adts_%s.json" % config)
    if not os.path.exists(p):
        return []
    known = json.load(open(p))
    out = []
    for cname, j in parsed.items():
        kn = set(known.get(cname, []))
        if not kn:
            continue
        rx = j.get("reexports") or []
        real_paths = set(a["def"] for a in j.get("adts", []))
        for r in sorted(real_paths):
            if r in kn:
                continue
            al = sorted(set(x["alias"] for x in rx if x["real"] == r and x["alias"] in kn and x["alias"] not in real_paths))
            if len(al) == 1:
                out.append((r, al[0]))
        # a type renamed in place (and possibly moved as well): a recorded name that no longer exists anywhere and an unrecorded type of
        # exactly the same shape (kind, variants, field names and types), when that pairing is unique in both directions
        shapes = known.get(cname + "#shapes", {})
        aliases = set(x["alias"] for x in rx)
        mapped = set(r for r, _ in out)
        gone = [k for k in sorted(kn) if k not in real_paths and k not in aliases and k in shapes]
        fresh = [a for a in j.get("adts", []) if a["def"] not in kn and a["def"] not in mapped]
        for a in fresh:
            sh = json.loads(json.dumps(adt_shape(a)))
            cands = [g for g in gone if shapes[g] == sh]
            others = [b for b in fresh if b is not a and json.loads(json.dumps(adt_shape(b))) == sh]
            if len(cands) == 1 and not others:
                out.append((a["def"], cands[0]))
                # the struct's single variant carries the type's name
                if a["def"].split("::")[-1] != cands[0].split("::")[-1]:
                    out.append(("\"%s\"" % a["def"].split("::")[-1], "\"%s\"" % cands[0].split("::")[-1]))
        # free functions likewise
        knf = set(known.get(cname + "#fns", []))
        real_fns = set(f["def"] for f in j.get("fns", []) if f.get("dk") == "Fn")
        for r in sorted(real_fns):
            if r in knf or not knf:
                continue
            al = sorted(set(x["alias"] for x in rx if x["real"] == r and x["alias"] in knf and x["alias"] not in real_fns))
            if len(al) == 1:
                out.append((r, al[0]))
    # longest first, so that a moved module prefix never shadows a longer path
    out.sort(key=lambda x: -len(x[0]))
    return out


_UW = ("u16", "u32", "u64", "u128", "usize")


def _helper_role(cname, f):
    """the canonical name of a private integer / byte-source helper, recognised by its signature alone (what it does is verified by the
    rules that use it; the name only says which rule looks at it)"""
    if f.get("dk") not in ("Fn", "AssocFn") or "{closure" in (f.get("canon") or "") or "/tests/" in (f.get("file") or "") or f.get("exp"):
        return None
    ins, out = f.get("inputs") or [], f.get("output") or ""
    m = re.match(r"^std::result::Result<(.*), (?:\w+::)*Error>$", out)
    ok = m.group(1) if m else None
    if cname == "postcard" and len(ins) == 1 and re.match(r"^&mut (\w+::)*Deserializer<", ins[0]) and ok in _UW:
        return "try_take_varint_" + ok
    if cname == "postcard_dyn" and ins == ["&[u8]"] and ok:
        m2 = re.match(r"^\((\w+), &\[u8\]\)$", ok)
        if m2 and m2.group(1) in _UW:
            return "try_take_varint_" + m2.group(1)
        if m2 and m2.group(1) == "u8":
            return "take_one"
    if cname == "postcard_dyn" and ins == ["&[u8]", "usize"] and ok == "(&[u8], &[u8])":
        return "take_n"
    strip = lambda t: re.sub(r"'\w+ ", "", t)
    if cname == "postcard_dyn" and f.get("dk") == "Fn" and f.get("vis") != "Public":
        # the two recursive walks
        if len(ins) == 3 and ins[0].endswith("OwnedDataModelType") and ins[1] == "&serde_json::Value" and ins[2] == "&mut std::vec::Vec<u8>" and ok == "()":
            return "ser_named_type"
        if len(ins) == 2 and ins[0].endswith("OwnedDataModelType") and strip(ins[1]) == "&[u8]" and ok and strip(ok) == "(serde_json::Value, &[u8])":
            return "deserialize"
    if cname == "postcard" and f.get("dk") == "Fn" and f.get("vis") != "Public" and re.search(r"(^|::)max_size(::|$)", f.get("parent") or "") and out == "usize" and not f.get("generics"):
        if ins == ["usize"]:
            return "varint_size"
        if ins == ["usize", "usize"]:
            return "max"
    if f.get("dk") == "Fn" and len(ins) == 1 and not f.get("generics"):
        if ins[0] in _UW[:4] and out == "i" + ins[0][1:]:
            return "de_zig_zag_" + out
        if out in _UW[:4] and ins[0] == "i" + out[1:]:
            return "zig_zag_" + ins[0]
    if f.get("dk") == "Fn" and len(ins) == 2 and ins[0] in _UW and out == "&mut [u8]" and re.match(r"^&mut \[u8; .*\]$", ins[1]):
        return "varint_" + ins[0]
    return None


def _canonical_helpers(cname, j):
    """Private helpers renamed since the rules were written are read under the names the rules know them by: a function that is the only one
    of its crate with a helper's signature, when no function carries the canonical name any more.  Mutates the parsed facts of one crate."""
    if cname not in ("postcard", "postcard_dyn"):
        return []
    byrole = {}
    names = set()
    for f in j.get("fns", []):
        names.add(f.get("name"))
        r = _helper_role(cname, f)
        if r:
            byrole.setdefault((r, f.get("parent", "").rsplit("::{impl", 1)[0] if cname == "postcard_dyn" else ""), []).append(f)
    ren = []          # (old canon prefix, old name, new name)
    for (role, _scope), fs in byrole.items():
        if len(fs) != 1 or fs[0]["name"] == role or role in names:
            continue
        f = fs[0]
        ren.append((f["canon"], f["name"], role))
        tr = f.get("impl_trait") or f.get("in_trait")
        if tr:
            ren.append((tr + "::" + f["name"], f["name"], role))
    # the byte-source helpers of postcard-dyn are methods of a private extension trait: its name is canonical too
    trs = set((f.get("impl_trait") or "") for (role, _s), fs in byrole.items() if role in ("take_one", "take_n") and len(fs) == 1 for f in fs)
    trs.discard("")
    tren = None
    if len(trs) == 1:
        t = trs.pop()
        if t.split("::")[-1] != "TakeExt" and not any((g.get("impl_trait") or "").endswith("::TakeExt") for g in j.get("fns", [])):
            tren = (t.split("::")[-1], "TakeExt")
            for (role, _s), fs in byrole.items():
                if role in ("take_one", "take_n") and len(fs) == 1:
                    ren.append((fs[0]["canon"], fs[0]["name"], fs[0]["name"] if fs[0]["name"] == role else role))
                    ren.append((t + "::" + fs[0]["name"], fs[0]["name"], role))
    if not ren:
        return []

    def fix(sv, oldn, newn):
        sv = re.sub(r"::%s(?=$|::)" % re.escape(oldn), "::" + newn, sv)
        if tren:
            sv = re.sub(r"(?<![A-Za-z0-9_])%s(?![A-Za-z0-9_])" % re.escape(tren[0]), tren[1], sv)
        return sv

    def walk(o):
        if isinstance(o, dict):
            c = o.get("canon")
            if isinstance(c, str):
                for oc, oldn, newn in ren:
                    if c == oc or c.startswith(oc + "::"):
                        for k in ("def", "canon", "full", "parent", "trait", "impl_trait", "in_trait"):
                            if isinstance(o.get(k), str):
                                o[k] = fix(o[k], oldn, newn)
                        if o.get("name") == oldn:
                            o["name"] = newn
                        break
            cl = o.get("closure")
            if isinstance(cl, str):
                for oc, oldn, newn in ren:
                    if cl.startswith(oc + "::") or ("::" + oldn + "::") in cl and cl.startswith(oc.split("::", 1)[-1].rsplit("::", 1)[0]):
                        o["closure"] = fix(cl, oldn, newn)
                        break
            for v in o.values():
                walk(v)
        elif isinstance(o, list):
            for v in o:
                walk(v)
    walk(j)
    return [(o, n) for _, o, n in ren]


class Facts:
    def __init__(self, config, root=None):
        self.config = config
        self.dir = facts_dir(config, root)
        self.crates = {}
        texts = {}
        for p in sorted(glob.glob(os.path.join(self.dir, "*.json"))):
            cname = os.path.basename(p).split(".")[0]
            if cname in texts:
                continue
            texts[cname] = open(p).read()
        parsed = {cname: json.loads(t) for cname, t in texts.items()}
        self.moved = _moved_types(config, parsed)
        for cname, t in texts.items():
            if self.moved:
                for real, alias in self.moved:
                    t = re.sub(r"(?<![A-Za-z0-9_])%s(?![A-Za-z0-9_])" % re.escape(real), alias, t)
                parsed[cname] = json.loads(t)
            self.renamed_helpers = getattr(self, "renamed_helpers", []) + _canonical_helpers(cname, parsed[cname])
            self.crates[cname] = Crate(parsed[cname])
        self.n_bodies = sum(len(c.fns) for c in self.crates.values())

    def crate(self, name):
        if name not in self.crates:
            raise AnchorError("crate %s not in facts of configuration %s" % (name, self.config))
        return self.crates[name]

    def impl_methods(self, trait, name):
        """all bodies implementing method `name` of `trait` (by impl), over all analysed crates"""
        idx = getattr(self, "_impl_idx", None)
        if idx is None:
            idx = {}
            for cr in self.crates.values():
                for fn in cr.fns:
                    if fn.impl_trait and fn.impl_self:
                        idx.setdefault((fn.impl_trait, fn.name), []).append(fn)
            self._impl_idx = idx
        return idx.get((trait, name), [])

    def fn_by_canon(self, canon):
        c = canon.split("::", 1)[0]
        cr = self.crates.get(c)
        if cr:
            return cr.by_canon.get(canon)
        return None


_loaded = {}


def load(config="A", root=None):
    k = (config, root)
    if k not in _loaded:
        try:
            _loaded[k] = Facts(config, root)
        except FileNotFoundError:
            # another process pruned the cache entry between the lookup and the read (many trees analysed in parallel): extract again
            _loaded[k] = Facts(config, root)
    return _loaded[k]
