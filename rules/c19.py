"""C19 — schema inspection helpers are total and faithful for every schema.

C19.P  panic sites (PAN) of to_pseudocode, Display::fmt, all_used_types, is_prim, fmt_owned_dmt_to_buf, discover_tys and their
       closures: none may remain (explicit todo!/unreachable!/panic! are diverging calls and count).
C19.X  exhaustive recursion: for every variant of OwnedDataModelType / OwnedData and every field whose type is a schema type
       (taken from the ADT tables: Option.0, Seq.0, Tuple.0[*], Map.key, Map.val, Struct.data, Enum.variants[*].data,
       Newtype.0, Tuple.0[*], Struct.0[*].ty) the matching arm of discover_tys (or of its data closure) visits it; the only
       insertion is the visited node itself, unconditionally, before the match: the set holds the schema, everything nested in
       it, and nothing else.
C19.N  names rendered: on the top_level paths for Struct / Enum the buffer receives the type's name, each field name (through the
       data closure, first and subsequent elements) and each variant name (through the variant closure) before its payload.
Does not decide the exact text nor stack depth on deeply nested schemas.
"""
import re

import grd
import lin
import pan
import summ
import sym
import tbl
from c16 import field_path
from tbl import norm

LEVEL = "other"
MANIFEST = {
    "text": "Static totality and coverage check of the two recursive schema walkers: every panic site on every path is enumerated (explicit "
            "todo!/unreachable! included) and must be discharged; the set of schema-typed children per variant is taken from the compiler's ADT "
            "tables and each must be visited by the discovery walker, whose only insertion is the visited node; the formatter must append the "
            "type, field and variant names on top-level paths. Reachability of an unimplemented arm is a question about all trees, decided per arm.",
    "note": "Trusted: String/HashSet/Vec/join do not panic for these uses; recursion depth (stack) is not bounded. Exact rendered text is not checked.",
    "technique": "static analysis: panic-site enumeration + ADT-driven exhaustive-recursion check over path-sensitive MIR summaries",
}

SCHEMA_TYS = ("OwnedDataModelType", "OwnedData", "OwnedVariant", "OwnedNamedField")


def child_specs(sc):
    """variant -> list of (field, how) for the two enums; how in direct|elems|data|variants|fields"""
    out = {}
    for ty in ("OwnedDataModelType", "OwnedData"):
        a = sc.adts["postcard_schema::schema::owned::" + ty]
        for v in a["variants"]:
            kids = []
            for f in v["fields"]:
                t = f["ty"]
                if not any(s in t for s in SCHEMA_TYS) and "Self" not in t:
                    continue
                inner = t.replace("std::boxed::Box<", "").rstrip(">")
                base = inner.split("::")[-1].strip("[]")
                if inner.startswith("[") or "<[" in t:
                    how = {"OwnedDataModelType": "elems", "OwnedVariant": "variants", "OwnedNamedField": "fields"}.get(base, "elems")
                else:
                    how = "data" if base == "OwnedData" else "direct"
                kids.append((f["name"], how))
            out[(ty, v["name"], v["idx"])] = kids
    return out


def visit_events(F, fn, p):
    """-> list of (kind, path) with kind rec|data ; loop element visits are path+('[*]',...)"""
    evs = []
    src = None
    for e in tbl.residual_calls(p):
        k = e["key"] or ""
        nm = e["name"]
        if nm in ("iter", "into_iter") and ("<impl [T]>::iter" in k or k.endswith("IntoIterator::into_iter")):
            a = norm(e["args"][0])
            if a[0] == "havoc" or (a[0] == "call"):
                continue
            src = field_path(a)
        elif e["callee"] and e["callee"]["def"].endswith("discover_tys"):
            evs.append(("rec", arg_path(e["args"][0], src)))
        elif nm in ("call", "call_mut", "call_once") and e["callee"] and (e["callee"].get("trait") or "").startswith("core::ops::function::Fn"):
            tup = norm(e["args"][1])
            if tup[0] == "agg" and tup[1] == "tuple" and tup[5]:
                evs.append(("data", arg_path(tup[5][0], src)))
    return evs


def arg_path(a, src):
    a = norm(a)
    # element of the iterated field?
    sv = [t for t in sym.subterms(a) if t[0] == "someval"]
    if sv and src is not None:
        tail = []
        t = a
        # trailing field projections on the element
        fp = field_path(a)
        tail = [x for x in fp if x in ("ty", "data")]
        return tuple(src) + ("[*]",) + tuple(tail)
    return field_path(a)


def run(run_, ctx):
    F = ctx.facts("A")
    sc = F.crate("postcard_schema")
    run_.configs.append("A")
    run_.bodies += len(sc.fns)
    fns = [f for f in sc.fns if "schema::fmt::" in f.canon or
           (f.name in ("to_pseudocode", "all_used_types") and (f.impl_self or "").endswith("OwnedDataModelType")) or
           (f.name == "fmt" and (f.impl_trait or "").endswith("fmt::Display") and (f.impl_self or "").endswith("OwnedDataModelType"))]
    names = set(f.name for f in fns)
    for need in ("to_pseudocode", "all_used_types", "fmt", "is_prim", "fmt_owned_dmt_to_buf", "discover_tys"):
        if need not in names:
            run_.bad("ANCHOR", need, "helper not found")

    def discharge(s):
        if s.kind == "assert:BoundsCheck" and "fmt_owned_dmt_to_buf" in summ.fn_key(s.fn):
            e = s.ev
            pcn = [(norm(c), t, k) for c, t, k in s.path.pc[:e["pc"]]]
            if grd.prove(pcn, [], lin.gt(norm(e["len"]), norm(e["index"]))):
                return "guard: !vec.is_empty() dominates vec[0] (LIN)"
        return None
    pan.run_sites(run_, "P", F, fns, discharge)
    for f in fns:
        run_.ok("P", summ.fn_key(f) + " scanned", "all paths explored for panic sites", f.where())
    run_.floor("P", 10)
    # ---- E: entry points --------------------------------------------------------------------------------------------
    ENTRY = {
        "<schema::owned::OwnedDataModelType as ->::to_pseudocode": ["if always: #1 = std::string::String::new(); #2 = schema::fmt::fmt_owned_dmt_to_buf(self, &{#1}, true) => after#2(_local)"],
        "<schema::owned::OwnedDataModelType as ->::all_used_types": ["if always: #1 = std::collections::HashSet::<T>::new(); #2 = schema::fmt::discover_tys(self, &{#1}) => after#2(_local)"],
        "<schema::owned::OwnedDataModelType as Display>::fmt": ["if always: #1 = schema::owned::OwnedDataModelType::to_pseudocode(self); #2 = <std::string::String as Deref>::deref(&{#1}); #3 = std::fmt::Formatter::<'a>::write_str(arg2, #2) => #3"],
    }
    byk = {summ.fn_key(f): f for f in fns}
    for k, want in ENTRY.items():
        if k in byk:
            summ.check(run_, "E", byk[k], want, F, what="entry point renders/collects the whole schema as a top-level type")
        else:
            run_.bad("E", k, "entry point not found")
    run_.floor("E", 3)
    # ---- X -------------------------------------------------------------------------------------------------------
    specs = child_specs(sc)
    disc = [f for f in fns if f.name == "discover_tys" and f.dk == "Fn"]
    clos = [f for f in fns if f.canon.startswith("postcard_schema::schema::fmt::discover_tys::{closure")]
    if len(disc) == 1 and len(clos) == 1:
        for fn_, ty, subj in ((disc[0], "OwnedDataModelType", 1), (clos[0], "OwnedData", 2)):
            eng = sym.Engine(F, max_visits=3)
            arms = {}
            insert_ok = True
            for p in eng.run(fn_):
                if p.status not in ("return", "cut"):
                    continue
                k = None
                for atom, v in p.tagfacts.items():
                    if atom[0] == "tag" and isinstance(v, int) and field_path(atom[1]) == ("arg%d" % subj,):
                        k = v
                arms.setdefault(k, []).append(visit_events(F, fn_, p))
                if fn_ is disc[0]:
                    evs = tbl.residual_calls(p)
                    ins = [e for e in evs if e["name"] == "insert"]
                    okp = (len(evs) >= 2 and evs[0]["name"] == "clone" and norm(evs[0]["args"][0]) == ("param", 1, fn_.locals[1]["ty"])
                           and evs[1]["name"] == "insert" and norm(evs[1]["args"][0]) == ("param", 2, fn_.locals[2]["ty"])
                           and norm(evs[1]["args"][1]) == norm(evs[0]["result"]) and len(ins) == 1)
                    insert_ok = insert_ok and okp
                else:
                    if [e for e in tbl.residual_calls(p) if e["name"] == "insert"]:
                        insert_ok = False
            if fn_ is disc[0]:
                run_.check(insert_ok, "X", "insert visited node", "the walker must insert exactly the visited node, unconditionally, before looking at its kind",
                           fn_.where(), detail="set.insert(ty.clone()) first on every path; no other insertion")
            for (t, vname, vidx), kids in sorted(specs.items(), key=lambda kv: (kv[0][0], kv[0][2])):
                if t != ty:
                    continue
                key = "%s::%s" % (ty, vname)
                lists = arms.get(vidx)
                if lists is None:
                    run_.bad("X", key, "no arm of the walker handles this variant", fn_.where())
                    continue
                probs = []
                flat = set(x for l in lists for x in l)
                for fname, how in kids:
                    base = ("arg%d" % subj, "as " + vname, fname)
                    if how == "direct":
                        want = ("rec", base)
                    elif how == "data":
                        want = ("data", base)
                    elif how == "elems":
                        want = ("rec", base + ("[*]",))
                    elif how == "variants":
                        want = ("data", base + ("[*]", "data"))
                    else:
                        want = ("rec", base + ("[*]", "ty"))
                    if want not in flat:
                        probs.append("nested schema(s) in %s.%s are never visited (%s)" % (vname, fname, how))
                    if how in ("elems", "variants", "fields"):
                        # the element visit must be inside the loop: appear once per iteration
                        per = [l.count(want) for l in lists]
                        if max(per or [0]) < 2:
                            probs.append("elements of %s.%s are not visited once per element" % (vname, fname))
                extra = [x for x in flat if not any(x[1][:3] == ("arg%d" % subj, "as " + vname, f) for f, _ in kids)]
                if extra:
                    probs.append("visits something that is not a child of this node: %s" % (extra[:2],))
                run_.check(not probs, "X", key, probs[0] if probs else "children visited: %s" % ([f for f, _ in kids] or "none (leaf)"), fn_.where(), found=probs)
    else:
        run_.bad("X", "discover_tys", "walker / data closure not found (found %d/%d)" % (len(disc), len(clos)))
    run_.floor("X", 31)
    # ---- N -------------------------------------------------------------------------------------------------------
    fm = [f for f in fns if f.name == "fmt_owned_dmt_to_buf" and f.dk == "Fn"]
    if len(fm) == 1:
        ls = summ.lines(summ.summarize(F, fm[0]))
        st = [l for l in ls if re.search(r"tag\(\*arg1\) == 23\b", l) and ("arg3 == True" in l or re.search(r"(^if |&& )arg3( &&|:)", l))]
        en = [l for l in ls if re.search(r"tag\(\*arg1\) == 24\b", l) and ("arg3 == True" in l or re.search(r"(^if |&& )arg3( &&|:)", l))]
        oks = len(st) == 1 and "add_assign(arg2, ((*arg1 as Struct).name" in st[0] and "call(&{closure()}, (&(*arg1 as Struct).data, arg2))" in st[0]
        run_.check(oks, "N", "struct name + fields", "a top-level struct must render its name and hand its data to the field formatter", fm[0].where(), found=st)
        oke = len(en) == 1 and "add_assign(arg2, ((*arg1 as Enum).name" in en[0] and "iter(((*arg1 as Enum).variants" in en[0] and "Iterator>::map(" in en[0]
        run_.check(oke, "N", "enum name + variants", "a top-level enum must render its name and map every variant through the variant formatter", fm[0].where(), found=en)
        cl = {f.canon.rsplit("::", 1)[-1]: f for f in fns if f.canon.startswith(fm[0].canon + "::{closure")}
        # variant closure: name then data
        vcl = [f for f in cl.values() if any("name" in l and "data" in l for l in summ.lines(summ.summarize(F, f)))]
        okv = False
        for f in vcl:
            l = summ.lines(summ.summarize(F, f))
            if len(l) == 1 and re.search(r"add_assign\(&\{#1\}, \(\*arg2\.name", l[0]) and "call(*arg1.0, (&*arg2.data, &_local))" in l[0] and \
                    l[0].index("arg2.name") < l[0].index("arg2.data"):
                okv = True
        run_.check(okv, "N", "variant name before payload", "each variant must render its name and then its data", fm[0].where())
        # data closure: every named field's name (first element and subsequent ones)
        dcl = [f for f in cl.values() if any("as Struct" in l for l in summ.lines(summ.summarize(F, f)))]
        okf = False
        for f in dcl:
            l = [x for x in summ.lines(summ.summarize(F, f)) if re.search(r"tag\(\*arg2\) == 3\b", x) and "[cut]" not in x]
            one = [x for x in l if x.count(".name.0.pointer") == 1]
            two = [x for x in l if x.count(".name.0.pointer") == 2]
            visited = [x for x in l if "fmt_owned_dmt_to_buf(&*someval(" in x]
            if one and two and all(x.count(".name.0.pointer") == x.count("fmt_owned_dmt_to_buf(&*someval(") for x in l):
                okf = True
        run_.check(okf, "N", "field names", "every named field must be rendered with its name (first and subsequent fields)", fm[0].where())
    else:
        run_.bad("N", "fmt_owned_dmt_to_buf", "formatter not found")
    run_.floor("N", 4)
    run_.explanation = (
        "All %d functions/closures of the schema formatter and type-discovery walker (plus to_pseudocode, all_used_types, Display::fmt) are explored on all "
        "MIR paths; explicit panics and MIR assertions are listed and must be discharged (vec[0] under !is_empty by LIN). For each of the 26+4 variants the "
        "schema-typed fields are taken from the ADT tables and the walker's arm must visit each (directly, per element inside the loop, or through the data "
        "closure) and nothing else, inserting only the visited node first. The formatter's top-level Struct/Enum paths must append the type name, each field "
        "name and each variant name." % len(fns))
    run_.trusted += ["String::add_assign / HashSet::insert / Vec::push / join / format! do not panic", "stack depth unbounded"]
