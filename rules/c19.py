"""C19 — schema inspection helpers are total and faithful for every schema.

C19.P  panic sites (PAN) of to_pseudocode, Display::fmt, all_used_types, is_prim, fmt_owned_dmt_to_buf, discover_tys and their
       closures: none may remain (explicit todo!/unreachable!/panic! are diverging calls and count).
C19.X  exhaustive recursion: for every variant of OwnedDataModelType / OwnedData and every field whose type is a schema type
       (taken from the ADT tables: Option.0, Seq.0, Tuple.0[*], Map.key, Map.val, Struct.data, Enum.variants[*].data,
       Newtype.0, Tuple.0[*], Struct.0[*].ty) the matching arm of discover_tys (or of its data closure) visits it; the only
       insertion is the visited node itself, unconditionally, before the match: the set holds the schema, everything nested in
       it, and nothing else.
C19.N  names rendered: on the top_level paths for Struct / Enum the buffer receives the type's name, each field name (through the
       data closure, first and subsequent elements) and each variant name (through the variant closure) before its payload.
Does not decide the exact text nor stack depth on deeply nested schemas.
"""
import re

import grd
import lin
import pan
import panlin
import summ
import summ2
import sym
import tbl
from c16 import field_path
from tbl import norm

LEVEL = "other"
MANIFEST = {
    "text": "Static totality and coverage check of the two recursive schema walkers: every panic site on every path is enumerated (explicit "
            "todo!/unreachable! included) and must be discharged; the set of schema-typed children per variant is taken from the compiler's ADT "
            "tables and each must be visited by the discovery walker, whose only insertion is the visited node; the formatter must append the "
            "type, field and variant names on top-level paths. Reachability of an unimplemented arm is a question about all trees, decided per arm.",
    "note": "Trusted: String/HashSet/Vec/join do not panic for these uses; recursion depth (stack) is not bounded. Exact rendered text is not checked.",
    "technique": "static analysis: panic-site enumeration + ADT-driven exhaustive-recursion check over path-sensitive MIR summaries",
}

SCHEMA_TYS = ("OwnedDataModelType", "OwnedData", "OwnedVariant", "OwnedNamedField")


def child_specs(sc):
    """variant -> list of (field, how) for the two enums; how in direct|elems|data|variants|fields"""
    out = {}
    for ty in ("OwnedDataModelType", "OwnedData"):
        a = sc.adts["postcard_schema::schema::owned::" + ty]
        for v in a["variants"]:
            kids = []
            for f in v["fields"]:
                t = f["ty"]
                if not any(s in t for s in SCHEMA_TYS) and "Self" not in t:
                    continue
                inner = t.replace("std::boxed::Box<", "").rstrip(">")
                base = inner.split("::")[-1].strip("[]")
                if inner.startswith("[") or "<[" in t:
                    how = {"OwnedDataModelType": "elems", "OwnedVariant": "variants", "OwnedNamedField": "fields"}.get(base, "elems")
                else:
                    how = "data" if base == "OwnedData" else "direct"
                kids.append((f["name"], how))
            out[(ty, v["name"], v["idx"])] = kids
    return out


def nested_schemas(sc, variant_or_struct, prefix, depth=0):
    """access paths (in field_path vocabulary) of every OwnedDataModelType nested in the fields of a variant, through OwnedData / OwnedVariant /
    OwnedNamedField / Box / boxed slices; slices contribute a '[*]' step"""
    out = []
    if depth > 4:
        return out
    for f in variant_or_struct["fields"]:
        t = f["ty"]
        if not any(s in t for s in SCHEMA_TYS) and "Self" not in t:
            continue
        step = prefix + (f["name"],)
        if "[" in t:
            step = step + ("[*]",)
        base = t.replace("std::boxed::Box<", "").replace(">", "").strip("[]").split("::")[-1]
        if base in ("OwnedDataModelType", "Self"):
            out.append(step)
        elif base in ("OwnedData", "OwnedVariant", "OwnedNamedField"):
            a = sc.adts["postcard_schema::schema::owned::" + base]
            for v in a["variants"]:
                p2 = step + (("as " + v["name"],) if a["kind"] == "Enum" else ())
                out += nested_schemas(sc, v, p2, depth + 1)
    return out


def visit_events(F, fn, p):
    """-> list of (kind, path) with kind rec|data ; loop element visits are path+('[*]',...)"""
    evs = []
    src = None
    for e in tbl.residual_calls(p):
        k = e["key"] or ""
        nm = e["name"]
        if nm in ("iter", "into_iter") and ("<impl [T]>::iter" in k or k.endswith("IntoIterator::into_iter")):
            a = norm(e["args"][0])
            if a[0] == "havoc" or (a[0] == "call"):
                continue
            src = field_path(a)
        elif e["callee"] and e["callee"]["def"].endswith("discover_tys"):
            evs.append(("rec", arg_path(e["args"][0], src)))
        elif nm in ("call", "call_mut", "call_once") and e["callee"] and (e["callee"].get("trait") or "").startswith("core::ops::function::Fn"):
            tup = norm(e["args"][1])
            if tup[0] == "agg" and tup[1] == "tuple" and tup[5]:
                evs.append(("data", arg_path(tup[5][0], src)))
    return evs


def arg_path(a, src):
    a = norm(a)
    # element of the iterated field?
    sv = [t for t in sym.subterms(a) if t[0] == "someval"]
    if sv and src is not None:
        tail = []
        t = a
        # trailing field projections on the element
        fp = field_path(a)
        tail = [x for x in fp if x in ("ty", "data")]
        return tuple(src) + ("[*]",) + tuple(tail)
    return field_path(a)


def callee_canons(f):
    out = []
    for b in f.blocks or []:
        t = b.get("term") or {}
        if t.get("k") == "call" and t.get("callee"):
            cal = t["callee"]
            out += [cn for cn in (cal.get("canon"), (cal.get("resolved") or {}).get("canon")) if cn]
    return out


def reachable(crate, roots):
    """functions and closures of `crate` reachable from `roots` through resolved direct calls (closures count with their parent)"""
    seen = {}
    work = list(roots)
    while work:
        f = work.pop()
        if f.canon in seen:
            continue
        seen[f.canon] = f
        for g in crate.fns:
            if g.canon.startswith(f.canon + "::{closure") and g.canon not in seen:
                work.append(g)
        for cn in callee_canons(f):
            g = crate.by_canon.get(cn)
            # trait impls (derived Clone/PartialEq/Hash of the schema types, From conversions) are other properties' business
            if g is not None and g.canon not in seen and not g.impl_trait:
                work.append(g)
    return [f for f in crate.fns if f.canon in seen]


def run(run_, ctx):
    F = ctx.facts("A")
    sc = F.crate("postcard_schema")
    run_.configs.append("A")
    run_.bodies += len(sc.fns)
    # the three public entry points and everything of this crate they can reach (the formatter, the walker, their helpers and
    # closures, wherever they live)
    entry = [f for f in sc.fns if (f.name in ("to_pseudocode", "all_used_types") and (f.impl_self or "").endswith("OwnedDataModelType")) or
             (f.name == "fmt" and (f.impl_trait or "").endswith("fmt::Display") and (f.impl_self or "").endswith("OwnedDataModelType"))]
    for need in ("to_pseudocode", "all_used_types", "fmt"):
        if need not in set(f.name for f in entry):
            run_.bad("ANCHOR", need, "entry point not found")
    fns = reachable(sc, entry)
    local_canons = set(f.canon for f in fns) - set(f.canon for f in entry)

    def discharge(s):
        if s.kind == "assert:BoundsCheck":
            e = s.ev
            try:
                if panlin.discharged(s.path, e):
                    return "guard on the path implies index < len (LIN)"
            except Exception:
                pass
            pcn = [(norm(c), t, k) for c, t, k in s.path.pc[:e["pc"]]]
            if grd.prove(pcn, [], lin.gt(norm(e["len"]), norm(e["index"]))):
                return "guard: !vec.is_empty() dominates vec[0] (LIN)"
        return None
    pan.run_sites(run_, "P", F, fns, discharge)
    for f in fns:
        run_.ok("P", summ.fn_key(f) + " scanned", "all paths explored for panic sites", f.where())
    run_.floor("P", 5)
    # ---- roots by signature ------------------------------------------------------------------------------------------
    def sig(f):
        return [re.sub(r"'\w+ ", "", l["ty"]) for l in f.locals[1:f.argc + 1]]
    def self_recursive(f):
        start = [h for h in fns if h.canon.startswith(f.canon + "::{closure")] + [sc.by_canon[cn] for cn in callee_canons(f) if cn in sc.by_canon and cn != f.canon]
        return f.canon in set(g.canon for g in reachable(sc, start)) or f.canon in callee_canons(f)
    plain = lambda f: f.dk in ("Fn", "AssocFn") and "{closure" not in f.canon
    fmtroot = [f for f in fns if plain(f) and sig(f) == ["&schema::owned::OwnedDataModelType", "&mut std::string::String", "bool"]]
    walkroot = [f for f in fns if plain(f) and len(sig(f)) == 2 and sig(f)[0] == "&schema::owned::OwnedDataModelType" and "HashSet<" in sig(f)[1]]
    if len(walkroot) > 1:
        # a forwarding wrapper and the walker proper have the same signature: the walker is the one that recurses
        rec = [f for f in walkroot if self_recursive(f)]
        if len(rec) > 1:
            # the walk split over mutually recursive functions of the same signature: the walker is the one entered from outside the cycle
            # (the others are analysed in place, as part of it)
            inside = set(g.canon for r in rec for g in [r] + [h for h in fns if h.canon.startswith(r.canon + "::{closure")])
            entered = [r for r in rec if any(r.canon in callee_canons(g) for g in fns if g.canon not in inside)]
            rec = entered if len(entered) == 1 else rec
        walkroot = rec if len(rec) == 1 else walkroot
    # ---- E: entry points (hand-written, in the vocabulary of the semantic summaries; helpers stay calls here) --------------------------
    byk = {summ.fn_key(f): f for f in fns}
    if len(fmtroot) == 1 and len(walkroot) == 1:
        fr, wr = fmtroot[0].def_, walkroot[0].def_
        noinl = lambda g, ev: g.canon in local_canons and g.canon not in (fmtroot[0].canon, walkroot[0].canon)
        ENTRY = {
            "<schema::owned::OwnedDataModelType as ->::to_pseudocode": ["#1 = %s(self, &{String::new()}, true) => after#1(~)" % fr],
            "<schema::owned::OwnedDataModelType as ->::all_used_types": ["#1 = %s(self, &{HashSet::new()}, true) => after#1(~)".replace(", true", "") % wr],
        }
        for k, want in ENTRY.items():
            if k not in byk:
                run_.bad("E", k, "entry point not found")
                continue
            got = [o["text"] for o in summ2.summarize(F, byk[k], inline=noinl)["outcomes"]]
            run_.check(got == want, "E", k, "entry point must render/collect the whole schema as a top-level type into a fresh buffer/set and return it", byk[k].where(),
                       expected=want, found=got)
        k = "<schema::owned::OwnedDataModelType as Display>::fmt"
        if k in byk:
            got = [o["text"] for o in summ2.summarize(F, byk[k], inline=lambda g, ev: g.name == "to_pseudocode" or noinl(g, ev))["outcomes"]]
            okd = len(got) == 2 and all(t.startswith("#1 = %s(self, &{String::new()}, true); #2 = std::fmt::Formatter::<'a>::write_str(arg2, deref(&{after#1(~)}))" % fr) for t in got)
            run_.check(okd, "E", k, "Display must write exactly the pseudocode rendering", byk[k].where(), found=got)
        else:
            run_.bad("E", k, "entry point not found")
    else:
        run_.bad("E", "roots", "formatter / walker root not found by signature (found %d/%d)" % (len(fmtroot), len(walkroot)))
    run_.floor("E", 3)
    # ---- X: the walker visits every nested schema of every node kind (children computed from the ADT tables) --------------------------
    if len(walkroot) == 1:
        root = walkroot[0]
        pol = lambda g, ev: g.canon in local_canons and g.canon != root.canon
        eng = sym.Engine(F, max_visits=3, inline=pol, models=sym.SLICE_MODELS, max_depth=10)
        arms = {}
        complete = {}
        insert_ok = True
        for p in eng.run(root):
            if p.status not in ("return", "cut"):
                continue
            k = None
            for atom, v in p.tagfacts.items():
                if atom[0] == "tag" and isinstance(v, int) and field_path(atom[1]) == ("arg1",):
                    k = v
            evs = tbl.residual_calls(p)
            visits = []
            for e in evs:
                cn = (e["callee"] or {}).get("canon")
                rc = ((e["callee"] or {}).get("resolved") or {}).get("canon")
                if root.canon in (cn, rc):
                    visits.append(tuple("[*]" if re.match(r"^\[\d+\]$|^\[\?\]$", x) else x for x in field_path(e["args"][0])))
            arms.setdefault(k, []).append(visits)
            if p.status == "return":
                complete.setdefault(k, []).append(visits)
            ins = [e for e in evs if e["name"] == "insert" and "HashSet" in (e["key"] or "")]
            if not ins:
                # `if !set.contains(ty) { set.insert(ty.clone()) }`: on the path without the insertion the node is known to be in the set
                con = [e for e in evs if e["name"] == "contains" and "HashSet" in (e["key"] or "") and len(e["args"]) == 2
                       and norm(e["args"][0]) == ("param", 2, root.locals[2]["ty"]) and norm(e["args"][1]) == ("param", 1, root.locals[1]["ty"])]
                known = any(norm(cnd) == norm(e["result"]) and t is True for e in con for cnd, t, kk in p.pc)
                insert_ok = insert_ok and known
                continue
            ins = [e for e in evs if e["name"] == "insert" and "HashSet" in (e["key"] or "")]
            okp = (len(ins) == 1 and norm(ins[0]["args"][0]) == ("param", 2, root.locals[2]["ty"]) and norm(ins[0]["args"][1])[0] == "call"
                   and (norm(ins[0]["args"][1])[2] or "").endswith("Clone::clone") and norm(norm(ins[0]["args"][1])[3][0]) == ("param", 1, root.locals[1]["ty"])
                   and not any(root.canon in ((e["callee"] or {}).get("canon"), ((e["callee"] or {}).get("resolved") or {}).get("canon")) for e in evs[:evs.index(ins[0])]))
            insert_ok = insert_ok and okp
        run_.check(insert_ok, "X", "insert visited node", "the walker must insert exactly the visited node, unconditionally, before descending", root.where(),
                   detail="set.insert(ty.clone()) once on every path, before any recursion; no other insertion")
        adt_ = sc.adts["postcard_schema::schema::owned::OwnedDataModelType"]
        for v in adt_["variants"]:
            want = set(nested_schemas(sc, v, ("arg1", "as " + v["name"])))
            key = "OwnedDataModelType::%s" % v["name"]
            lists = arms.get(v["idx"])
            if lists is None:
                run_.bad("X", key, "no arm of the walker handles this variant", root.where())
                continue
            flat = set(x for l in lists for x in l)
            probs = []
            for w in sorted(want - flat):
                probs.append("nested schema(s) at %s are never visited" % "/".join(w[1:]))
            for x in sorted(flat - want):
                probs.append("visits something that is not a nested schema of this node: %s" % "/".join(x))
            for w in sorted(want & flat):
                if "[*]" in w and max(l.count(w) for l in lists) < 2:
                    probs.append("elements at %s are not visited once per element" % "/".join(w[1:]))
                # a child that is not behind a loop must be visited on every path that returns normally (no early exit past it)
                # (children that exist only for one shape of a nested Data are conditional and judged by the union above)
                if "[*]" not in w and sum(1 for x in w if x.startswith("as ")) == 1 and any(w not in l for l in complete.get(v["idx"], [])):
                    probs.append("nested schema at %s is skipped on some path (an early return before the walk reaches it)" % "/".join(w[1:]))
            run_.check(not probs, "X", key, probs[0] if probs else "children visited: %s" % (sorted("/".join(w[1:]) for w in want) or "none (leaf)"), root.where(), found=probs)
    else:
        run_.bad("X", "discover_tys", "walker root not found by signature")
    run_.floor("X", 27)
    # ---- N: names are rendered: the formatter's appends to the buffer, read with all its helpers/closures analysed in place ------------------
    if len(fmtroot) == 1:
        root = fmtroot[0]
        local = lambda g: g.canon in local_canons
        # the formatter may be split over several functions that all take (node, buffer, ..): one that is handed the *same* node is part of
        # this node's rendering (analysed in place); handed another node it is the recursion into a nested schema (stays a call, like a call
        # of the root itself)
        fam = set(g.canon for g in fns if plain(g) and sig(g)[:2] == ["&schema::owned::OwnedDataModelType", "&mut std::string::String"])
        node0 = ("param", 1, root.locals[1]["ty"])

        def pol(g, ev):
            if not local(g) or g.canon == root.canon:
                return False
            if g.canon in fam:
                a0 = norm(ev["args"][0]) if ev.get("args") else None
                return a0 == node0 or a0 == ("init", ("P", node0)) or a0 == ("ref", ("P", node0))
            return True
        dmt = [v["name"] for v in sc.adts["postcard_schema::schema::owned::OwnedDataModelType"]["variants"]]
        st_ok, en_ok, fld, var_inline = [], [], [], []
        APPEND = ("add_assign", "push_str")
        # ways a &str becomes (part of) a String
        SINKS = APPEND + ("from", "to_string", "to_owned", "into", "clone", "write_str")

        def is_rec(e):
            # a call that stayed a call inside the formatter module: the recursion into a nested schema
            cal = e["callee"] or {}
            cn = (cal.get("resolved") or {}).get("canon") or cal.get("canon") or ""
            return cal.get("krate") == "postcard_schema" and cn in local_canons

        def subject_path(e, argn):
            for a in e["args"]:
                fp = field_path(a)
                if fp and fp[0] == "arg%d" % argn and len(fp) > 1:
                    return fp
            return None
        # the discriminant the formatter dispatches on, then one exploration per arm of interest (top-level Struct with two loop
        # iterations so that first and subsequent fields are seen; top-level Enum with one)
        probe = sym.Engine(F, max_visits=1, inline=pol, models=sym.SLICE_MODELS, max_depth=12, max_paths=60)
        atom0 = None
        for p in probe.run(root):
            for atom, v in p.tagfacts.items():
                if atom[0] == "tag" and isinstance(v, int) and field_path(atom[1]) == ("arg1",):
                    atom0 = atom
        paths_n = []
        truncated = atom0 is None
        for arm, visits in (("Struct", 3), ("Enum", 2)):
            if atom0 is None or arm not in dmt:
                continue
            eng = sym.Engine(F, max_visits=visits, inline=pol, models=sym.SLICE_MODELS, max_depth=12, max_paths=20000, max_steps=200000)
            paths_n += eng.run(root, [None, None, sym.C(1, "bool")], tagfacts={atom0: dmt.index(arm)})
            truncated = truncated or eng.truncated
        for p in paths_n:
            if p.status not in ("return", "cut"):
                continue
            k = None
            for atom, v in p.tagfacts.items():
                if atom[0] == "tag" and isinstance(v, int) and field_path(atom[1]) == ("arg1",):
                    k = v
            name = dmt[k] if k is not None and k < len(dmt) else None
            if name not in ("Struct", "Enum"):
                continue
            seq = []
            for e in tbl.residual_calls(p):
                if e["name"] in APPEND and len(e["args"]) == 2:
                    seq.append(("app", field_path(e["args"][1])))
                elif is_rec(e):
                    seq.append(("rec", subject_path(e, 1) or ()))
            has_name = ("app", ("arg1", "as " + name, "name")) in seq
            (st_ok if name == "Struct" else en_ok).append(has_name)
            if name == "Struct":
                # every field type rendered (rec on x.ty) is preceded by that field's name (ignoring literal separators)
                last_name = None
                for kind, pth in seq:
                    if kind == "app" and pth and pth[-1] == "name" and pth != ("arg1", "as Struct", "name"):
                        last_name = pth[:-1]
                    elif kind == "rec" and pth and pth[-1] == "ty":
                        fld.append(last_name == pth[:-1])
                        last_name = None
            else:
                var_inline.append(any(kind == "app" and pth and pth[-1] == "name" and "variants" in pth for kind, pth in seq))
        if truncated:
            run_.bad("N", "exploration", "path exploration of the formatter was truncated (too many paths)", root.where())
        run_.check(bool(st_ok) and all(st_ok), "N", "struct name + fields", "a top-level struct must render its own name on every path", root.where())
        run_.check(bool(en_ok) and all(en_ok), "N", "enum name + variants", "a top-level enum must render its own name on every path", root.where())
        run_.check(len(fld) >= 3 and all(fld), "N", "field names", "every named field must be rendered with its name right before its type (first and subsequent fields)", root.where(),
                   detail="%d field renderings on the explored paths, each preceded by the field's name" % len(fld))
        # variants are rendered by whatever function or closure of the formatter takes an &OwnedVariant (usually a mapping closure
        # &OwnedVariant -> String), or in place inside the loop over the variants: the name first, then the payload
        vcl = [f for f in fns if local(f) and f.canon != root.canon and any("OwnedVariant" in l["ty"] and "[" not in l["ty"] for l in f.locals[1:f.argc + 1])]
        okv = False
        for f in vcl:
            vi = [i for i in range(1, f.argc + 1) if "OwnedVariant" in f.locals[i]["ty"]][0]
            eng2 = sym.Engine(F, max_visits=3, inline=pol, models=sym.SLICE_MODELS, max_depth=12)
            good = []
            for p in eng2.run(f):
                if p.status not in ("return", "cut"):
                    continue
                seq = []
                for e in tbl.residual_calls(p):
                    fps = [field_path(a) for a in e["args"]]
                    fps = [fp for fp in fps if fp and fp[0] == "arg%d" % vi]
                    if e["name"] in SINKS and any(fp[-1] == "name" for fp in fps):
                        seq.append("name")
                    elif any("data" in fp for fp in fps) and e["name"] not in ("deref", "as_ref", "index", "len"):
                        seq.append("data")
                good.append(bool(seq) and seq[0] == "name")
            okv = okv or (bool(good) and all(good))
        if not vcl:
            okv = bool(var_inline) and any(var_inline)
        run_.check(okv, "N", "variant name before payload", "each variant must render its name and then its data", root.where(),
                   detail="%d variant-rendering function(s)/closure(s)" % len(vcl))
    else:
        run_.bad("N", "fmt_owned_dmt_to_buf", "formatter root not found by signature")
    run_.floor("N", 4)
    run_.explanation = (
        "All %d functions/closures reachable from to_pseudocode, all_used_types and Display::fmt inside postcard-schema are explored on all MIR paths; "
        "explicit panics and MIR assertions are listed and must be discharged (linear arithmetic from the guards on the path). The walker (found by signature "
        "and recursion) must, for each of the 26+4 variants, visit exactly the schema-typed fields given by the ADT tables (directly, per element inside a loop, "
        "unconditional children on every returning path) and insert only the visited node (directly or under !contains) before descending. The formatter "
        "(found by signature), explored per arm with all helpers in place, must append a top-level struct's / enum's own name, each field name right before "
        "its type and each variant name before its payload." % len(fns))
    run_.trusted += ["String::add_assign / HashSet::insert / Vec::push / join / format! do not panic", "stack depth unbounded"]
