"""Shared context for property modules."""
import facts
import tbl


class Ctx:
    def __init__(self, tier, seed=0, root=None):
        self.tier = tier
        self.seed = seed
        self.root = root
        self._helpers = {}

    def facts(self, config="A"):
        return facts.load(config, self.root)

    def helpers(self, config="A"):
        if config not in self._helpers:
            self._helpers[config] = tbl.Helpers(self.facts(config))
        return self._helpers[config]
