"""C12 — POSTCARD_MAX_SIZE is an upper bound on the encoded size of every value.

Size algebra from spec/src/wire-format.md: bool,u8,i8 -> 1; u/iN -> ceil(N/7); f32 -> 4; f64 -> 8; char -> 1+4; () -> 0; Option<T> -> 1+T;
Result<T,E> -> 1+max(T,E); [T;N] -> N*T; tuples/structs -> sum; &T,&mut T,Box,Rc,Arc -> T; NonZero* -> base; PhantomData -> 0;
Range,RangeInclusive -> 2T; RangeFrom,RangeTo -> T; heapless::Vec<T,N> -> vlen(N)+N*T; heapless::String<N> -> vlen(N)+N;
enum -> vlen(largest index) + max over variants;  vlen(n) = max(1, ceil(bitlen(n)/7)).

C12.E  every `impl MaxSize` of postcard has an oracle row keyed by its self type (an impl without a row fails closed).
C12.S  symbolic: the constant initialiser (HIR) is turned into a polynomial over the atoms <T as MaxSize>::MAX, N, max(.,.), varint_size(N)
       and must equal the specification's polynomial (all built-in bounds are claimed tight).
C12.H  helpers: `max` returns an argument >= both on both paths; `varint_size(n)` equals vlen(n) for n = 0 and for every bit length 1..64
       (it uses n only through `== 0` and leading_zeros: 65 abstract cases, evaluated by constant folding of its MIR); `varint_max::<T>()` equals
       ceil(8*size_of::<T>()/7) for the primitive sizes.
C12.W  witnesses: a harness crate holds `const` assertions `POSTCARD_MAX_SIZE == / >= spec` for every concrete impl, generic impls at
       separating instances, heapless capacities around every power of two up to 2^22, and a derive corpus (unit/newtype/tuple/named, generics,
       nesting, enums with 0,1,2,127,128,129 variants) using the in-repo postcard_derive::MaxSize. A violating tree does not compile.
"""
import os
import re

import c14
import hirtree
import summ
import sym
import tbl
from tbl import norm
from hirtree import size_poly, p_const, p_add, p_mul, p_atom, freeze
from sym import C

LEVEL = "other"
MANIFEST = {
    "text": "Static comparison of every MaxSize constant with the wire-format size algebra: symbolically for generic impls (polynomial identity over "
            "type-parameter atoms), by constant folding for the helper functions on all 65 bit-length classes, and by compile-time const assertions in a "
            "harness crate for concrete instances and a derive corpus (a violating tree fails to build, the assertion names the type). The bound is a "
            "property of the type's shape, so it covers every value once C02 fixes per-kind lengths.",
    "note": "Derive inputs outside the corpus shapes are covered only by the corpus (unit/newtype/tuple/named structs, four variant forms, generics, nesting, "
            "0/1/2/127/128/129 variants); #[serde(...)] attributes that change a shape are out of scope. Trusted: rustc const evaluation, C02's per-kind lengths.",
    "technique": "static analysis: constant bodies (MIR/HIR) -> polynomial identity against the spec's size algebra + constant-folded helper evaluation + const-assert compile witnesses",
}

PRIM = {"bool": 1, "u8": 1, "i8": 1, "f32": 4, "f64": 8, "char": 5, "()": 0}
for _t, _b in (("u16", 16), ("i16", 16), ("u32", 32), ("i32", 32), ("u64", 64), ("i64", 64), ("u128", 128), ("i128", 128), ("usize", 64), ("isize", 64)):
    PRIM[_t] = (_b + 6) // 7


def sz(t):
    return p_atom(("sz", t))


def spec_for(st):
    """specification polynomial for an impl's self type, or None"""
    if st in PRIM:
        return p_const(PRIM[st])
    m = re.match(r"^std::num::NonZero<(\w+)>$", st)
    if m and m.group(1) in PRIM:
        return p_const(PRIM[m.group(1)])
    if st == "std::option::Option<T>":
        return p_add(sz("T"), p_const(1))
    if st == "std::result::Result<T, E>":
        a, b = sorted([freeze(sz("T")), freeze(sz("E"))], key=repr)
        return p_add(p_atom(("max", a, b)), p_const(1))
    if st == "[T; N]":
        return p_mul(sz("T"), p_atom(("N", "N")))
    if st in ("&T", "&mut T", "std::boxed::Box<T>", "std::rc::Rc<T>", "std::sync::Arc<T>", "std::ops::RangeFrom<T>", "std::ops::RangeTo<T>"):
        return sz("T")
    if st in ("std::ops::Range<T>", "std::ops::RangeInclusive<T>"):
        return p_mul(sz("T"), p_const(2))
    if st == "std::marker::PhantomData<T>":
        return {}
    m = re.match(r"^\((\w(?:, \w)*),?\)$", st)
    if m:
        p = {}
        for x in m.group(1).split(", "):
            p = p_add(p, sz(x))
        return p
    if st == "heapless::Vec<T, N>":
        return p_add(p_atom(("vsize", "N")), p_mul(sz("T"), p_atom(("N", "N"))))
    if st == "heapless::String<N>":
        return p_add(p_atom(("vsize", "N")), p_atom(("N", "N")))
    return None


def resolve(poly):
    """rewrite atoms: concrete sz(prim) -> number; sz([T; N]) -> N*sz(T); calls to varint_max::<ty> -> number; varint_size(N) -> vsize atom"""
    out = {}
    for mono, c in poly.items():
        term = {(): c}
        for a in mono:
            term = p_mul(term, resolve_atom(a))
        out = p_add(out, term)
    return out


def resolve_atom(a):
    if a[0] == "sz":
        t = a[1]
        if t in PRIM:
            return p_const(PRIM[t])
        m = re.match(r"^\[(\w+); (\w+)\]$", t or "")
        if m:
            n = m.group(2)
            return p_mul(resolve_atom(("sz", m.group(1))), p_const(int(n)) if n.isdigit() else p_atom(("N", n)))
        return p_atom(a)
    if a[0] == "call" and a[1] == "varint_max" and len(a[2]) == 1 and a[2][0] in sym.SIZES:
        return p_const((8 * sym.SIZES[a[2][0]] + 6) // 7)
    if a[0] == "call" and a[1] == "varint_size" and len(a[3]) == 1:
        inner = dict(a[3][0])
        if list(inner.keys()) == [(("N", "N"),)] and inner[(("N", "N"),)] == 1:
            return p_atom(("vsize", "N"))
    if a[0] == "max":
        x, y = sorted([freeze(resolve(dict(a[1]))), freeze(resolve(dict(a[2])))], key=repr)
        return p_atom(("max", x, y))
    return p_atom(a)


def poly_of_term(F, p, t, depth=0):
    """size polynomial of a MIR term of a POSTCARD_MAX_SIZE initialiser (evaluated by the path-sensitive evaluator)"""
    k = t[0]
    if k == "c":
        return p_const(t[1])
    if k == "constref" and t[3] == "POSTCARD_MAX_SIZE":
        return p_atom(("sz", c14.norm_self(t[2][0]) if t[2] else "?"))
    if k == "tyconst":
        return p_atom(("N", str(t[1]).split("/")[0]))
    if k == "bin" and t[1] in ("Add", "Mul"):
        a, b = poly_of_term(F, p, t[2], depth + 1), poly_of_term(F, p, t[3], depth + 1)
        return p_add(a, b) if t[1] == "Add" else p_mul(a, b)
    if k == "cast" and t[1] == "IntToInt":
        return poly_of_term(F, p, t[2], depth + 1)
    if k == "call":
        ev = tbl.event_by_id(p, t[1])
        nm = (t[2] or "").rsplit("::", 1)[-1]
        gargs = tuple(ev["callee"]["args"]) if ev and ev.get("callee") else ()
        return p_atom(("call", nm, gargs, tuple(freeze(poly_of_term(F, p, a, depth + 1)) for a in t[3])))
    return p_atom(("?", "term %s" % k))


def size_poly_mir(F, pc, c):
    """POSTCARD_MAX_SIZE initialiser -> polynomial, from the constant's MIR: blocks, lets, tuple patterns, helper calls and
    `if a > b { a } else { b }` are evaluated, the latter read back as max(a, b)"""
    f = pc.by_canon.get(c.get("canon"))
    if f is None:
        return None
    eng = sym.Engine(F, inline=lambda g, ev: g.crate == "postcard" and (sym.inline_consts(g, ev) or len(g.blocks) <= 12), max_visits=3)
    ps = [p for p in eng.run(f) if p.status != "infeasible"]
    if any(p.status != "return" for p in ps) or not ps:
        return None
    if len(ps) == 1:
        return poly_of_term(F, ps[0], ps[0].ret)
    if len(ps) == 2:
        conds = [[(cc, t) for cc, t, k in p.pc if k == "branch"] for p in ps]
        if all(len(x) == 1 for x in conds) and norm(conds[0][0][0]) == norm(conds[1][0][0]) and conds[0][0][1] != conds[1][0][1]:
            cc = norm(conds[0][0][0])
            if cc[0] == "bin" and cc[1] in ("Gt", "Ge", "Lt", "Le"):
                X, Y = poly_of_term(F, ps[0], cc[2]), poly_of_term(F, ps[0], cc[3])
                # which path is taken when X is the larger one
                big_first = cc[1] in ("Gt", "Ge")
                pT = ps[0] if conds[0][0][1] is True else ps[1]
                pF = ps[1] if pT is ps[0] else ps[0]
                RX = poly_of_term(F, pT if big_first else pF, (pT if big_first else pF).ret)      # result when X wins
                RY = poly_of_term(F, pF if big_first else pT, (pF if big_first else pT).ret)      # result when Y wins
                restX = p_add(RX, {m: -v for m, v in X.items()})
                restY = p_add(RY, {m: -v for m, v in Y.items()})
                if restX == restY:
                    a, b = sorted([freeze(X), freeze(Y)], key=repr)
                    return p_add(restX, p_atom(("max", a, b)))
    return None


def expand_sz(poly, impls, depth=0):
    """MAX<composite type> atoms (e.g. MAX<(T, T)>) are replaced by the polynomial of the impl they name"""
    if depth > 4:
        return poly
    out = {}
    changed = False
    for mono, cf in poly.items():
        term = {(): cf}
        for a in mono:
            rep = None
            if a[0] == "sz" and not re.fullmatch(r"\w+", a[1] or "") and a[1] not in PRIM:
                for pat, gens, ipoly in impls:
                    b = {}
                    if sym.unify_ty(pat, a[1], set(gens), b):
                        rep = subst_sz(ipoly, b)
                        break
            if rep is not None:
                changed = True
                term = p_mul(term, rep)
            else:
                term = p_mul(term, p_atom(a))
        out = p_add(out, term)
    return expand_sz(resolve(out), impls, depth + 1) if changed else out


def subst_sz(poly, b):
    out = {}
    for mono, cf in poly.items():
        term = {(): cf}
        for a in mono:
            if a[0] == "sz" and a[1] in b:
                a = ("sz", b[a[1]])
            elif a[0] == "N" and a[1] in b:
                a = ("N", b[a[1]]) if not str(b[a[1]]).isdigit() else None
                if a is None:
                    term = p_mul(term, p_const(int(b[[k for k in b][0]])))
                    continue
            term = p_mul(term, p_atom(a))
        out = p_add(out, term)
    return out


def show_poly(p):
    if not p:
        return "0"
    parts = []
    for mono, c in sorted(p.items(), key=repr):
        atoms = []
        for a in mono:
            if a[0] == "sz":
                atoms.append("MAX<%s>" % a[1])
            elif a[0] == "N":
                atoms.append(a[1])
            elif a[0] == "vsize":
                atoms.append("vlen(%s)" % a[1])
            elif a[0] == "max":
                atoms.append("max(%s, %s)" % (show_poly(dict(a[1])), show_poly(dict(a[2]))))
            else:
                atoms.append(repr(a))
        parts.append(("%d*" % c if c != 1 or not atoms else "") + "*".join(atoms) if atoms else str(c))
    return " + ".join(parts)


def vlen(n):
    return max(1, (n.bit_length() + 6) // 7)


def run(run_, ctx):
    F = ctx.facts("A")
    pc = F.crate("postcard")
    run_.configs.append("A")
    run_.bodies += len(pc.fns)
    # ---- E + S ---------------------------------------------------------------------------------------------------
    n = 0
    polys = {}
    for c in pc.consts:
        if c["name"] != "POSTCARD_MAX_SIZE" or not (c.get("impl_trait") or "").endswith("max_size::MaxSize"):
            continue
        p0 = size_poly_mir(F, pc, c)
        if p0 is None or any(a[0] == "?" for m in p0 for a in m):
            p0 = size_poly(c["hir"])
        polys[c["canon"]] = resolve(p0)
    impls = [(re.sub(r"&'_ ", "&", c14.norm_self(c.get("impl_self"))), c.get("generics") or [], polys[c["canon"]]) for c in pc.consts if c.get("canon") in polys]
    for c in pc.consts:
        if c["name"] != "POSTCARD_MAX_SIZE" or not (c.get("impl_trait") or "").endswith("max_size::MaxSize"):
            continue
        st = c14.norm_self(c.get("impl_self"))
        st = re.sub(r"&'_ ", "&", st)
        site = "%s:%s" % (c.get("file"), c.get("line"))
        mp = c14.alpha_map(st) if re.match(r"^\(", st) else {}
        spec = spec_for(c14.alpha_str(st, {k: chr(ord("A") + i) for i, k in enumerate(mp)}) if mp else st)
        if mp and spec is not None:
            back = {chr(ord("A") + i): k for i, k in enumerate(mp)}
            spec = subst_sz(spec, back)
        n += 1
        if spec is None:
            run_.bad("E", st, "impl MaxSize for %s has no row in the size-algebra oracle (new impl: add its wire size)" % st, site)
            continue
        run_.ok("E", st, "oracle row present", site)
        got = expand_sz(polys[c["canon"]], [x for x in impls if x[0] != st])
        run_.check(got == spec, "S", st, "declared maximum %s differs from the wire-format size %s" % (show_poly(got), show_poly(spec)), site,
                   expected=show_poly(spec), found=show_poly(got), detail="POSTCARD_MAX_SIZE = %s" % show_poly(got))
    run_.floor("E", 49)
    run_.floor("S", 49)
    # ---- H ---------------------------------------------------------------------------------------------------------
    # helpers are found by name and signature wherever in the crate they live
    free = lambda f: not f.impl_self and "{closure" not in f.canon
    usz = lambda f, n: f.argc == n and all(f.locals[i]["ty"] == "usize" for i in range(0, n + 1))
    fmax = [f for f in pc.fns if f.name == "max" and free(f) and usz(f, 2)]
    if len(fmax) == 1:
        import summ2
        got = summ2.summarize(F, fmax[0])
        L = lambda lo, hi: [[["lin", "arg1 - arg2", [[lo, hi]]]]]
        vars_ = {"arg1 - arg2": [["arg1", "1", True], ["arg2", "-1", True]]}
        mk = lambda a, b: {"outcomes": [{"text": "- => arg1", "when": L(*a)}, {"text": "- => arg2", "when": L(*b)}], "vars": vars_, "truncated": False}
        # the larger argument on both sides; on a tie either (they are equal)
        okm = any(not summ2.compare(mk(a, b), got) for a, b in (((1, None), (None, 0)), ((0, None), (None, -1))))
        ls = [o["text"] for o in got["outcomes"]]
        run_.check(okm, "H", "max", "helper `max` does not return the larger of its arguments on both paths", fmax[0].where(), found=ls)
    elif any(a[0] == "call" and a[1] == "max" for p_ in polys.values() for m in p_ for a in m):
        run_.bad("H", "max", "a size constant calls a helper `max` that was not found")
    else:
        run_.ok("H", "max", "no `max` helper in use (maxima are computed in place and read back from the constants' MIR)")
    fvs = [f for f in pc.fns if f.name == "varint_size" and free(f) and usz(f, 1)]
    if len(fvs) == 1:
        f = fvs[0]
        bad = []
        cases = [0] + [1 << k for k in range(64)] + [(1 << k) - 1 for k in range(1, 65)]
        for v in cases:
            eng = sym.Engine(F, inline=sym.inline_consts, max_visits=16)
            ps = [p for p in eng.run(f, [C(v, "usize")]) if p.status == "return"]
            if len(ps) != 1 or not sym.is_c(ps[0].ret):
                bad.append("varint_size(%d) does not fold to a constant" % v)
                break
            if ps[0].ret[1] != vlen(v):
                bad.append("varint_size(%d) = %d, a length prefix of %d needs %d byte(s)" % (v, ps[0].ret[1], v, vlen(v)))
        # it must use n only through ==0 and leading_zeros (so the 129 samples cover all 65 classes)
        ls = summ.lines(summ.summarize(F, f))
        uses = " ".join(ls)
        closed = not re.search(r"arg1", re.sub(r"leading_zeros\(arg1\)|0 [!=]= arg1", "", uses))
        if not closed:
            # not the closed form over the bit length: then it must be the counting loop, whose value changes only where the argument
            # crosses a power of 128; the samples 2^k - 1 and 2^k for every k include both sides of each such point, and between two
            # consecutive samples the loop's comparisons `n >= 128` after each `>> 7` have the same outcomes
            eng2 = sym.Engine(F, inline=sym.inline_consts, max_visits=3)
            conds = set()
            for p in eng2.run(f):
                for cnd, t, k in p.pc:
                    if k == "branch":
                        conds.add(sym.show(norm(cnd)))
            okc = all(re.fullmatch(r"(Lt|Le|Gt|Ge|Eq|Ne)\((Shr\()*arg1(, \d+_u32\))*, \d+_usize\)", x) or re.fullmatch(r"(Lt|Le|Gt|Ge|Eq|Ne)\(\d+_usize, (Shr\()*arg1(, \d+_u32\))*\)", x) for x in conds)
            consts = [int(x) for cnd in conds for x in re.findall(r"(\d+)_usize", cnd)]
            if not okc or any(v & (v - 1) for v in consts):
                bad.append("varint_size branches on something other than comparisons of its (shifted) argument with powers of two: %s" % sorted(conds)[:3])
        run_.check(not bad, "H", "varint_size", bad[0] if bad else "= vlen(n) for n = 0 and every bit length 1..64 (%d folded evaluations)" % len(cases), f.where(), found=bad[:3])
    else:
        run_.bad("H", "varint_size", "helper not found")
    fvm = [f for f in pc.fns if f.name == "varint_max" and free(f) and usz(f, 0)]
    if len(fvm) == 1:
        f = fvm[0]
        bad = []
        for ty, size in (("u8", 1), ("u16", 2), ("u32", 4), ("u64", 8), ("u128", 16), ("usize", 8), ("i16", 2), ("i128", 16)):
            eng = sym.Engine(F, max_visits=2, inline=sym.inline_consts)
            eng.root_subst = {"T": ty}
            ps = [p for p in eng.run(f) if p.status == "return"]
            if len(ps) != 1 or not sym.is_c(ps[0].ret) or ps[0].ret[1] != (8 * size + 6) // 7:
                bad.append("varint_max::<%s>() = %s, expected %d" % (ty, sym.show(ps[0].ret) if ps else "?", (8 * size + 6) // 7))
        run_.check(not bad, "H", "varint_max", bad[0] if bad else "= ceil(8*size_of::<T>()/7) for all primitive widths", f.where(), found=bad)
    else:
        run_.bad("H", "varint_max", "helper not found")
    run_.floor("H", 3)
    # ---- W ---------------------------------------------------------------------------------------------------------
    src = open(os.path.join(os.path.dirname(os.path.dirname(os.path.abspath(__file__))), "harness", "corpus", "src", "sizes.rs")).read()
    asserts = re.findall(r"^(tight|bound)!\((.*?), (.*)\);\s*$", src, re.M)
    hl = re.search(r"^hl!\(([^;]*)\);", src, re.M | re.S)
    hl_n = len([x for x in hl.group(1).replace("\n", " ").split(",") if x.strip()]) if hl else 0
    cr, err = c14.corpus_facts(ctx.root)
    if cr is None:
        msgs = re.findall(r"POSTCARD_MAX_SIZE of (.*?) is (not the tight bound|below the largest encoding) ([^\n\"]*)", err or "")
        if msgs:
            for ty, kind, e in sorted(set(m for m in msgs if "stringify" not in m[0])):
                run_.bad("W", ty, "const assertion failed: POSTCARD_MAX_SIZE of %s is %s %s" % (ty, kind, e))
        else:
            run_.bad("W", "harness", "witness crate does not build against the current tree: %s" % (err or "")[-800:])
    else:
        for kind, ty, e in asserts:
            run_.ok("W", ty, "const assert %s %s holds (crate compiled)" % ("==" if kind == "tight" else ">=", e), method="const-assert")
        for i in range(hl_n):
            pass
        run_.ok("W", "heapless::Vec<u8,N> / String<N> at %d capacities" % hl_n, "const asserts hold (crate compiled)", method="const-assert")
    if cr is not None:
        run_.floor("W", 74)
    run_.extra["const_assertions"] = len(asserts) + 2 * hl_n
    run_.explanation = (
        "All %d `impl MaxSize` constants of postcard are read as resolved HIR trees, turned into polynomials over type-parameter atoms and compared with the "
        "specification's size algebra (equality: the built-in bounds are tight). `varint_size` is shown to use its argument only through ==0/leading_zeros and is "
        "constant-folded from MIR on 129 arguments covering all 65 classes; `max` and `varint_max` are checked likewise. %d const assertions (concrete impls, "
        "separating generic instances, heapless capacities around every power of two to 2^22, and a derive corpus with 0/1/2/127/128/129-variant enums) must "
        "compile against /repo's current tree." % (n, len(asserts) + 2 * hl_n))
    run_.trusted += ["rustc const evaluation", "per-kind encoded lengths (C02)"]
