"""C01 — encode/decode round-trip is the identity for every serde data-model value.

C01.T1  inverse tables: for every data-model kind the serializer method emits the table cell of C02.T1 and the matching
        deserializer method reads the inverse cell of C03.T1 (RAW<->POP, VAR<N><->RDVAR<N> same N, ZZ<N><->UNZZ<N>,
        4/8 LE bytes <-> TAKE 4/8 + from_le_bytes + from_bits, length prefix <-> length read, tag 0/1 <-> match 0/1,
        VAR<32>(index) <-> RDVAR<32>, nothing <-> no read, compound element <-> one recursive deserialize).
C01.B1  helper inverses (BIT): reader(writer(v)) = v consuming exactly the bytes written follows from both being equal to the
        specification's canonical LEB128 map / its inverse on canonical inputs for ALL values; unzigzag(zigzag(n)) = n likewise.
C01.P1  plumbing: every encode entry point = serialize_with_flavor(value, <storage>) [serialize then finalize]; every decode
        entry point = T::deserialize(&mut Deserializer{flavor}) [+ finalize for take_*/from_io]; nothing else touches the flavor.
C01.S1  storage is the identity: ser::Slice / HVec / AllocVec / ExtendFlavor / WriteFlavor store each byte given at the next
        position and hand back exactly what was stored; de::Slice / IOReader return the bytes at the cursor in order and the unread tail.
"""
import c02
import c03
import glue
import summ
import sym
from c20 import _Sub
from glueprops import run_groups

LEVEL = "other"
MANIFEST = {
    "text": "Static argument for round-trip identity per data-model kind: writer and reader table cells are inverse pairs (checked "
            "on every MIR path of all 47+42 serde methods), the integer helpers are proven inverse for ALL values by the bit-affine "
            "domain, every public entry point is plumbing around one generic Serializer/Deserializer, and every storage flavor is the "
            "identity on the byte stream. Floats survive bit-for-bit because only to_bits/to_le_bytes/from_le_bytes/from_bits are applied.",
    "note": "Trusted: serde's Serialize/Deserialize impls of std and user types (their side of the contract), std primitives, rustc MIR. 64-bit host only. "
            "Equality of decoded values for user types is serde's; we decide that the bytes written are read back by the inverse operation.",
    "technique": "static analysis: per-kind writer/reader table agreement on path-sensitive MIR evaluation + bit-affine (GF(2)) abstract interpretation of the integer helpers + semantic summaries of entry points and storage flavors compared with specifications",
}

PAIRS = [
    ("bool", "serialize_bool", "deserialize_bool"), ("i8", "serialize_i8", "deserialize_i8"), ("u8", "serialize_u8", "deserialize_u8"),
    ("i16", "serialize_i16", "deserialize_i16"), ("i32", "serialize_i32", "deserialize_i32"), ("i64", "serialize_i64", "deserialize_i64"),
    ("i128", "serialize_i128", "deserialize_i128"), ("u16", "serialize_u16", "deserialize_u16"), ("u32", "serialize_u32", "deserialize_u32"),
    ("u64", "serialize_u64", "deserialize_u64"), ("u128", "serialize_u128", "deserialize_u128"), ("f32", "serialize_f32", "deserialize_f32"),
    ("f64", "serialize_f64", "deserialize_f64"), ("char", "serialize_char", "deserialize_char"), ("str", "serialize_str", "deserialize_str"),
    ("string", "serialize_str", "deserialize_string"), ("bytes", "serialize_bytes", "deserialize_bytes"),
    ("byte_buf", "serialize_bytes", "deserialize_byte_buf"), ("none", "serialize_none", "deserialize_option"),
    ("some", "serialize_some", "deserialize_option"), ("unit", "serialize_unit", "deserialize_unit"),
    ("unit_struct", "serialize_unit_struct", "deserialize_unit_struct"), ("unit_variant", "serialize_unit_variant", "variant_seed"),
    ("newtype_struct", "serialize_newtype_struct", "deserialize_newtype_struct"),
    ("newtype_variant", "serialize_newtype_variant", "newtype_variant_seed"), ("seq", "serialize_seq", "deserialize_seq"),
    ("tuple", "serialize_tuple", "deserialize_tuple"), ("tuple_struct", "serialize_tuple_struct", "deserialize_tuple_struct"),
    ("tuple_variant", "serialize_tuple_variant", "tuple_variant"), ("map", "serialize_map", "deserialize_map"),
    ("struct", "serialize_struct", "deserialize_struct"), ("struct_variant", "serialize_struct_variant", "struct_variant"),
    ("enum", "serialize_unit_variant", "deserialize_enum"), ("seq element", "serialize_element", "next_element_seed"),
    ("str via Display (collect_str)", "collect_str", "deserialize_str"),
    ("map key", "serialize_key", "next_key_seed"), ("map value", "serialize_value", "next_value_seed"),
]


class _Collect:
    """collects c02/c03 method verdicts keyed by method name"""

    def __init__(self):
        self.v = {}

    def ok(self, rule, key, detail="", site=None, method=None):
        self.v.setdefault(key.split("::")[-1], []).append((True, detail, site))

    def bad(self, rule, key, what, site=None, expected=None, found=None):
        self.v.setdefault(key.split("::")[-1], []).append((False, what, site))

    def check(self, cond, rule, key, what, site=None, expected=None, found=None, detail=""):
        (self.ok if cond else self.bad)(rule, key, what, site)


def run(run_, ctx):
    F = ctx.facts("A")
    helpers = ctx.helpers("A")
    pc = F.crate("postcard")
    run_.configs.append("A")
    run_.bodies += len(pc.fns)
    # T1: evaluate both tables once, then pair them per kind
    ser, de = _Collect(), _Collect()
    for f in pc.fns:
        if f.dk != "AssocFn":
            continue
        if f.impl_self == c02.SELF_TY and (f.impl_trait == c02.SER_TRAIT or f.impl_trait in c02.COMPOUND):
            c02.check_method(ser, F, helpers, f)
        s = f.impl_self or ""
        if (c03.is_deser_self(s) and f.impl_trait in (c03.DE_TRAIT, "serde_core::de::VariantAccess", "serde_core::de::EnumAccess")) or \
                c03.is_access_impl(f):
            if f.name != "size_hint":
                c03.check_method(de, F, helpers, f)
    for kind, sm, dm in PAIRS:
        sv, dv = ser.v.get(sm), de.v.get(dm)
        if not sv or not dv:
            run_.bad("T1", kind, "method pair %s / %s not found (%s)" % (sm, dm, "writer missing" if not sv else "reader missing"))
            continue
        bads = [w for okv, w, site in sv if not okv] + [w for okv, w, site in dv if not okv]
        site = sv[0][2]
        run_.check(not bads, "T1", kind, ("%s / %s are not inverse: " % (sm, dm)) + (bads[0] if bads else ""), site, found=bads,
                   detail="%s writes what %s reads back" % (sm, dm))
    # serde's own impls (net addresses, and third-party types such as uuid/chrono) choose between a compact and a textual form by asking
    # the format; the writer and the reader must give the same answer (serde's default, when the method is not overridden, is `true`)
    def human_readable(trait, self_prefix):
        fs = [f for f in pc.fns if f.name == "is_human_readable" and f.impl_trait == trait and (f.impl_self or "").startswith(self_prefix)]
        if not fs:
            return True, None
        ps = [p for p in sym.Engine(F, max_visits=2).run(fs[0]) if p.status == "return"]
        vals = set(p.ret[1] if sym.is_c(p.ret) else None for p in ps)
        return (bool(vals.pop()) if len(vals) == 1 and None not in vals else None), fs[0]
    hs, fs_ = human_readable("serde_core::ser::Serializer", "&mut ser::serializer::Serializer<")
    hd, fd_ = human_readable("serde_core::de::Deserializer", "&mut de::deserializer::Deserializer<")
    run_.check(hs is not None and hs == hd, "T1", "is_human_readable",
               "Serializer answers is_human_readable() = %s but Deserializer answers %s: types that pick their representation by this flag do not round-trip" % (hs, hd),
               (fs_ or fd_).where() if (fs_ or fd_) else None, detail="both sides answer %s" % hs)
    run_.floor("T1", 38)
    # B1
    for (kind, canon, *rest), (info, why) in sorted(helpers.memo.items(), key=lambda kv: str(kv[0])):
        nm = {"W": "canonical varint writer", "R": "varint reader", "ZE": "zig-zag", "ZD": "inverse zig-zag"}.get(kind)
        if nm:
            if info:
                run_.ok("B1", canon, "%s equals the specification map for all %d-bit values" % (nm, info["N"]), method="BIT")
            else:
                run_.bad("B1", canon, "%s not verified: %s" % (nm, why))
    run_.floor("B1", 17)
    # P1 / S1
    nocc = lambda k: "cobs" not in k and "crc" not in k
    run_groups(run_, ctx, [
        ("P1", "ser_entry", nocc, "encode entry point"),
        ("P1", "de_entry", nocc, "decode entry point"),
        ("P1", "de_core", None, "Deserializer constructor/finalize"),
        ("S1", "ser_slice", lambda k: "Index" not in k, "slice storage"),
        ("S1", "ser_storage", lambda k: "Index" not in k and "Size" not in k, "vector/extend storage"),
        ("S1", "ser_writer", None, "writer storage"),
        ("S1", "de_slice", None, "slice source"),
        ("S1", "de_reader", None, "reader source"),
        ("S1", "de_sliding", None, "scratch buffer"),
    ])
    run_.floor("P1", 16)
    run_.floor("S1", 40)
    run_.explanation = (
        "Per data-model kind the serializer-side table cell (C02) and the deserializer-side cell (C03) are evaluated on all MIR paths and "
        "required to hold together (36 kind pairs); the 17 integer helpers are proven equal to the specification's maps for all values by "
        "BIT, hence mutually inverse with exact consumption; all non-COBS/CRC entry points and all storage flavors are compared with "
        "specified canonical summaries showing they only construct the flavor, drive the generic (de)serializer, and store/return bytes unchanged.")
    run_.trusted += ["serde Serialize/Deserialize impls for std/user types", "std to_bits/from_bits/to_le_bytes/from_le_bytes/encode_utf8/from_utf8", "heapless::Vec, alloc::Vec, Extend contracts"]
    run_.assumptions += ["64-bit host (usize handled by the 64-bit helpers)"]
