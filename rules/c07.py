"""C07 — COBS decoding of arbitrary bytes is total and agrees with the COBS definition.

C07.M  both decode calls map their error to DeserializeBadEncoding (closure constant) and nothing else produces it there.
C07.P  panic sites of the two functions: the slice/split/arith sites are discharged from the cobs DecodeReport contract
       (dst_used <= src_used <= len, table entry) plus LIN: `src_used + 1` is guarded by s.get(src_used)==Some(&0) => src_used < len.
C07.R  remainder identity (= C06.DX); C07.S the decoded prefix is handed to the same `from_bytes` as the plain path.
Decides the glue; agreement of cobs::decode_in_place with the COBS definition on malformed input is the cobs crate's contract.
"""
import glue
import lin
import pan
import panlin
import summ2
import summ
import sym
import tbl
import c06
from glueprops import run_groups
from tbl import norm

LEVEL = "other"
MANIFEST = {
    "text": "Static check of the two COBS decode entry points on every path: error mapping to DeserializeBadEncoding, decoded prefix "
            "forwarded to the plain decoder, remainder offset identity, and discharge of every panic site (index/split/add/sub) from "
            "the guard s.get(src_used)==Some(&0) and the DecodeReport contract dst_used <= src_used <= len.",
    "note": "Trusted (external contract table): cobs::decode_in_place_report returns dst_used <= src_used <= s.len(); decode_in_place returns n <= s.len(). cobs' own totality on malformed frames is not analysed.",
    "technique": "static analysis: semantic MIR summaries + error-kind path rule + panic-site enumeration with linear-arithmetic and contract discharge",
}

CONTRACT_OPERANDS = {
    "okval(#1).dst_used": "dst_used <= len",
    "Sub(okval(#1).src_used, okval(#1).dst_used)": "src_used - dst_used <= len - dst_used",
    "Sub(Add(okval(#1).src_used, 1), okval(#1).dst_used)": "with the probe: src_used + 1 <= len",
    "RangeTo{end: okval(#1)}": "decode_in_place n <= len",
}
CONTRACT = "cobs::DecodeReport{dst_used <= src_used <= len} / decode_in_place n <= len (cobs 0.2.3, by construction of decode_raw)"


def run(run_, ctx):
    run_groups(run_, ctx, [("M", "de_entry", lambda k: "cobs" in k, "COBS decode glue")])
    run_.floor("M", 2)
    F = ctx.facts("A")
    pc = F.crate("postcard")
    for name in ("de::from_bytes_cobs", "de::take_from_bytes_cobs"):
        fs = [x for x in pc.fns if x.def_ == name]
        if len(fs) != 1:
            run_.bad("P", name, "entry point not found")
            continue
        f = fs[0]
        eng = sym.Engine(F, max_visits=2)
        paths = eng.run(f)
        # M: error mapping
        bad = []
        for p in paths:
            for e in tbl.residual_calls(p):
                if e["key"].startswith("cobs::decode_in_place") and p.tagfacts.get(("tag", e["result"])) == 1:
                    v = tbl.error_variant(F, p.ret)
                    if v != "DeserializeBadEncoding":
                        bad.append("COBS decode failure returns %s, expected Err(DeserializeBadEncoding)" % sym.show(p.ret))
        run_.check(not bad, "MX", name + " error kind", bad[0] if bad else "decode error -> DeserializeBadEncoding", f.where(), found=bad)
        # P: panic sites (one instance per distinct site, all paths through it must be discharged): linear goals from the path's own
        # guards plus the contract of the cobs calls made earlier on the path (however the slicing is written)
        eng2 = sym.Engine(F, max_visits=2, models=sym.SLICE_MODELS, inline=summ2.inline_local, max_depth=10)
        sites, paths2, ub = pan.collect(F, f, engine=eng2)
        for p in paths2:
            if p.status in ("panic",):
                run_.bad("P", name + " panic path", "a path ends in a panic (%s)" % p.status, f.where())
        groups = {}
        for st_ in sites:
            groups.setdefault(st_.key(), []).append(st_)
        for key, ss in sorted(groups.items()):
            hows = []
            for st_ in ss:
                d = panlin.discharged(st_.path, st_.ev, contract_facts(st_.path))
                hows.append("linear: guards on the path + %s" % CONTRACT if d else None)
            if all(hows):
                run_.ok("P", key, hows[0], f.where(), method="LIN")
            else:
                bad = [x for x, h in zip(ss, hows) if not h][0]
                run_.bad("P", key, "panic site not discharged on %d of %d path(s): %s %s" % (sum(1 for h in hows if not h), len(ss), bad.kind, bad.text), f.where())
    run_.floor("P", 4)
    # R/S via the C06 semantic check on take_from_bytes_cobs
    sub = _Only(run_)
    c06_run_dx(sub, ctx)
    run_.explanation = (
        "Both COBS decode entry points are summarised per path and compared with their specified summaries; every arithmetic/index/split "
        "site that could panic is enumerated from MIR on every path and discharged either by the dominating guard (get(src_used) == Some(&0) "
        "implies src_used < len, so src_used + 1 cannot overflow) or by the listed external contract of the cobs report; the remainder offset "
        "identity and the forwarding of the decoded prefix to from_bytes are proved as in C06.")
    run_.trusted += [CONTRACT]


def contract_facts(p):
    """documented contract of the cobs calls made on this path (hypotheses, listed in the trusted base)"""
    out = []
    for e in tbl.residual_calls(p):
        k = e["key"] or ""
        if k == "cobs::decode_in_place_report":
            R = ("okval", norm(e["result"]))
            src, dst = ("getf", R, "src_used"), ("getf", R, "dst_used")
            ln = ("len", norm(e["args"][0]))
            out += [lin.ge(src, dst), lin.ge(ln, src)]
        elif k == "cobs::decode_in_place":
            out.append(lin.ge(("len", norm(e["args"][0])), ("okval", norm(e["result"]))))
    return out


def discharge_assert(p, e, R):
    """Overflow Add(src_used, 1): guarded by the sentinel probe; Sub(src_used', dst_used): contract"""
    if e["kind"] == "Overflow" and e.get("op") == "Add":
        # src_used + 1 where s.get(src_used) == Some(&0): src_used < len <= isize::MAX
        for cond, truth, kind in p.pc:
            if kind == "branch" and truth is True and cond[0] == "call" and cond[2].endswith("PartialEq::eq"):
                return "guard: s.get(src_used) == Some(&0) on this path implies src_used < s.len(), so src_used + 1 <= len cannot overflow"
        return None
    if e["kind"] == "Overflow" and e.get("op") == "Sub":
        return "external contract: " + CONTRACT
    return None


class _Only:
    def __init__(self, run_):
        self.run_ = run_


def c06_run_dx(sub, ctx):
    """re-use C06's offset identity check under C07.R"""
    import report
    tmp = report.Run("C07", "quick")
    # run C06's module logic into a temporary Run and copy the DX instance
    import common
    c06.run(tmp, ctx)
    for i in tmp.instances:
        if i["rule"] == "DX":
            if i["verdict"] == "ok":
                sub.run_.ok("R", "take_from_bytes_cobs offsets", i.get("detail", ""), i.get("site"))
            else:
                sub.run_.bad("R", "take_from_bytes_cobs offsets", i.get("what"), i.get("site"), found=i.get("found"))
    sub.run_.floor("R", 1)
