"""C11 — reader/writer transports are equivalent to the slice path and never over-read.

C11.R  reader flavors (std IOReader, embedded-io EIOReader; siblings): pop = read_exact into a 1-byte local and returns that
       byte; try_take_n(ct) = SlidingBuffer::take_n(ct) then read_exact into exactly that slot, returning it; errors map to
       DeserializeUnexpectedEnd; finalize returns the reader and the unused scratch (SlidingBuffer::complete).
       Who-may-call: the only Read methods called anywhere in postcard's de path are these read_exact calls (no read,
       read_to_end, no buffering wrapper) - hence not one byte beyond the message is consumed.
C11.B  SlidingBuffer (raw pointers): take_n fails iff ct exceeds the remaining scratch (LIN exactness both ways), hands out
       [cursor, cursor+ct) and advances past it on every path (disjoint &mut slots); new = [ptr, ptr+len); complete = unread tail.
C11.W  writer flavors (std/eio siblings): try_push(b)=write_all(&[b]); try_extend(s)=write_all(s); finalize=flush then return
       the writer; every error maps to SerializeBufferFull. Only write_all/flush are called on the writer.
C11.E  entry points from_io/from_eio/to_io/to_eio build exactly these flavors.
"""
import re

import glue
import grd
import summ
import sym
import tbl
from glueprops import run_groups
from sym import C
from tbl import norm

LEVEL = "other"
MANIFEST = {
    "text": "Static check that the reader flavors call exactly read_exact(1 byte) / read_exact(the n-byte slot just handed out) and "
            "nothing else on the reader, that the sliding scratch buffer's raw-pointer guard is exact (fails iff ct exceeds the "
            "remaining scratch) and advances past every slot on all paths, and that the writer flavors call exactly write_all per "
            "block and flush at finalize with errors mapped to SerializeBufferFull; std and embedded-io adapters agree.",
    "note": "Trusted: read_exact / write_all contracts of std::io and embedded-io (how a particular Read/Write chunks data is theirs). "
            "Both tiers analyse std + embedded-io 0.6 (configuration A) and embedded-io 0.4 (configuration B).",
    "technique": "static analysis: semantic MIR summaries vs specifications (embedded-io 0.6 and 0.4 configurations) + who-may-call over resolved callees + hand-written scratch-buffer specification",
}


def run(run_, ctx):
    run_groups(run_, ctx, [
        ("R", "de_reader", None, "reader flavor"),
        ("B", "de_sliding", None, "sliding scratch buffer"),
        ("W", "ser_writer", None, "writer flavor"),
        ("E", "de_entry", lambda k: k in ("de::from_io", "de::from_eio"), "reader entry point"),
        ("E", "ser_entry", lambda k: k in ("ser::to_io", "ser::to_eio"), "writer entry point"),
    ])
    run_.floor("R", 10)
    run_.floor("B", 1)
    run_.floor("W", 8)
    run_.floor("E", 4)
    F = ctx.facts("A")
    pc = F.crate("postcard")
    check_sliding(run_, F, pc)
    who_may_call(run_, F, pc)
    flavor_agnostic(run_, F, pc)
    siblings(run_, F, pc)
    # C11.U: how the generic (de)serializer drives a reader / writer flavor is the wire-format table: which kinds are read byte by byte
    # (no scratch) and which take a slot of exactly their length; which writes are single bytes and which are blocks (re-run of the
    # C03 / C02 tables under this property, as C20.U does for the modifiers)
    import c02
    import c03
    from c20 import _Sub
    helpers = ctx.helpers("A")
    sub = _Sub(run_, "U")
    for f in sorted(pc.fns, key=lambda f: (f.impl_self or "", f.name)):
        if f.dk != "AssocFn":
            continue
        s = f.impl_self or ""
        if (c03.is_deser_self(s) and f.impl_trait in (c03.DE_TRAIT, "serde_core::de::VariantAccess", "serde_core::de::EnumAccess")) or \
                c03.is_access_impl(f):
            if f.name != "size_hint":
                c03.check_method(sub, F, helpers, f)
        if s == c02.SELF_TY and f.impl_trait == c02.SER_TRAIT:
            c02.check_method(sub, F, helpers, f)
    run_.floor("U", 60)
    # configuration B: the same adapters built against embedded-io 0.4 (the two embedded-io features are mutually exclusive)
    run_groups(run_, ctx, [
        ("R4", "de_reader", None, "reader flavor (embedded-io 0.4 build)"),
        ("W4", "ser_writer", None, "writer flavor (embedded-io 0.4 build)"),
        ("E4", "de_entry", lambda k: k in ("de::from_io", "de::from_eio"), "reader entry point (embedded-io 0.4 build)"),
        ("E4", "ser_entry", lambda k: k in ("ser::to_io", "ser::to_eio"), "writer entry point (embedded-io 0.4 build)"),
    ], config="B")
    run_.floor("R4", 10)
    run_.floor("W4", 8)
    run_.floor("E4", 4)
    FB = ctx.facts("B")
    who_may_call(run_, FB, FB.crate("postcard"), rule="WR4")
    check_sliding(run_, FB, FB.crate("postcard"), rule="BX4", config="B")
    run_.explanation = (
        "Reader and writer flavors (std and embedded-io), the sliding scratch buffer and the four io entry points are summarised per path from "
        "MIR and compared with specified summaries; a who-may-call pass lists every call whose receiver is a Read/Write implementor in the "
        "crate and admits only read_exact / write_all / flush; the scratch buffer's take_n guard is proved exact in both directions with "
        "linear arithmetic over (cursor, end, ct) and the cursor is shown to advance by exactly ct on the success path and not at all on "
        "the error path; std and embedded-io siblings are compared summary against summary.")
    run_.trusted += ["std::io::Read::read_exact / Write::write_all / flush contracts", "embedded-io Read/Write contracts"]


def check_sliding(run_, F, pc, rule="BX", config="A"):
    """C11.BX: the scratch buffer as seen through the reader flavors, against the hand-written specification (rules/handspec.py)"""
    import handspec
    ren = glue.renames(F, pc, glue.load2(config))
    handspec.check(run_, rule, F, pc, [k for k in handspec.HAND if k.startswith("<de::flavors::io::")],
                   "reader scratch: fails iff ct > remaining; slot = [cursor, cursor+ct) reserved before exactly one read_exact; cursor += ct", renames=ren)
    run_.floor(rule, 6)


READ_OK = ("read_exact",)
WRITE_OK = ("write_all", "flush")


def who_may_call(run_, F, pc, rule="WR"):
    n = 0
    for f in pc.fns:
        for bb in f.blocks:
            t = bb["term"]
            if t["k"] != "call" or not t["callee"]:
                continue
            c = t["callee"]
            tr = c.get("trait") or ""
            if tr in ("std::io::Read", "embedded_io::Read") or tr.endswith("::Read") and ("io" in tr):
                n += 1
                run_.check(c["name"] in READ_OK, rule, "%s calls Read::%s" % (summ.fn_key(f), c["name"]),
                           "only read_exact may be called on the byte reader (anything else can consume bytes beyond the message)", f.where())
            elif tr in ("std::io::Write", "embedded_io::Write") or tr.endswith("::Write") and ("io" in tr) and "fmt" not in tr:
                n += 1
                run_.check(c["name"] in WRITE_OK, rule, "%s calls Write::%s" % (summ.fn_key(f), c["name"]),
                           "only write_all/flush may be called on the byte writer (write() may accept a short count)", f.where())
    # no buffering wrappers around the reader: the reader flavors' `new` store the reader unchanged (summaries), and no
    # function of the crate constructs std::io::BufReader / Take / Chain
    for f in pc.fns:
        for bb in f.blocks:
            t = bb["term"]
            if t["k"] == "call" and t["callee"] and re.search(r"io::(buffered|BufReader|Take|Chain)", t["callee"]["def"]):
                run_.bad(rule, "%s uses %s" % (summ.fn_key(f), t["callee"]["def"]), "a buffering/adapting wrapper around the reader can over-read", f.where())
    run_.floor(rule, 4)   # at least read_exact, write_all and flush must be seen; how many call sites there are is code shape


def flavor_agnostic(run_, F, pc):
    """C11.FA — the generic decoder may consult its source only through the byte-delivering calls; `Flavor::size_hint` differs between
    the slice source (remaining input) and the readers (remaining scratch), so any other use makes the reader path decide differently
    from the slice path.  The only admitted callers are the SeqAccess/MapAccess `size_hint` forwarders (advisory to the visitor)."""
    DELIVER = ("pop", "try_take_n", "try_take_n_temp", "finalize")
    n_hint = 0
    def admitted(g):
        return g.name == "size_hint" and (g.impl_trait or "").endswith(("de::SeqAccess", "de::MapAccess"))

    def callers(g):
        out = []
        for h in pc.fns:
            for bb_ in h.blocks or []:
                t_ = bb_["term"]
                cal_ = t_.get("callee") if t_["k"] == "call" else None
                if cal_ and g.canon in (cal_.get("canon"), (cal_.get("resolved") or {}).get("canon")):
                    out.append(h)
        return out

    def only_for_hint(g, depth=0):
        """a private accessor that exists only to serve the admitted forwarders (every caller is one, or another such accessor)"""
        if g.j.get("vis") == "Public" or g.impl_trait or depth > 2:
            return False
        cs = callers(g)
        return bool(cs) and all(admitted(h) or only_for_hint(h, depth + 1) for h in cs)
    for f in pc.fns:
        if not f.canon.startswith("postcard::de::") or f.canon.startswith("postcard::de::flavors::"):
            continue
        if (f.impl_trait or "") == "postcard::de::flavors::Flavor":
            continue          # a source (modifier) flavor forwarding to the one it wraps, wherever its module lives: judged as a flavor (R/B/D rules)
        for bb in f.blocks:
            t = bb["term"]
            if t["k"] != "call" or not t["callee"]:
                continue
            c = t["callee"]
            if (c.get("trait") or "") != "postcard::de::flavors::Flavor":
                continue
            if c["name"] == "size_hint":
                n_hint += 1
                run_.check(admitted(f) or only_for_hint(f), "FA",
                           "%s calls Flavor::size_hint" % summ.fn_key(f),
                           "the generic decoder consults the source's size hint: readers report remaining scratch, the slice source remaining "
                           "input, so the reader path no longer decides like the slice path", f.where(),
                           detail="advisory forwarder only")
            else:
                run_.check(c["name"] in DELIVER, "FA", "%s calls Flavor::%s" % (summ.fn_key(f), c["name"]),
                           "the generic decoder uses a source method other than pop/try_take_n/try_take_n_temp/finalize", f.where(),
                           detail="byte-delivering call")
    run_.floor("FA", 1)   # vacuity is guarded by the positive example below; the number of byte-delivering calls is a property of the code shape
    run_.check(n_hint >= 1, "FA", "positive example", "the matcher no longer sees the advisory SeqAccess::size_hint forwarder (rule would pass vacuously)")


def siblings(run_, F, pc):
    """the std and the embedded-io adapter behave the same: their public/trait methods have equivalent semantic summaries (private
    helpers analysed in place) once the adapter type names are unified"""
    import summ2
    ren = glue.renames(F, pc, glue.load2("A"))

    def unify(s):
        def sub(x):
            x = x.replace("io::eio::EIOReader", "READER").replace("io::io::IOReader", "READER").replace("EIOReader{", "READER{").replace("IOReader{", "READER{")
            return x.replace("eio::WriteFlavor", "WRITER").replace("io::WriteFlavor", "WRITER")
        return {"outcomes": sorted(({"text": sub(o["text"]), "when": [[[l[0], sub(l[1]), l[2]] for l in c_] for c_ in o["when"]]} for o in s["outcomes"]), key=lambda o: o["text"]),
                "vars": {sub(k): v for k, v in (s.get("vars") or {}).items()}, "truncated": s.get("truncated", False)}
    for grp, a, b in (("de_reader", "io::io::IOReader", "io::eio::EIOReader"), ("ser_writer", "io::WriteFlavor", "eio::WriteFlavor")):
        fns = [f for f in glue.fns_of_group(pc, grp) if glue.specified(f)]
        fa = {f.name + "/" + str(f.impl_trait): f for f in fns if a in (f.impl_self or "") and ("eio" not in (f.impl_self or "") or "eio" in a)}
        fb = {f.name + "/" + str(f.impl_trait): f for f in fns if b in (f.impl_self or "")}
        if a == "io::WriteFlavor":
            fa = {k: f for k, f in fa.items() if "eio" not in (f.impl_self or "")}
        for k in sorted(set(fa) | set(fb)):
            if k not in fa or k not in fb:
                run_.bad("SIB", "%s %s" % (grp, k), "method exists in only one of the std / embedded-io adapters")
                continue
            sa, sb = unify(summ2.summarize(F, fa[k], renames=ren)), unify(summ2.summarize(F, fb[k], renames=ren))
            diffs = summ2.compare(sa, sb, glue.invariants_for(fa[k]))
            run_.check(not diffs, "SIB", "%s %s" % (grp, k), "std and embedded-io adapters behave differently: %s" % (diffs[0] if diffs else ""), fa[k].where(),
                       expected=summ2.fmt(sa).splitlines(), found=summ2.fmt(sb).splitlines(), detail="std and embedded-io adapters have equivalent summaries")
    run_.floor("SIB", 9)
