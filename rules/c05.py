"""C05 — bounded-buffer serialisation: exact capacity threshold, never out of bounds.

C05.G  raw-pointer slice writer (ser::Slice): invariant start <= cursor <= end; try_push/try_extend write only inside
       [cursor, end) and return the error *iff* the byte/block does not fit (LIN exactness in both directions); the cursor
       advances by exactly what was written; new() = [ptr, ptr+len) of the caller's buffer.
C05.F  front of buffer: finalize returns from_raw_parts_mut(start, cursor - start).
C05.M  error mapping: every emitter of the Serializer maps a storage failure to SerializeBufferFull; Cobs::try_new and
       serialize_with_flavor map constructor/finalize failures likewise; HVec maps push/extend_from_slice failure to it.
C05.Z  size counter: try_push adds 1, try_extend adds b.len(), finalize returns the field, nothing is written.
C05.P  panic sites of the serializer, the ser flavors and the to_* entry points: all discharged (invariant, contracts).
A serialisation is a sequence of such write operations, each of which fails iff it does not fit, so the whole fails exactly
when the capacity is smaller than the complete output, for all capacities and values.
"""
import c02
import glue
import grd
import lin
import pan
import summ
import sym
import tbl
from glueprops import run_groups
from sym import C
from tbl import norm

LEVEL = "other"
MANIFEST = {
    "text": "Static check of the fixed-storage write path: the unsafe slice writer's guards are proved exact (error iff the block does "
            "not fit, write inside [cursor,end) otherwise) by linear arithmetic over the pointer addresses for every capacity and "
            "block length; error kinds on every failure path of every serializer method are SerializeBufferFull; the size counter adds "
            "exactly the bytes offered; every panic site on the serialisation path is discharged.",
    "note": "Trusted: heapless::Vec's own capacity check (push/extend_from_slice fail iff full), cobs::EncoderState's placeholder index < bytes pushed "
            "(COBS back-patch indexing), counters cannot exceed usize::MAX output bytes.",
    "technique": "static analysis: linear guard exactness on raw-pointer cursor + path-sensitive error-kind table + panic-site discharge + canonical summaries",
}

COUNTER = "contract: a byte counter overflows only after more than usize::MAX output bytes"
COBS_IDX = "external contract cobs::EncoderState: the index handed out is the position of a placeholder byte pushed earlier, hence < bytes written <= capacity"


def check_slice(run_, F, pc):
    fns = {f.name + "/" + (f.impl_trait or "-").split("::")[-1]: f for f in glue.fns_of_group(pc, "ser_slice")}
    eng = lambda: sym.Engine(F, max_visits=2)
    for nm, nbytes in (("try_push/Flavor", None), ("try_extend/Flavor", None)):
        f = fns.get(nm)
        if not f:
            run_.bad("G", "ser::Slice::" + nm, "method not found")
            continue
        s = ("P", ("param", 1, f.locals[1]["ty"]))
        cur, end, start = (("init", ("F", s, x)) for x in ("cursor", "end", "start"))
        n = C(1, "usize") if nm.startswith("try_push") else ("len", ("param", 2, f.locals[2]["ty"]))
        probs = []
        oks = errs = 0
        for p in eng().run(f):
            if p.status != "return":
                probs.append("a path ends in %s" % p.status)
                continue
            wr = [e for e in p.events if e["k"] == "write"]
            if p.ret[0] == "agg" and p.ret[3] == "Err":
                errs += 1
                if tbl.error_variant(F, p.ret) != "SerializeBufferFull":
                    probs.append("full buffer returns %s, expected Err(SerializeBufferFull)" % sym.show(p.ret))
                if wr or [e for e in tbl.residual_calls(p) if "write" in e["key"] or "copy" in e["key"]]:
                    probs.append("something is written on the error path")
                g = grd.check_consume(p, cur, end, n, False, start)
                if g:
                    probs.append(g)
            elif p.ret[0] == "agg" and p.ret[3] == "Ok":
                oks += 1
                g = grd.check_consume(p, cur, end, n, True, start)
                if g:
                    probs.append(g)
                calls = tbl.residual_calls(p)
                if nm.startswith("try_push"):
                    w = [e for e in calls if e["key"].endswith("mut_ptr::<impl *mut T>::write")]
                    raw = [e for e in p.events if e["k"] == "rawderef" and e["rw"] == "w"]
                    okw = (len(w) == 1 and norm(w[0]["args"][0]) == cur and norm(w[0]["args"][1]) == ("param", 2, "u8")) or \
                          (len(raw) == 1 and norm(raw[0]["ptr"]) == cur)
                    if not okw:
                        probs.append("the byte is not written at the cursor")
                else:
                    cp = [e for e in calls if e["key"].endswith("ptr::copy_nonoverlapping")] + \
                         [e for e in p.events if e["k"] == "intrinsic" and e["name"] == "copy_nonoverlapping"]
                    b = ("param", 2, f.locals[2]["ty"])
                    okc = False
                    if len(cp) == 1:
                        a = [norm(x) for x in cp[0]["args"]]
                        okc = lin.atom_of(a[0]) == ("pure", "as_ptr", (b,)) and a[1] == cur and a[2] == norm(n)
                    if not okc:
                        probs.append("the block is not copied from the input to the cursor with its own length")
                if len(wr) != 1 or wr[0]["loc"] != ("F", s, "cursor"):
                    probs.append("cursor not advanced exactly once")
                else:
                    a = grd.check_advance(p, wr[0]["val"], cur, end, n)
                    if a:
                        probs.append(a)
            else:
                probs.append("unexpected return %s" % sym.show(p.ret))
        if oks != 1 or errs != 1:
            probs.append("expected one Ok and one Err path, found %d/%d" % (oks, errs))
        run_.check(not probs, "G", "ser::Slice::" + nm.split("/")[0], probs[0] if probs else "error iff it does not fit; write at cursor; cursor += n", f.where(), found=probs)
    f = fns.get("finalize/Flavor")
    if f:
        ls = summ.lines(summ.summarize(F, f))
        want = ["if always: #1 = std::slice::from_raw_parts_mut(self.start, Sub(addr(self.cursor), addr(self.start))) => Result::Ok(#1)"]
        run_.check(ls == want, "F", "ser::Slice::finalize", "finalize must return the front of the buffer [start, cursor)", f.where(), expected=want, found=ls)
    else:
        run_.bad("F", "ser::Slice::finalize", "method not found")
    f = fns.get("new/-")
    if f:
        ps = eng().run(f)
        probs = []
        if len(ps) == 1 and ps[0].ret[0] == "agg":
            fl = dict(zip(ps[0].ret[4], ps[0].ret[5]))
            b = ("param", 1, f.locals[1]["ty"])
            for x in ("start", "cursor"):
                if lin.atom_of(norm(fl.get(x))) != ("pure", "as_mut_ptr", (b,)):
                    probs.append("%s does not start at the buffer's first byte" % x)
            try:
                d = lin.ge(norm(fl.get("end")), norm(fl.get("start")))
                if d.co != {("pure", "len", (b,)): 1} or d.c != 0:
                    probs.append("end is not start + buf.len()")
            except Exception as e:
                probs.append("end not linear in the buffer (%s)" % e)
        else:
            probs.append("unexpected shape")
        run_.check(not probs, "G", "ser::Slice::new", probs[0] if probs else "start=cursor=ptr, end=ptr+len", f.where(), found=probs)
    # index / index_mut: panic only if idx >= capacity, element at start + idx
    for nm in ("index/Index", "index_mut/IndexMut"):
        f = fns.get(nm)
        if not f:
            run_.bad("G", "ser::Slice::" + nm, "method not found")
            continue
        s = ("P", ("param", 1, f.locals[1]["ty"]))
        cur, end, start = (("init", ("F", s, x)) for x in ("cursor", "end", "start"))
        idx = ("param", 2, "usize")
        probs = []
        for p in eng().run(f):
            cap = ("bin", "Sub", end, start, "usize")
            if p.status == "diverge":
                if not grd.prove(p.pc, grd.invariant(cur, end, start), lin.ge(idx, cap)):
                    probs.append("panics for an index that is inside the buffer (bound is not the capacity end - start)")
            elif p.status == "return":
                if not grd.prove(p.pc, grd.invariant(cur, end, start), lin.gt(cap, idx)):
                    probs.append("hands out an element without idx < end - start (out of bounds)")
                r = norm(p.ret)
                if not (r[0] == "call" and r[2].endswith("::add") and r[3] == (start, idx)):
                    probs.append("element is not start + idx")
            else:
                probs.append("path ends in %s" % p.status)
        run_.check(not probs, "G", "ser::Slice::" + nm.split("/")[0], probs[0] if probs else "start[idx] under idx < capacity", f.where(), found=probs)
    run_.floor("G", 5)
    run_.floor("F", 1)


def check_error_mapping(run_, F, pc):
    fns = [f for f in pc.fns if f.impl_self == c02.SELF_TY and f.dk == "AssocFn" and
           (f.impl_trait == c02.SER_TRAIT or f.impl_trait in c02.COMPOUND)]
    n = 0
    for f in sorted(fns, key=lambda f: (f.impl_trait, f.name)):
        eng = sym.Engine(F, inline=c02.inline_policy, max_visits=2)
        probs = []
        nfall = 0
        for p in eng.run(f):
            if p.status != "return":
                continue
            for e in tbl.residual_calls(p):
                if e["key"] not in (tbl.SER_PUSH, tbl.SER_EXTEND):
                    continue
                nfall += 1
                t = p.tagfacts.get(("tag", e["result"]))
                if t == 1:
                    v = tbl.error_variant(F, p.ret)
                    if v != "SerializeBufferFull":
                        probs.append("storage failure in %s surfaces as %s" % (e["name"], v or sym.show(p.ret)))
                elif t is None:
                    # tail position: must be (possibly through map_err) the returned value, mapped to SerializeBufferFull
                    r = p.ret
                    if r[0] == "map_err" and r[1] == e["result"]:
                        c = tbl.closure_const(F, r[2])
                        if not (c and c[0] == "agg" and c[3] == "SerializeBufferFull"):
                            probs.append("storage failure in %s mapped to %s" % (e["name"], sym.show(c) if c else "an unknown error"))
                    elif r == e["result"]:
                        pass  # flavor's own error kind is returned unchanged
                    else:
                        probs.append("result of %s is neither checked nor returned" % e["name"])
        if nfall == 0:
            continue
        n += 1
        key = "%s::%s" % ((f.impl_trait or "").split("::")[-1], f.name)
        run_.check(not probs, "M", key, probs[0] if probs else "every storage failure -> SerializeBufferFull", f.where(), found=probs)
    run_.floor("M", 20)


def discharge_factory(F):
    def discharge(s):
        k = s.key()
        fk = summ.fn_key(s.fn)
        if s.kind == "assert:Overflow:Sub" and "ser::flavors::Slice<" in fk and "addr(" in s.text:
            return "invariant: start <= cursor <= end of ser::Slice (established by new, preserved by try_push/try_extend, C05.G)"
        if s.kind == "diverge" and "ser::flavors::Slice<" in fk and "idx < len" in s.text:
            return COBS_IDX + " (the assert itself is the bounds check; bound = capacity proved under C05.G)"
        if "HVec<B> as Index" in fk and s.kind == "assert:BoundsCheck":
            return COBS_IDX
        if "AllocVec as Index" in fk and s.kind == "call":
            return COBS_IDX
        if "ser::flavors::Cobs<B> as Flavor>" in fk and s.kind == "call" and "IndexMut>::index_mut" in s.text:
            if s.text.endswith("'0').0)") or s.text.endswith("#1.0)"):
                return COBS_IDX
            return None
        if s.kind == "assert:Overflow:Add" and ("Size as Flavor" in fk or "CountWriter" in fk):
            return COUNTER
        return None
    return discharge


def run(run_, ctx):
    run_groups(run_, ctx, [
        ("S", "ser_slice", None, "slice writer"),
        ("S", "ser_storage", None, "vector / size storage"),
        ("S", "ser_entry", None, "encode entry point (plain / COBS / CRC): must not add or drop capacity checks of its own"),
        ("S", "ser_cobs", lambda k: k.endswith("::try_new"), "COBS constructor"),
        ("SW", "ser_writer", None, "writer storage (a writer over a fixed slice is fixed storage: write_all or error)"),
    ])
    run_.floor("SW", 8)
    run_.floor("S", 61)
    F = ctx.facts("A")
    pc = F.crate("postcard")
    check_slice(run_, F, pc)
    check_error_mapping(run_, F, pc)
    # Z
    for f in glue.fns_of_group(pc, "ser_storage"):
        if (f.impl_self or "") == "ser::flavors::Size" and f.impl_trait == "postcard::ser::flavors::Flavor":
            ls = summ.lines(summ.summarize(F, f))
            want = {"try_push": ["if always: *self.size := Add(*self.size, 1) => Result::Ok(())"],
                    "try_extend": ["if always: *self.size := Add(*self.size, len(arg2)) => Result::Ok(())"],
                    "finalize": ["if always: - => Result::Ok(self.size)"]}.get(f.name)
            run_.check(ls == want, "Z", "Size::" + f.name, "size counter must count exactly the bytes offered and write nothing", f.where(), expected=want, found=ls)
    run_.floor("Z", 3)
    # P
    fns = []
    for f in pc.fns:
        g = glue.group_of(summ.fn_key(f))
        if g in ("ser_entry", "ser_slice", "ser_storage", "ser_default", "ser_cobs", "ser_crc", "ser_writer"):
            fns.append(f)
        elif f.dk == "AssocFn" and (f.impl_self == c02.SELF_TY or (f.impl_self or "").endswith("ser::serializer::Serializer<F>")):
            fns.append(f)
        elif "collect_str" in f.canon and f.name == "write_str":
            fns.append(f)
    n = pan.run_sites(run_, "P", F, fns, discharge_factory(F))
    run_.floor("P", 16)
    run_.extra["functions_scanned_for_panic_sites"] = len(fns)
    # varint writers / zig-zag: panic freedom is part of their BIT proof
    helpers = ctx.helpers("A")
    for f in pc.fns:
        import vint
        if vint.writer_sig(f):
            info, why = helpers.writer(f.canon)
            run_.check(info is not None, "P", "helper " + f.def_, "varint writer not verified panic-free: %s" % why, f.where(), detail="no feasible panic path (BIT)")
    run_.explanation = (
        "ser::Slice's try_push/try_extend are explored on all paths; with the invariant start<=cursor<=end, Fourier-Motzkin over the pointer addresses proves "
        "the Ok path implies the block fits and the Err path implies it does not (exact threshold for every capacity and block length), that writes land at "
        "the cursor and the cursor advances by the block length; finalize returns [start,cursor). Every serializer method is explored and each path on which a "
        "flavor call failed must return SerializeBufferFull. %d functions on the serialisation path are scanned for panic sites (MIR asserts, diverging calls, "
        "panicking std calls); each is discharged by the slice invariant, the cobs placeholder-index contract, or the counter-overflow contract." % len(fns))
    run_.trusted += ["heapless::Vec push/extend_from_slice fail iff capacity exceeded", COBS_IDX, COUNTER]
