"""C05 — bounded-buffer serialisation: exact capacity threshold, never out of bounds.

C05.G  raw-pointer slice writer (ser::Slice): invariant start <= cursor <= end; try_push/try_extend write only inside
       [cursor, end) and return the error *iff* the byte/block does not fit (LIN exactness in both directions); the cursor
       advances by exactly what was written; new() = [ptr, ptr+len) of the caller's buffer.
C05.F  front of buffer: finalize returns from_raw_parts_mut(start, cursor - start).
C05.M  error mapping: every emitter of the Serializer maps a storage failure to SerializeBufferFull; Cobs::try_new and
       serialize_with_flavor map constructor/finalize failures likewise; HVec maps push/extend_from_slice failure to it.
C05.Z  size counter: try_push adds 1, try_extend adds b.len(), finalize returns the field, nothing is written.
C05.P  panic sites of the serializer, the ser flavors and the to_* entry points: all discharged (invariant, contracts).
A serialisation is a sequence of such write operations, each of which fails iff it does not fit, so the whole fails exactly
when the capacity is smaller than the complete output, for all capacities and values.
"""
import c02
import glue
import grd
import lin
import pan
import summ
import sym
import tbl
from glueprops import run_groups
from sym import C
from tbl import norm

LEVEL = "other"
MANIFEST = {
    "text": "Static check of the fixed-storage write path: the unsafe slice writer's guards are proved exact (error iff the block does "
            "not fit, write inside [cursor,end) otherwise) by linear arithmetic over the pointer addresses for every capacity and "
            "block length; error kinds on every failure path of every serializer method are SerializeBufferFull; the size counter adds "
            "exactly the bytes offered; every panic site on the serialisation path is discharged.",
    "note": "Trusted: heapless::Vec's own capacity check (push/extend_from_slice fail iff full), cobs::EncoderState's placeholder index < bytes pushed "
            "(COBS back-patch indexing), counters cannot exceed usize::MAX output bytes.",
    "technique": "static analysis: hand-written cursor specifications compared with semantic MIR summaries under the pointer invariant + path-sensitive error-kind rule + panic-site discharge by linear arithmetic",
}

COUNTER = "contract: a byte counter overflows only after more than usize::MAX output bytes"
COBS_IDX = "external contract cobs::EncoderState: the index handed out is the position of a placeholder byte pushed earlier, hence < bytes written <= capacity"


def check_slice(run_, F, pc):
    """C05.G/F: the slice writer against its hand-written specification (rules/handspec.py)"""
    import handspec
    ren = glue.renames(F, pc, glue.load2("A"))
    keys = [k for k in handspec.HAND if k.startswith("<ser::flavors::Slice<")]
    handspec.check(run_, "G", F, pc, [k for k in keys if not k.endswith("::finalize")],
                   "slice writer: error iff it does not fit; write at cursor; cursor += n; nothing written on failure", renames=ren)
    handspec.check(run_, "F", F, pc, [k for k in keys if k.endswith("::finalize")], "output = front of the buffer [start, cursor)", renames=ren)


def check_error_mapping(run_, F, pc):
    fns = [f for f in pc.fns if f.impl_self == c02.SELF_TY and f.dk == "AssocFn" and
           (f.impl_trait == c02.SER_TRAIT or f.impl_trait in c02.COMPOUND)]
    n = 0
    for f in sorted(fns, key=lambda f: (f.impl_trait, f.name)):
        eng = sym.Engine(F, inline=c02.inline_policy, max_visits=2)
        probs = []
        nfall = 0
        for p in eng.run(f):
            if p.status != "return":
                continue
            for e in tbl.residual_calls(p):
                if e["key"] not in (tbl.SER_PUSH, tbl.SER_EXTEND):
                    continue
                nfall += 1
                t = p.tagfacts.get(("tag", e["result"]))
                if t == 1:
                    v = tbl.error_variant(F, p.ret)
                    if v != "SerializeBufferFull":
                        probs.append("storage failure in %s surfaces as %s" % (e["name"], v or sym.show(p.ret)))
                elif t is None:
                    # tail position: must be (possibly through map_err) the returned value, mapped to SerializeBufferFull
                    r = p.ret
                    if r[0] == "map_err" and r[1] == e["result"]:
                        c = tbl.closure_const(F, r[2])
                        if not (c and c[0] == "agg" and c[3] == "SerializeBufferFull"):
                            probs.append("storage failure in %s mapped to %s" % (e["name"], sym.show(c) if c else "an unknown error"))
                    elif r == e["result"]:
                        pass  # flavor's own error kind is returned unchanged
                    else:
                        probs.append("result of %s is neither checked nor returned" % e["name"])
        if nfall == 0:
            continue
        n += 1
        key = "%s::%s" % ((f.impl_trait or "").split("::")[-1], f.name)
        run_.check(not probs, "M", key, probs[0] if probs else "every storage failure -> SerializeBufferFull", f.where(), found=probs)
    run_.floor("M", 20)


def discharge_factory(F):
    def discharge(s):
        k = s.key()
        fk = summ.fn_key(s.fn)
        try:
            import c04
            import panlin
            if panlin.discharged(s.path, s.ev, c04.path_hyps(F, s.path)):
                return "linear: guards on the path + pointer invariant start <= cursor <= end (LIN)"
        except Exception:
            pass
        if s.kind == "call" and "IndexMut>::index_mut" in s.text and s.ev["args"] and len(s.ev["args"]) == 2:
            # index handed out by the cobs encoder state (field .0 of a PushResult payload / of EncoderState::finalize's result)
            ix = norm(s.ev["args"][1])
            if ix[0] == "getf" and ix[2] == "0" and any(t[0] == "call" and (t[2] or "").startswith("cobs::EncoderState::") for t in sym.subterms(ix)):
                return COBS_IDX
        if s.kind == "assert:Overflow:Sub" and "ser::flavors::Slice<" in fk and "addr(" in s.text:
            return "invariant: start <= cursor <= end of ser::Slice (established by new, preserved by try_push/try_extend, C05.G)"
        if s.kind == "diverge" and "ser::flavors::Slice<" in fk and "idx < len" in s.text:
            return COBS_IDX + " (the assert itself is the bounds check; bound = capacity proved under C05.G)"
        if "HVec<B> as Index" in fk and s.kind == "assert:BoundsCheck":
            return COBS_IDX
        if "AllocVec as Index" in fk and s.kind == "call":
            return COBS_IDX
        if s.kind == "assert:Overflow:Add" and ("Size as Flavor" in fk or "CountWriter" in fk or (s.fn.impl_trait or "") == "core::fmt::Write"
                                                or any((fr_.impl_trait or "") == "core::fmt::Write" for fr_ in getattr(s, "stack", []) or [])):
            # (the counting pass of collect_str: a local fmt::Write impl adding the length of each piece, whatever the type is called)
            return COUNTER
        return None
    return discharge


def run(run_, ctx):
    run_groups(run_, ctx, [
        ("S", "ser_slice", None, "slice writer"),
        ("S", "ser_storage", None, "vector / size storage"),
        ("S", "ser_entry", None, "encode entry point (plain / COBS / CRC): must not add or drop capacity checks of its own"),
        ("S", "ser_cobs", lambda k: k.endswith("::try_new"), "COBS constructor"),
        ("SW", "ser_writer", None, "writer storage (a writer over a fixed slice is fixed storage: write_all or error)"),
    ])
    run_.floor("SW", 8)
    run_.floor("S", 61)
    F = ctx.facts("A")
    pc = F.crate("postcard")
    check_slice(run_, F, pc)
    run_.floor("G", 3)
    run_.floor("F", 1)
    check_error_mapping(run_, F, pc)
    # Z
    import handspec
    handspec.check(run_, "Z", F, pc, [k for k in handspec.HAND if k.startswith("<ser::flavors::Size as Flavor>")],
                   "size counter must count exactly the bytes offered and write nothing", renames=glue.renames(F, pc, glue.load2("A")))
    run_.floor("Z", 3)
    # P
    fns = []
    for f in pc.fns:
        g = glue.group_of(summ.fn_key(f))
        if g in ("ser_entry", "ser_slice", "ser_storage", "ser_default", "ser_cobs", "ser_crc", "ser_writer"):
            fns.append(f)
        elif f.dk == "AssocFn" and (f.impl_self == c02.SELF_TY or (f.impl_self or "").endswith("ser::serializer::Serializer<F>")):
            fns.append(f)
        elif "collect_str" in f.canon and f.name == "write_str":
            fns.append(f)
    import summ2
    import vint
    roots = [f for f in fns if (glue.specified(f) or "collect_str" in f.canon) and not vint.is_helper(f)]
    n = pan.run_sites(run_, "P", F, roots, discharge_factory(F), inline=summ2.inline_glue, models=sym.SLICE_MODELS)
    run_.floor("P", 16)
    run_.extra["functions_scanned_for_panic_sites"] = len(fns)
    # varint writers / zig-zag: panic freedom is part of their BIT proof
    helpers = ctx.helpers("A")
    for f in pc.fns:
        import vint
        if vint.writer_sig(f):
            info, why = helpers.writer(f.canon)
            run_.check(info is not None, "P", "helper " + f.def_, "varint writer not verified panic-free: %s" % why, f.where(), detail="no feasible panic path (BIT)")
    run_.explanation = (
        "ser::Slice's try_push/try_extend are explored on all paths; with the invariant start<=cursor<=end, Fourier-Motzkin over the pointer addresses proves "
        "the Ok path implies the block fits and the Err path implies it does not (exact threshold for every capacity and block length), that writes land at "
        "the cursor and the cursor advances by the block length; finalize returns [start,cursor). Every serializer method is explored and each path on which a "
        "flavor call failed must return SerializeBufferFull. %d functions on the serialisation path are scanned for panic sites (MIR asserts, diverging calls, "
        "panicking std calls); each is discharged by the slice invariant, the cobs placeholder-index contract, or the counter-overflow contract." % len(fns))
    run_.trusted += ["heapless::Vec push/extend_from_slice fail iff capacity exceeded", COBS_IDX, COUNTER]
