"""PAN — panic-site enumeration and discharge.

For a set of functions every potential panic site on every explored MIR path is collected:
 * `Assert` terminators (overflow, bounds, division, negation) whose condition is not a folded constant;
 * calls that diverge (`core::panicking::*`, `todo!()`, `unreachable!()`, failed `assert!`) on a feasible path;
 * calls to std functions that panic on bad arguments (deny-list: Index/IndexMut, split_at(_mut), copy_from_slice,
   unwrap/expect, ...).
The debug-only UB checks (null/misaligned pointer) are not panic obligations of the property and are reported separately.
Each site must be discharged by the caller-supplied strategy chain; anything left is a violation (fail closed).
External calls not on the deny-list are assumed not to panic (recorded as an assumption).
"""
import sym
import summ
from tbl import norm

DENY_SUFFIX = (
    "::unwrap", "::expect", "::unwrap_err", "::expect_err",
    "ops::index::Index::index", "ops::index::IndexMut::index_mut",
    "<impl [T]>::split_at", "<impl [T]>::split_at_mut", "<impl [T]>::copy_from_slice",
    "<impl [T]>::split_first", "RefCell<T>::borrow", "RefCell<T>::borrow_mut",
    "<impl str>::split_at", "Vec::<T, A>::remove", "Vec::<T, A>::swap_remove", "Vec::<T, A>::insert",
)
UB_CHECKS = ("NullPointerDereference", "MisalignedPointerDereference")


def is_deny(key):
    if key is None:
        return False
    if key.startswith("core::panicking") or key.startswith("std::rt::begin_panic") or key.startswith("core::option::expect_failed") \
            or key.startswith("core::result::unwrap_failed") or key.startswith("std::rt::panic"):
        return True
    if key.endswith("<impl [T]>::split_first"):
        return False  # returns Option
    return any(key.endswith(s) for s in DENY_SUFFIX if s != "<impl [T]>::split_first")


class Site:
    def __init__(self, fn, kind, text, ev, path, cn):
        self.fn = fn
        self.kind = kind        # 'assert:<AssertKind>[:op]' | 'diverge' | 'call'
        self.text = text        # canonical text, no line numbers
        self.ev = ev
        self.path = path
        self.cn = cn

    def key(self):
        return "%s %s %s" % (summ.fn_key(self.fn), self.kind, self.text)


def collect(F, fn, inline=None, max_visits=2, engine=None, models=None):
    """-> (list of Site, list of paths). One Site per (path, event); callers group by key()."""
    eng = engine or sym.Engine(F, inline=inline or (lambda f, ev: f.argc == 0), max_visits=max_visits, models=models, max_depth=10)
    paths = [p for p in eng.run(fn) if p.status != "infeasible"]
    out = []
    ub = 0
    for p in paths:
        cn = summ.Canon(F, p, fn)
        for e in p.events:
            if e.get("depth", 0) > 0 and e["k"] != "assert":
                pass
            if e["k"] == "assert":
                if e["kind"] in UB_CHECKS:
                    ub += 1
                    continue
                if e["static"] is True:
                    continue
                ops = ", ".join(cn.t(norm(e[x])) for x in ("a", "b", "index", "len") if x in e)
                kind = "assert:%s%s" % (e["kind"], (":" + e["op"]) if e.get("op") else "")
                out.append(Site(e["fn"], kind, "(%s)" % ops, e, p, cn))
            elif e["k"] == "call" and not e.get("inlined"):
                k = e["key"]
                if e["diverges"]:
                    arg = ""
                    for a in e["args"]:
                        if isinstance(a, tuple) and a and a[0] == "str":
                            arg = repr(a[1])
                    out.append(Site(e["fn"], "diverge", "%s(%s)" % (summ.call_name(e), arg), e, p, cn))
                elif is_deny(k):
                    args = ", ".join(cn.t(norm(a)) for a in e["args"][1:])
                    recv = cn.t(norm(e["args"][0])) if e["args"] else ""
                    out.append(Site(e["fn"], "call", "%s(%s; %s)" % (summ.call_name(e), recv, args), e, p, cn))
    return out, paths, ub


def run_sites(run_, rule, F, fns, discharge, inline=None, max_visits=2, models=None):
    """discharge(site) -> reason string or None. Groups identical sites over paths; all must be discharged."""
    total = 0
    for fn in fns:
        mv = 20 if (fn.name == "finalize" and "CrcModifier" in (fn.impl_self or "")) else max_visits
        sites, paths, ub = collect(F, fn, inline=inline, max_visits=mv, models=models)
        groups = {}
        for s in sites:
            groups.setdefault(s.key(), []).append(s)
        for k, ss in sorted(groups.items()):
            total += 1
            reasons = [discharge(s) for s in ss]
            if all(reasons):
                run_.ok(rule, k, reasons[0], fn.where(), method=reasons[0].split(":")[0])
            else:
                bad = [s for s, r in zip(ss, reasons) if not r][0]
                run_.bad(rule, k, "panic site not discharged on %d of %d path(s): %s %s" % (
                    sum(1 for r in reasons if not r), len(ss), bad.kind, bad.text), fn.where(),
                    found=sym.show(norm(bad.ev["cond"])) if bad.ev["k"] == "assert" else None)
        for p in paths:
            if p.status in ("abort",):
                run_.bad(rule, summ.fn_key(fn) + " exploration", "path exploration incomplete (%s)" % p.status, fn.where())
                break
    return total
