"""C16 — schema keys: both hashers agree and equal the documented FNV-1a stream.

C16.H  sibling hashers: for hash_sdm_type / hash_struct / hash_variant / hash_named_field and their *_owned twins the ordered
       event list per match arm  Tag(byte) | Name(field) | Rec(callee role, field[, element i])  is extracted from MIR on every path
       (loops explored for 0, 1 and 2 iterations) and must be identical arm by arm, keyed by variant *name*; the running state is
       threaded through every call and returned.
C16.T  tag table: the 33 tag bytes equal the published table (the key stream is a persisted contract), are pairwise distinct within
       each of the three namespaces' union, each arm hashes tag-then-children in declaration order, type names of structs/enums are
       bound but not hashed, variant and field names are hashed before their payload.
C16.F  FNV-1a: basis 0xcbf29ce484222325, prime 0x100000001b3; hash_update and Fnv1a64Hasher::update both do state ^= byte then
       wrapping_mul(prime) with bytes in index order; digests are little-endian.
C16.P  plumbing: hash_ty_path::<T> = hash_update_str(BASIS, path) (all path bytes, unmodified) then hash_sdm_type(., T::SCHEMA);
       owned likewise; Key::for_path / Key::for_owned_schema_path wrap exactly these.
With C15.F (the conversion preserves every kind, name and order) the two keys are equal for every schema and path.
"""
import summ
import sym
import tbl
from tbl import norm

LEVEL = "other"
MANIFEST = {
    "text": "Static sibling comparison of the two hand-duplicated hashers: the tag/name/recursion event stream of every match arm of the const and "
            "the owned copy is read from MIR and compared arm by arm, the 33 tag bytes are compared with the published table, the FNV-1a "
            "constants and update order and the path/plumbing functions are checked. Decides key equality for all schemas and paths (given "
            "C15's conversion) and sensitivity at the level 'distinct node kinds and names feed distinct bytes in order'.",
    "note": "Does not decide collision-freeness (a 64-bit hash has collisions). Trusted: u64::wrapping_mul, str::as_bytes.",
    "technique": "static analysis: hash input stream decoded from the returned state term of path-sensitive MIR evaluation (helpers inlined) + sibling agreement + published tag table and stream grammar + hand-written FNV-1a specifications",
}

BASIS = 0xcbf29ce484222325
PRIME = 0x100000001b3

TAGS = {
    "sdm": {"Bool": 0x11, "I8": 0xC5, "U8": 0x3D, "I16": 0x1D, "I32": 0x0D, "I64": 0x0B, "I128": 0x02, "U16": 0x83, "U32": 0xD3,
            "U64": 0x13, "U128": 0x8B, "Usize": 0x6B, "Isize": 0xAD, "F32": 0xEF, "F64": 0x71, "Char": 0xC1, "String": 0x25,
            "ByteArray": 0x65, "Option": 0x6D, "Unit": 0x47, "Seq": 0x03, "Tuple": 0xA7, "Map": 0x4F, "Enum": 0xE9, "Schema": 0xE5},
    "struct": {"Unit": 0xBF, "Newtype": 0x9D, "Tuple": 0x05, "Struct": 0x7F},
    "variant": {"Unit": 0xB5, "Newtype": 0xDF, "Tuple": 0xC7, "Struct": 0x67},
}

ROLES = {"hash_sdm_type": "sdm", "hash_sdm_type_owned": "sdm", "hash_struct": "struct", "hash_variant": "variant",
         "hash_named_field": "field", "hash_update": "update", "hash_update_str": "update_str"}


SUBJECT_ROLE = {"schema::DataModelType": "sdm", "schema::owned::OwnedDataModelType": "sdm", "schema::Data": "struct", "schema::owned::OwnedData": "struct",
                "schema::Variant": "variant", "schema::owned::OwnedVariant": "variant", "schema::NamedField": "field", "schema::owned::OwnedNamedField": "field"}


def role_of(f):
    """(role, owned?, index of the subject parameter) of a hasher function, from its signature: fn(u64 state, .., &Subject) -> u64"""
    if f.argc < 2 or f.locals[0]["ty"] != "u64" or f.locals[1]["ty"] != "u64":
        return None
    for i in range(2, f.argc + 1):
        t = f.locals[i]["ty"].lstrip("&").strip()
        t = t.split(" ", 1)[-1] if t.startswith("'") else t
        if t in SUBJECT_ROLE:
            return SUBJECT_ROLE[t], "owned::" in t, i
    if f.argc == 2 and f.locals[2]["ty"].replace("'_ ", "") in ("&[u8]",):
        return "update", False, 2
    if f.argc == 2 and f.locals[2]["ty"].replace("'_ ", "") in ("&str",):
        return "update_str", False, 2
    return None


def hash_roles(sc):
    """{canon: (role, owned, subject index)} of all functions of the key::hash module that take and return the running state"""
    out = {}
    for f in sc.fns:
        if "::key::hash::" in f.canon and "{closure" not in f.canon:
            r = role_of(f)
            if r:
                out[f.canon] = r
    return out


def field_path(t):
    """normalised access path of a term relative to the hashed node: ('Variant','field','[i]') ; derefs/boxes dropped"""
    t = norm(t)
    out = []

    def loc(l):
        k = l[0]
        if k == "P":
            return val(l[1])
        if k == "F":
            return loc(l[1]) + [l[2]]
        if k == "D":
            return loc(l[1]) + ["as " + l[2]]
        if k == "I":
            i = l[2]
            return loc(l[1]) + ["[%s]" % (i[1] if sym.is_c(i) else "?")]
        if k == "L":
            return ["local"]
        if k == "S":
            return loc(l[1])
        return ["?"]

    def val(v):
        k = v[0]
        if k == "param":
            return ["arg%d" % v[1]]
        if k == "init":
            return loc(v[1])
        if k == "ref":
            return loc(v[1])
        if k == "call" and (v[2] or "").endswith(("Deref::deref", "Index::index", "AsRef::as_ref")):
            base = val(v[3][0])
            if (v[2] or "").endswith("Index::index") and len(v[3]) > 1:
                i = v[3][1]
                return base + ["[%s]" % (i[1] if sym.is_c(i) else "?")]
            return base
        if k == "getf":
            return val(v[1]) + [v[2]]
        if k == "cast":
            return val(v[2])
        return ["?" + k]
    path = val(t)
    # Box<T> deref is lowered to `.0.pointer` (+ pointer cast): not part of the logical access path
    out = []
    i = 0
    while i < len(path):
        if path[i] == "0" and i + 1 < len(path) and path[i + 1] == "pointer":
            i += 2
            continue
        out.append(path[i])
        i += 1
    return tuple(out)


def role_event(e, rc):
    """stream element of one call to a role function"""
    role = rc[0]
    if role == "update":
        a = e["args"][1]
        snap = e["snap"][1]
        raw = a
        while raw[0] == "ref" and raw[1][0] == "P":
            raw = raw[1][1]
        if snap and snap[0] == "agg" and snap[1] == "array" and snap[5] and all(sym.is_c(x) for x in snap[5]):
            return [("Tag", x[1]) for x in snap[5]]
        if raw[0] == "call" and (raw[2] or "").endswith("<impl str>::as_bytes"):
            return [("Name", field_path(raw[3][0])[1:])]
        return [("Bytes", sym.show(norm(a)))]
    if role == "update_str":
        return [("Name", field_path(e["args"][1])[1:])]
    # the subject (and only the subject) identifies what is hashed next; unused extra arguments (a bound-but-unhashed
    # type name) are not part of the stream
    return [("Rec", role, (field_path(e["args"][rc[2] - 1])[1:],))]


def role_of_event(e, local_roles):
    c = e["callee"]
    if c and c["krate"] == "postcard_schema":
        return local_roles.get(c.get("canon")) or local_roles.get((c.get("resolved") or {}).get("canon"))
    return None


def decode_state(p, term, local_roles):
    """running-state term -> (stream oldest first, ids of the calls that produced it), or None when the term is not
    a chain of FNV-1a rounds on constant bytes / role-function calls starting at the incoming state"""
    out, ids = [], set()
    t = term
    for _ in range(10000):
        t = norm(t)
        if t == ("param", 1, "u64"):
            out.reverse()
            return [x for grp in out for x in grp], ids
        if not (isinstance(t, tuple) and t and t[0] == "call"):
            return None
        key = t[2] or ""
        if key.endswith("::wrapping_mul") and len(t[3]) == 2:
            a, b = norm(t[3][0]), norm(t[3][1])
            if sym.is_c(a):
                a, b = b, a
            if not (sym.is_c(b) and b[1] == PRIME and a[0] == "bin" and a[1] == "BitXor"):
                return None
            x, y = norm(a[2]), norm(a[3])
            if sym.is_c(x):
                x, y = y, x
            if not (sym.is_c(y) and 0 <= y[1] < 256):
                return None
            out.append([("Tag", y[1])])
            ids.add(t[1])
            t = x
            continue
        e = tbl.event_by_id(p, t[1])
        rc = role_of_event(e, local_roles) if e else None
        if rc is None or not e["args"]:
            return None
        out.append(role_event(e, rc))
        ids.add(t[1])
        t = e["args"][0]
    return None


def events_of(F, fn, p, local_roles):
    """ordered stream fed to the hash on one path + whether the running state is threaded through all of it and returned.
    The stream is decoded from the *value* of the returned state (FNV-1a rounds on constant bytes and calls of the role functions,
    innermost first), so it does not matter through which helper a byte reaches the hash."""
    calls = tbl.residual_calls(p)
    role_calls = [e for e in calls if role_of_event(e, local_roles) is not None]
    # on a path cut at the loop bound the latest state is the result of the last hashing step taken (a role call or an FNV-1a round)
    steps = [e for e in calls if role_of_event(e, local_roles) is not None or (e["key"] or "").endswith("::wrapping_mul")]
    term = p.ret if p.status == "return" else (steps[-1]["result"] if steps else ("param", 1, "u64"))
    dec = decode_state(p, term, local_roles) if term is not None else None
    if dec is None:
        # not a recognisable chain: report the calls in program order (diagnostic only) and say so
        evs = []
        for e in role_calls:
            evs += role_event(e, role_of_event(e, local_roles))
        return evs, False
    evs, ids = dec
    threaded = True
    for e in calls:
        if e["id"] in ids:
            continue
        nm, c = e["name"], e["callee"]
        if role_of_event(e, local_roles) is not None:
            threaded = False            # a hashing step whose result does not reach the returned state
            evs.append(("Dropped", e["key"]))
        elif nm in ("as_bytes", "len", "deref", "index", "as_ref"):
            continue
        else:
            evs.append(("Other", e["key"]))
    return evs, threaded


def _strip_as(pth):
    return tuple(x for x in pth if not x.startswith("as "))


def arms_of(F, fn, adt_variants, subject_arg, roles=None, data_variants=()):
    """-> {variant name: sorted list of (status, stream, kinds)} over the explored iteration counts; `kinds` says which variant every nested
    `Data` the path dispatched on has (so a stream can be judged against the shape it was produced for)"""
    roles = roles or {}

    # everything in the hash module that is not a role function (the node hasher itself, the byte/str folds) is analysed in place:
    # it does not matter how the work is divided into helper functions
    def inl(f, ev):
        if f.crate != "postcard_schema" or "::key::hash::" not in f.canon:
            return False
        r = roles.get(f.canon)
        if r is None:
            return True
        if r[0] == "update":
            # the byte fold over a *constant* array is evaluated in place: its rounds become part of the state term
            s = ev["snap"][1] if len(ev.get("snap") or []) > 1 else None
            return bool(s and s[0] == "agg" and s[1] == "array" and s[5] and all(sym.is_c(x) for x in s[5]))
        return False
    eng = sym.Engine(F, max_visits=3, max_depth=12, max_paths=6000, inline=inl, models=sym.SLICE_MODELS)
    arms = {}
    bad = []
    for p in eng.run(fn):
        if p.status not in ("return", "cut"):
            bad.append("path ends in %s" % p.status)
            continue
        k = None
        kinds = {}
        for atom, v in p.tagfacts.items():
            if atom[0] == "tag" and isinstance(v, int):
                fp = field_path(atom[1])
                if not fp or fp[0] != "arg%d" % subject_arg[0]:
                    continue
                rel = _strip_as(fp[1:])
                if rel == tuple(subject_arg[1]):
                    k = v
                elif rel and rel[-1] == "data" and v < len(data_variants):
                    kinds[rel] = data_variants[v]
                else:
                    kinds[rel] = v
        name = adt_variants[k] if (k is not None and k < len(adt_variants)) else "*"
        evs, ok = events_of(F, fn, p, roles)
        if not ok:
            bad.append("arm %s: the running hash state is not threaded through every update / returned" % name)
        arms.setdefault(name, set()).add((p.status, tuple(evs), tuple(sorted(kinds.items(), key=repr))))
    return {k: sorted(v, key=repr) for k, v in arms.items()}, bad


def strip_variant_prefix(arms):
    """drop the 'as Variant' path elements (how a field is reached is not part of what is hashed)"""
    def fix(ev):
        if ev[0] == "Name":
            return ("Name", _strip_as(ev[1]))
        if ev[0] == "Rec":
            return ("Rec", ev[1], tuple(_strip_as(x) for x in ev[2]))
        return ev
    return {k: [(st, tuple(fix(e) for e in evs), kinds) for st, evs, kinds in v] for k, v in arms.items()}


def parse_data(evs, i, role, base, kinds, cut):
    """the stream of one `Data` body at path `base`, for the kind this path dispatched on: its tag, then its children in order.
    -> (next index, None) or (None, reason); on a path cut at the loop bound the stream may stop early"""
    kind = dict(kinds).get(base)
    if kind not in TAGS[role]:
        return None, "no dispatch on the Data at %s" % "/".join(base)
    if i >= len(evs):
        return (i, None) if cut else (None, "nothing hashed for the %s body at %s" % (kind, "/".join(base)))
    want = TAGS[role][kind]
    if evs[i] != ("Tag", want):
        return None, "%s %s body starts with %r, published tag is 0x%02X" % (role, kind, evs[i], want)
    i += 1
    rec = lambda p_: ("Rec", "sdm", (base + p_,))
    if kind == "Newtype":
        if i < len(evs) and evs[i] == rec(("0",)):
            return i + 1, None
        return (i, None) if cut and i >= len(evs) else (None, "%s newtype body must hash its inner schema" % role)
    n = 0
    if kind == "Tuple":
        while i < len(evs) and evs[i] == rec(("0", "[%d]" % n)):
            i += 1
            n += 1
    if kind == "Struct":
        while i + 1 < len(evs) and evs[i] == ("Name", base + ("0", "[%d]" % n, "name")) and evs[i + 1] == rec(("0", "[%d]" % n, "ty")):
            i += 2
            n += 1
    return i, None


def parse_node(name, evs, kinds, cut):
    """ordering discipline of the Struct / Enum arms of the node hasher -> reason or None"""
    if name == "Struct":
        i, why = parse_data(evs, 0, "struct", ("data",), kinds, cut)
    else:
        if not evs or evs[0] != ("Tag", TAGS["sdm"]["Enum"]):
            return "the enum tag 0x%02X is not the first thing hashed" % TAGS["sdm"]["Enum"]
        i, why, n = 1, None, 0
        while i < len(evs) and evs[i] == ("Name", ("variants", "[%d]" % n, "name")):
            i, why = parse_data(evs, i + 1, "variant", ("variants", "[%d]" % n, "data"), kinds, cut)
            if why:
                break
            n += 1
    if why:
        return why
    if i < len(evs) and not (cut and i >= len(evs)):
        return "unexpected element %r at position %d of the stream (a type name hashed, a child skipped or out of order)" % (evs[i], i)
    return None


def run(run_, ctx):
    import summ2
    F = ctx.facts("A")
    sc = F.crate("postcard_schema")
    run_.configs.append("A")
    run_.bodies += len(sc.fns)
    # role functions = the node hasher (both copies) and the byte / str folds, found by signature; every other function of the hash
    # module (struct/variant/field hashers, tag helpers, shared bodies) is a private helper and is analysed in place
    roles = {cn: r for cn, r in hash_roles(sc).items() if r[0] in ("sdm", "update", "update_str")}

    def by_role(role, owned):
        fs = [F.fn_by_canon(cn) for cn, r in roles.items() if r[0] == role and r[1] == owned]
        if len(fs) != 1:
            run_.bad("ANCHOR", "%s hasher (%s)" % (role, "owned" if owned else "const"), "expected exactly one function with this signature, found %d" % len(fs))
            return None
        return fs[0]
    dmt = [v["name"] for v in sc.adts["postcard_schema::schema::DataModelType"]["variants"]]
    dat = [v["name"] for v in sc.adts["postcard_schema::schema::Data"]["variants"]]
    odmt = [v["name"] for v in sc.adts["postcard_schema::schema::owned::OwnedDataModelType"]["variants"]]
    odat = [v["name"] for v in sc.adts["postcard_schema::schema::owned::OwnedData"]["variants"]]
    fb, fo = by_role("sdm", False), by_role("sdm", True)
    ab = {}
    if fb and fo:
        ab, badb = arms_of(F, fb, dmt, (roles[fb.canon][2], ()), roles, dat)
        ao, bado = arms_of(F, fo, odmt, (roles[fo.canon][2], ()), roles, odat)
        for b in sorted(set(badb + bado)):
            run_.bad("H", "sdm threading", b, fb.where())
        ab, ao = strip_variant_prefix(ab), strip_variant_prefix(ao)
        run_.note("H: %d paths of the const node hasher, %d of the owned one" % (sum(len(v) for v in ab.values()), sum(len(v) for v in ao.values())))
        seen_kinds = {"struct": {}, "variant": {}}
        for name in sorted(set(ab) | set(ao)):
            key = "sdm::%s" % name
            x, y = ab.get(name), ao.get(name)
            if x is None or y is None:
                run_.bad("H", key, "arm exists in only one of the two hashers", (fb if x is None else fo).where())
                continue
            only_c = [e for e in x if e not in y]
            only_o = [e for e in y if e not in x]
            run_.check(not only_c and not only_o, "H", key, "compile-time and run-time hashers feed different byte streams for this node kind", fo.where(),
                       expected=[repr(e) for e in only_c][:3], found=[repr(e) for e in only_o][:3],
                       detail="same tag/name/recursion stream in both hashers on all %d paths" % len(x))
            # T: tag + order discipline on the const copy (the owned one is equal by H)
            want = TAGS["sdm"].get(name)
            allprobs = []
            for st, evs, kinds in x:
                probs = []
                if any(e[0] in ("Other", "Bytes", "Dropped") for e in evs):
                    probs.append("unexpected hashed data / call: %s" % [e for e in evs if e[0] in ("Other", "Bytes", "Dropped")][:2])
                elif name in ("Struct", "Enum"):
                    why = parse_node(name, list(evs), kinds, st == "cut")
                    if why:
                        probs.append(why)
                    for pth, kd in kinds:
                        if pth and pth[-1] == "data" and isinstance(kd, str):
                            role = "struct" if name == "Struct" else "variant"
                            seen_kinds[role].setdefault(kd, []).append(why)
                else:
                    tags = [e for e in evs if e[0] == "Tag"]
                    if len(tags) != 1 or tags[0][1] != want:
                        probs.append("tag bytes %s, published tag is 0x%02X" % ([hex(t[1]) for t in tags], want if want is not None else -1))
                    if evs and evs[0][0] != "Tag":
                        probs.append("the tag is not the first thing hashed")
                    if any(e[0] == "Name" for e in evs):
                        probs.append("a name is hashed in an arm that has none")
                allprobs += probs
            probs = sorted(set(allprobs))
            run_.check(not probs, "T", key, probs[0] if probs else "tag 0x%02X, tag-then-children in order" % (want or 0), fb.where(), found=probs[:4])
        # one instance per (body role, kind): at least one explored path has this kind, and every such path obeys the discipline
        for role in ("struct", "variant"):
            for kd in TAGS[role]:
                whys = seen_kinds[role].get(kd)
                bad_ = [w for w in (whys or []) if w]
                run_.check(bool(whys) and not bad_, "T", "%s::%s" % (role, kd),
                           (bad_[0] if bad_ else "no explored path hashes a %s body of kind %s" % (role, kd)), fb.where(),
                           detail="tag 0x%02X; %s" % (TAGS[role][kd], "name, tag, payload in order" if role == "variant" else "tag, then children in order"))
    run_.floor("H", 25)
    run_.floor("T", 33)
    # distinctness
    allt = [v for r in TAGS.values() for v in r.values()]
    run_.check(len(set(allt)) == len(allt) == 33, "T", "tags pairwise distinct", "published tag table has duplicates")
    # Map key-then-val (read off the const copy); field name-then-type is part of the Struct-body grammar above
    if fb and ab:
        mp = ab.get("Map", [])
        okm = mp and all([e for e in evs if e[0] == "Rec"] == [("Rec", "sdm", (("key",),)), ("Rec", "sdm", (("val",),))] for st, evs, kinds in mp)
        run_.check(bool(okm), "T", "sdm::Map child order", "a map must hash its key schema before its value schema", fb.where(), found=[repr(x) for x in mp])
    # ---- F / P: the FNV-1a primitives and the plumbing, as hand-written specifications in the vocabulary of the semantic summaries ------
    keep = set(roles)                       # role functions stay calls; everything else local is analysed in place
    inl = lambda f, ev: f.crate == "postcard_schema" and f.canon not in keep
    mul = lambda x: "wrapping_mul(%s)" % ", ".join(sorted([x, str(PRIME)]))
    L = lambda var, *iv: ["lin", var, [list(x) for x in iv]]

    def fold_spec(src, state0, as_write):
        """FNV-1a over the bytes of `src` in index order: state = (state ^ byte) * PRIME per byte (explored for 0, 1 and >= 2 bytes)"""
        one = mul("BitXor(*%s[0], %s)" % (src, state0))
        two = mul("BitXor(*%s[1], %s)" % (src, one))
        ln = "len(%s)" % src
        if as_write:
            outs = [("- => ()", [[L(ln, (0, 0))]]), ("self.state := %s => ()" % one, [[L(ln, (1, 1))]]), ("self.state := %s => ()" % two, [[L(ln, (2, 2))]]),
                    ("... [loop bound]", [[L(ln, (3, None))]])]
        else:
            outs = [("- => %s" % state0, [[L(ln, (0, 0))]]), ("- => %s" % one, [[L(ln, (1, 1))]]), ("- => %s" % two, [[L(ln, (2, 2))]]), ("... [loop bound]", [[L(ln, (3, None))]])]
        return {"outcomes": [{"text": t, "when": w} for t, w in sorted(outs)], "vars": {ln: [[ln, "1", True]]}, "truncated": False}
    upd, upds = by_role("update", False), by_role("update_str", False)
    hasher_update = [f for f in sc.fns if "::key::" in f.canon and f.name == "update" and (f.impl_self or "").split("<")[0].endswith("Fnv1a64Hasher")]
    sdm_c, sdm_o = by_role("sdm", False), by_role("sdm", True)
    n_f = 0
    if upd:
        n_f += summ2.check(run_, "F", upd, fold_spec("arg2", "arg1", False), F, what="FNV-1a update (state ^ byte, then * prime, bytes in index order)", key="hash_update", inline=inl)
    if upds:
        # the str variant may either loop itself or hand its bytes to the byte variant
        got = summ2.summarize(F, upds, inline=inl)
        want_a = fold_spec("arg2", "arg1", False)
        txt = [o["text"] for o in got["outcomes"]]
        via = upd is not None and len(txt) == 1 and txt[0] == "#1 = %s(arg1, arg2) => #1" % upd.def_
        okS = via or not summ2.compare(want_a, got)
        run_.check(okS, "F", "hash_update_str", "a string must be hashed as exactly its UTF-8 bytes, in order", upds.where(), found=txt[:3])
    for f in hasher_update[:1]:
        summ2.check(run_, "F", f, fold_spec("arg2", "self.state", True), F, what="streaming hasher: state ^= byte, then *= prime, bytes in index order", key="Fnv1a64Hasher::update",
                    inline=lambda f_, ev: f_.crate == "postcard_schema")
    new = [f for f in sc.fns if "::key::" in f.canon and f.name == "new" and (f.impl_self or "").split("<")[0].endswith("Fnv1a64Hasher")]
    for f in new[:1]:
        got = [o["text"] for o in summ2.summarize(F, f)["outcomes"]]
        run_.check(got == ["- => Fnv1a64Hasher{state: %d}" % BASIS], "F", "Fnv1a64Hasher::new", "wrong offset basis", f.where(), found=got)
    # path hashing: all path bytes from the offset basis, then the schema; little-endian digest
    paths = [f for f in sc.fns if "::key::" in f.canon and "::test" not in f.canon and f.locals[0]["ty"] == "[u8; 8]" and f.argc >= 1 and f.locals[1]["ty"].replace("'_ ", "") == "&str"
             and "{" not in f.canon.split("::")[-1]]
    for f in paths:
        owned = f.argc == 2
        sdm = sdm_o if owned else sdm_c
        if not (upds and sdm):
            continue
        subj = "arg2" if owned else "constref('postcard_schema::Schema::SCHEMA', T(), 'SCHEMA')"
        # the str variant is the byte variant on as_bytes (rule hash_update_str above): analysed in place so that either spelling reads the same
        inl2 = lambda f_, ev: f_.crate == "postcard_schema" and (f_.canon not in keep or f_.canon == upds.canon)
        got = [o["text"] for o in summ2.summarize(F, f, inline=inl2)["outcomes"]]
        want1 = "#1 = %s(%d, arg1); #2 = %s(#1, %s) => %s" % (upd.def_ if upd else "?", BASIS, sdm.def_, subj, le8("#2"))
        run_.check(len(got) == 1 and _same_call_text(got[0], want1), "F", "hash_ty_path" + ("_owned" if owned else ""),
                   "key = FNV-1a(path bytes from the offset basis, then the schema stream), little-endian", f.where(), expected=[want1], found=got)
    # Key constructors: the same digest, wrapped (whatever private helpers sit in between are analysed in place)
    for f in [x for x in sc.fns if x.name in ("for_path", "for_owned_schema_path") and "::key::" in x.canon and x.impl_self]:
        owned = f.argc == 2
        sdm = sdm_o if owned else sdm_c
        if not (upd and upds and sdm):
            continue
        subj = "arg2" if owned else "constref('postcard_schema::Schema::SCHEMA', T(), 'SCHEMA')"
        inl2 = lambda f_, ev: f_.crate == "postcard_schema" and (f_.canon not in keep or f_.canon == upds.canon)
        got = [o["text"] for o in summ2.summarize(F, f, inline=inl2)["outcomes"]]
        want1 = "#1 = %s(%d, arg1); #2 = %s(#1, %s) => Key(%s)" % (upd.def_, BASIS, sdm.def_, subj, le8("#2"))
        run_.check(len(got) == 1 and _same_call_text(got[0], want1), "P", "Key::" + f.name, "Key constructor does not wrap exactly the hasher's digest", f.where(),
                   expected=[want1], found=got)
    run_.floor("F", 6)
    run_.floor("P", 2)
    run_.explanation = (
        "The node hasher of the compile-time and of the run-time copy (found by signature) is explored on all paths (0,1,2 loop iterations) with "
        "every other function of the hash module analysed in place. Per match arm and per shape of a nested struct/variant body the stream fed to the "
        "hash is decoded from the value of the returned state (FNV-1a rounds on constant bytes, calls of the byte/str folds, recursion) and must be equal "
        "in both copies on every path (25 node kinds); on the const copy it must be the published tag followed by the children in the documented order "
        "(33 tags; variant = name, tag, payload; map = key then value; field = name then type; struct/enum type names unused). The FNV-1a fold, offset basis, "
        "path hashing and Key constructors are compared with hand-written specifications.")
    run_.trusted += ["u64::wrapping_mul / str::as_bytes", "C15.F: the owned schema is a faithful conversion of the static one"]


def _same_call_text(a, b):
    import re
    strip = lambda s: re.sub(r"::<[^>]*>", "", s)
    return strip(a) == strip(b)


def le8(x):
    return "[(%s as u8), " % x + ", ".join("(Shr(%s, %d) as u8)" % (x, 8 * k) for k in range(1, 8)) + "]"
