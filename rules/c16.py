"""C16 — schema keys: both hashers agree and equal the documented FNV-1a stream.

C16.H  sibling hashers: for hash_sdm_type / hash_struct / hash_variant / hash_named_field and their *_owned twins the ordered
       event list per match arm  Tag(byte) | Name(field) | Rec(callee role, field[, element i])  is extracted from MIR on every path
       (loops explored for 0, 1 and 2 iterations) and must be identical arm by arm, keyed by variant *name*; the running state is
       threaded through every call and returned.
C16.T  tag table: the 33 tag bytes equal the published table (the key stream is a persisted contract), are pairwise distinct within
       each of the three namespaces' union, each arm hashes tag-then-children in declaration order, type names of structs/enums are
       bound but not hashed, variant and field names are hashed before their payload.
C16.F  FNV-1a: basis 0xcbf29ce484222325, prime 0x100000001b3; hash_update and Fnv1a64Hasher::update both do state ^= byte then
       wrapping_mul(prime) with bytes in index order; digests are little-endian.
C16.P  plumbing: hash_ty_path::<T> = hash_update_str(BASIS, path) (all path bytes, unmodified) then hash_sdm_type(., T::SCHEMA);
       owned likewise; Key::for_path / Key::for_owned_schema_path wrap exactly these.
With C15.F (the conversion preserves every kind, name and order) the two keys are equal for every schema and path.
"""
import summ
import sym
import tbl
from tbl import norm

LEVEL = "other"
MANIFEST = {
    "text": "Static sibling comparison of the two hand-duplicated hashers: the tag/name/recursion event stream of every match arm of the const and "
            "the owned copy is read from MIR and compared arm by arm, the 33 tag bytes are compared with the published table, the FNV-1a "
            "constants and update order and the path/plumbing functions are checked. Decides key equality for all schemas and paths (given "
            "C15's conversion) and sensitivity at the level 'distinct node kinds and names feed distinct bytes in order'.",
    "note": "Does not decide collision-freeness (a 64-bit hash has collisions). Trusted: u64::wrapping_mul, str::as_bytes.",
    "technique": "static analysis: per-arm event extraction from path-sensitive MIR evaluation + sibling agreement + frozen published tag table",
}

BASIS = 0xcbf29ce484222325
PRIME = 0x100000001b3

TAGS = {
    "sdm": {"Bool": 0x11, "I8": 0xC5, "U8": 0x3D, "I16": 0x1D, "I32": 0x0D, "I64": 0x0B, "I128": 0x02, "U16": 0x83, "U32": 0xD3,
            "U64": 0x13, "U128": 0x8B, "Usize": 0x6B, "Isize": 0xAD, "F32": 0xEF, "F64": 0x71, "Char": 0xC1, "String": 0x25,
            "ByteArray": 0x65, "Option": 0x6D, "Unit": 0x47, "Seq": 0x03, "Tuple": 0xA7, "Map": 0x4F, "Enum": 0xE9, "Schema": 0xE5},
    "struct": {"Unit": 0xBF, "Newtype": 0x9D, "Tuple": 0x05, "Struct": 0x7F},
    "variant": {"Unit": 0xB5, "Newtype": 0xDF, "Tuple": 0xC7, "Struct": 0x67},
}

ROLES = {"hash_sdm_type": "sdm", "hash_sdm_type_owned": "sdm", "hash_struct": "struct", "hash_variant": "variant",
         "hash_named_field": "field", "hash_update": "update", "hash_update_str": "update_str"}


def field_path(t):
    """normalised access path of a term relative to the hashed node: ('Variant','field','[i]') ; derefs/boxes dropped"""
    t = norm(t)
    out = []

    def loc(l):
        k = l[0]
        if k == "P":
            return val(l[1])
        if k == "F":
            return loc(l[1]) + [l[2]]
        if k == "D":
            return loc(l[1]) + ["as " + l[2]]
        if k == "I":
            i = l[2]
            return loc(l[1]) + ["[%s]" % (i[1] if sym.is_c(i) else "?")]
        if k == "L":
            return ["local"]
        if k == "S":
            return loc(l[1])
        return ["?"]

    def val(v):
        k = v[0]
        if k == "param":
            return ["arg%d" % v[1]]
        if k == "init":
            return loc(v[1])
        if k == "ref":
            return loc(v[1])
        if k == "call" and (v[2] or "").endswith(("Deref::deref", "Index::index", "AsRef::as_ref")):
            base = val(v[3][0])
            if (v[2] or "").endswith("Index::index") and len(v[3]) > 1:
                i = v[3][1]
                return base + ["[%s]" % (i[1] if sym.is_c(i) else "?")]
            return base
        if k == "getf":
            return val(v[1]) + [v[2]]
        if k == "cast":
            return val(v[2])
        return ["?" + k]
    path = val(t)
    # Box<T> deref is lowered to `.0.pointer` (+ pointer cast): not part of the logical access path
    out = []
    i = 0
    while i < len(path):
        if path[i] == "0" and i + 1 < len(path) and path[i + 1] == "pointer":
            i += 2
            continue
        out.append(path[i])
        i += 1
    return tuple(out)


def events_of(F, fn, p, local_roles):
    """ordered events of one path + whether the state is threaded"""
    evs = []
    state = ("param", 1, "u64")
    threaded = True
    for e in tbl.residual_calls(p):
        nm = e["name"]
        c = e["callee"]
        if c and c["krate"] == "postcard_schema" and nm in local_roles:
            role = local_roles[nm]
            if norm(e["args"][0]) != norm(state):
                threaded = False
            state = e["result"]
            if role == "update":
                a = e["args"][1]
                snap = e["snap"][1]
                b = None
                if snap and snap[0] == "agg" and snap[1] == "array" and len(snap[5]) == 1 and sym.is_c(snap[5][0]):
                    b = snap[5][0][1]
                na = norm(a)
                if b is not None:
                    evs.append(("Tag", b))
                elif na[0] == "call" and (na[2] or "").endswith("<impl str>::as_bytes"):
                    evs.append(("Name", field_path(na[3][0])[1:]))
                else:
                    evs.append(("Bytes", sym.show(na)))
            elif role == "update_str":
                evs.append(("Name", field_path(e["args"][1])[1:]))
            else:
                extra = tuple(field_path(a)[1:] for a in e["args"][1:])
                evs.append(("Rec", role, extra))
        elif nm in ("as_bytes", "len", "deref", "index", "as_ref"):
            continue
        elif c and c["krate"] in ("core", "alloc", "std") and nm in ("deref", "as_ref", "index", "as_bytes", "len"):
            continue
        else:
            evs.append(("Other", e["key"]))
    ret_ok = p.status == "cut" or norm(p.ret) == norm(state)
    return evs, threaded and ret_ok


def arms_of(F, fn, adt_variants, subject_arg):
    """-> {variant name: sorted list of event tuples over the explored iteration counts}"""
    eng = sym.Engine(F, max_visits=3)
    arms = {}
    bad = []
    for p in eng.run(fn):
        if p.status not in ("return", "cut"):
            bad.append("path ends in %s" % p.status)
            continue
        # which variant?
        k = None
        for atom, v in p.tagfacts.items():
            if atom[0] == "tag" and isinstance(v, int):
                fp = field_path(atom[1])
                if fp and fp[0] == "arg%d" % subject_arg[0] and tuple(fp[1:]) == subject_arg[1]:
                    k = v
        name = adt_variants[k] if (k is not None and k < len(adt_variants)) else "*"
        evs, ok = events_of(F, fn, p, ROLES)
        if not ok:
            bad.append("arm %s: the running hash state is not threaded through every update / returned" % name)
        arms.setdefault(name, set()).add((p.status, tuple(evs)))
    return {k: sorted(v) for k, v in arms.items()}, bad


def strip_variant_prefix(arms):
    """drop the leading 'as Variant' / 'data' path elements that differ only by how the subject is reached"""
    def fix_path(pth):
        return tuple(x for x in pth if not x.startswith("as ") and x not in ("data",))

    def fix(ev):
        if ev[0] == "Name":
            return ("Name", fix_path(ev[1]))
        if ev[0] == "Rec":
            return ("Rec", ev[1], tuple(fix_path(x) for x in ev[2]))
        return ev
    return {k: [(st, tuple(fix(e) for e in evs)) for st, evs in v] for k, v in arms.items()}


def run(run_, ctx):
    F = ctx.facts("A")
    sc = F.crate("postcard_schema")
    run_.configs.append("A")
    run_.bodies += len(sc.fns)

    def fn(path):
        f = F.fn_by_canon("postcard_schema::key::hash::" + path)
        if f is None:
            run_.bad("ANCHOR", path, "hasher function not found")
        return f
    dmt = [v["name"] for v in sc.adts["postcard_schema::schema::DataModelType"]["variants"]]
    dat = [v["name"] for v in sc.adts["postcard_schema::schema::Data"]["variants"]]
    odmt = [v["name"] for v in sc.adts["postcard_schema::schema::owned::OwnedDataModelType"]["variants"]]
    odat = [v["name"] for v in sc.adts["postcard_schema::schema::owned::OwnedData"]["variants"]]
    pairs = [
        ("sdm", "fnv1a64::hash_sdm_type", "fnv1a64_owned::hash_sdm_type_owned", dmt, odmt, (2, ())),
        ("struct", "fnv1a64::hash_struct", "fnv1a64_owned::hash_struct", dat, odat, (3, ())),
        ("variant", "fnv1a64::hash_variant", "fnv1a64_owned::hash_variant", dat, odat, (2, ("data",))),
        ("field", "fnv1a64::hash_named_field", "fnv1a64_owned::hash_named_field", ["*"], ["*"], (2, ("?",))),
    ]
    ntags = 0
    for role, pc_, po_, vb, vo, subj in pairs:
        fb, fo = fn(pc_), fn(po_)
        if not fb or not fo:
            continue
        ab, badb = arms_of(F, fb, vb, subj)
        ao, bado = arms_of(F, fo, vo, subj)
        for b in badb + bado:
            run_.bad("H", "%s threading" % role, b, fb.where())
        ab, ao = strip_variant_prefix(ab), strip_variant_prefix(ao)
        for name in sorted(set(ab) | set(ao)):
            key = "%s::%s" % (role, name)
            x, y = ab.get(name), ao.get(name)
            if x is None or y is None:
                run_.bad("H", key, "arm exists in only one of the two hashers", (fb if x is None else fo).where())
                continue
            run_.check(x == y, "H", key, "compile-time and run-time hashers feed different byte streams for this node kind", fo.where(),
                       expected=[repr(e) for e in x][:3], found=[repr(e) for e in y][:3],
                       detail="same tag/name/recursion stream in both hashers")
            # T: tag + order discipline on the const copy (the owned one is equal by H)
            if role in TAGS:
                first = x[0][1]
                want = TAGS[role].get(name)
                if role == "sdm" and name == "Struct":
                    okt = all(evs and evs[0][0] == "Rec" and evs[0][1] == "struct" for st, evs in x)
                    run_.check(okt, "T", key, "a struct node must be hashed by its data shape only (type name bound but not hashed)", fb.where(),
                               detail="delegates to the struct-data hasher; type name unused")
                    continue
                tag_first = role != "variant"
                for st, evs in x:
                    tags = [e for e in evs if e[0] == "Tag"]
                    probs = []
                    if len(tags) != 1 or tags[0][1] != want:
                        probs.append("tag bytes %s, published tag is 0x%02X" % ([hex(t[1]) for t in tags], want if want is not None else -1))
                    if tag_first and evs and evs[0][0] != "Tag":
                        probs.append("the tag is not the first thing hashed")
                    if not tag_first and (len(evs) < 2 or evs[0][0] != "Name" or evs[0][1] != ("name",) or evs[1][0] != "Tag"):
                        probs.append("a variant must hash its name, then its tag, then its payload")
                    if any(e[0] in ("Other", "Bytes") for e in evs):
                        probs.append("unexpected hashed data / call: %s" % [e for e in evs if e[0] in ("Other", "Bytes")][:2])
                    if role == "sdm" and name == "Enum" and any(e[0] == "Name" for e in evs):
                        probs.append("the enum's own type name is hashed")
                    if probs:
                        break
                ntags += 1
                run_.check(not probs, "T", key, probs[0] if probs else "tag 0x%02X, tag-then-children in order" % want, fb.where(), found=probs)
    # children in declaration order for the multi-child arms
    run_.floor("H", 33)
    run_.floor("T", 33)
    # distinctness
    allt = [v for r in TAGS.values() for v in r.values()]
    run_.check(len(set(allt)) == len(allt) == 33, "T", "tags pairwise distinct", "published tag table has duplicates")
    # Map key-then-val, named field name-then-type (read off the const copy)
    fb = fn("fnv1a64::hash_sdm_type")
    if fb:
        ab, _ = arms_of(F, fb, dmt, (2, ()))
        ab = strip_variant_prefix(ab)
        mp = ab.get("Map", [])
        okm = mp and all([e for e in evs if e[0] == "Rec"] == [("Rec", "sdm", (("key",),)), ("Rec", "sdm", (("val",),))] for st, evs in mp)
        run_.check(bool(okm), "T", "sdm::Map child order", "a map must hash its key schema before its value schema", fb.where(), found=[repr(x) for x in mp])
    fb = fn("fnv1a64::hash_named_field")
    if fb:
        ab, _ = arms_of(F, fb, ["*"], (2, ("?",)))
        nf = list(ab.values())[0] if ab else []
        okn = nf and all(list(evs) == [("Name", ("name",)), ("Rec", "sdm", (("ty",),))] for st, evs in nf)
        run_.check(bool(okn), "T", "field name-then-type", "a named field must hash its name and then its type", fb.where(), found=[repr(x) for x in nf])
    # ---- F / P: summaries ---------------------------------------------------------------------------------------
    WANT = {
        "fnv1a64::hash_update": [
            "if len(arg2) <= 0: - => arg1",
            "if 0 < len(arg2) && len(arg2) <= 1: #1 = core::num::<impl u64>::wrapping_mul(BitXor(arg1, (*arg2[0] as u64)), 1099511628211) => #1",
            "if 0 < len(arg2) && 1 < len(arg2): #1 = core::num::<impl u64>::wrapping_mul(BitXor(arg1, (*arg2[0] as u64)), 1099511628211); #2 = core::num::<impl u64>::wrapping_mul(BitXor(#1, (*arg2[1] as u64)), 1099511628211) => None [cut]",
        ],
        "fnv1a64::hash_update_str": ["if always: #1 = core::str::<impl str>::as_bytes(arg2); #2 = key::hash::fnv1a64::hash_update(arg1, #1) => #2"],
        "fnv1a64::hash_ty_path": [
            "if always: #1 = key::hash::fnv1a64::hash_update_str(%d, arg1); #2 = key::hash::fnv1a64::hash_sdm_type(#1, constref('postcard_schema::Schema::SCHEMA', T(), 'SCHEMA')) => %s" % (BASIS, le8("#2"))],
        "fnv1a64_owned::hash_ty_path_owned": [
            "if always: #1 = key::hash::fnv1a64::hash_update_str(%d, arg1); #2 = key::hash::fnv1a64_owned::hash_sdm_type_owned(#1, arg2) => %s" % (BASIS, le8("#2"))],
    }
    for path, want in WANT.items():
        f = fn(path)
        if f:
            ls = summ.lines(summ.summarize(F, f))
            run_.check(sorted(ls) == sorted(want), "F", path, "FNV-1a / plumbing function differs from the documented algorithm", f.where(), expected=want, found=ls,
                       detail="as documented")
    f = fn("{impl#0}::update")
    if f:
        ls = summ.lines(summ.summarize(F, f))
        okb = any("*self.state := BitXor(*self.state, #3)" in l and "wrapping_mul(BitXor(*self.state, #3), %d)" % PRIME in l and "<u64 as From>::from(*someval(#2))" in l for l in ls)
        run_.check(okb, "F", "Fnv1a64Hasher::update", "streaming hasher does not xor the byte in and then multiply by the FNV prime", f.where(), found=ls[:2])
    f = fn("{impl#0}::new")
    if f:
        ls = summ.lines(summ.summarize(F, f))
        run_.check(ls == ["if always: - => Fnv1a64Hasher{state: %d}" % BASIS], "F", "Fnv1a64Hasher::new", "wrong offset basis", f.where(), found=ls)
    # Key constructors
    for canon, want in (("postcard_schema::key::{impl#2}::for_path", "key::hash::fnv1a64::hash_ty_path(arg1)"),
                        ("postcard_schema::key::key_owned::{impl#0}::for_owned_schema_path", "key::hash::fnv1a64_owned::hash_ty_path_owned(arg1, arg2)")):
        f = F.fn_by_canon(canon)
        if f is None:
            fs = [x for x in sc.fns if x.name == canon.split("::")[-1] and "key" in x.canon]
            f = fs[0] if len(fs) == 1 else None
        if f is None:
            run_.bad("P", canon.split("::")[-1], "Key constructor not found")
            continue
        ls = summ.lines(summ.summarize(F, f))
        run_.check(len(ls) == 1 and ("#1 = " + want) in ls[0] and ls[0].endswith("=> Key(#1)"), "P", "Key::" + f.name,
                   "Key constructor does not wrap exactly the hasher's digest", f.where(), found=ls)
    run_.floor("F", 6)
    run_.floor("P", 2)
    run_.explanation = (
        "Both hashers' four recursive functions are explored on all paths (0,1,2 loop iterations). Per match arm the ordered stream of Tag(byte) / Name(field) / "
        "Rec(role, field[i]) events, with the running state threaded through, is extracted and compared between the compile-time and the run-time copy keyed by "
        "variant name (33 arms). The const copy's tags are compared with the published 33-byte table and its ordering discipline (tag first; variant name-tag-payload; "
        "map key-then-value; field name-then-type; struct/enum type names unused). FNV-1a constants, update order, path hashing and Key constructors are compared with "
        "their documented form.")
    run_.trusted += ["u64::wrapping_mul / str::as_bytes", "C15.F: the owned schema is a faithful conversion of the static one"]


def le8(x):
    return "[(%s as u8), " % x + ", ".join("(Shr(%s, %d) as u8)" % (x, 8 * k) for k in range(1, 8)) + "]"
