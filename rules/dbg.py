"""debug helper: python3 rules/dbg.py <crate> <fn-name-or-canon-suffix> [max_visits] [inline-names,...]"""
import sys, os
sys.path.insert(0, os.path.dirname(os.path.abspath(__file__)))
import facts, sym

def main():
    F = facts.load("A")
    cr = F.crate(sys.argv[1])
    pat = sys.argv[2]
    mv = int(sys.argv[3]) if len(sys.argv) > 3 else 2
    inl = set(sys.argv[4].split(",")) if len(sys.argv) > 4 else set()
    fns = [f for f in cr.fns if f.name == pat or f.canon.endswith(pat)]
    for f in fns:
        print("=====", f.def_, f.where())
        eng = sym.Engine(F, inline=lambda fn, ev: fn.name in inl, max_visits=mv)
        paths = eng.run(f)
        print("paths:", len(paths), "truncated" if eng.truncated else "")
        for i, p in enumerate(paths):
            print(" -- path", i, p.status, "ret =", sym.show(p.ret) if p.ret else None)
            for c in p.pc:
                print("      cond", sym.show(c[0]), "==", c[1], c[2])
            for e in p.events:
                if e["k"] == "call":
                    print("      call", e["key"], [sym.show(a) for a in e["args"]], "inl" if e.get("inlined") else "", "mod" if e.get("modelled") else "", "DIVERGES" if e["diverges"] else "")
                elif e["k"] == "assert":
                    print("      assert", e["kind"], sym.show(e["cond"]), e["expected"], "static=%s" % e["static"])
                elif e["k"] == "write":
                    print("      write", sym.show_loc(e["loc"]), ":=", sym.show(e["val"]))
                elif e["k"] == "rawderef":
                    print("      rawderef", e["rw"], sym.show(e["ptr"]))
                else:
                    print("      ", e["k"], e.get("name"))
main()
