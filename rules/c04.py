"""C04 — decoding untrusted bytes is total, in-bounds and resource-bounded.

C04.P  panic sites (PAN) of every decode entry point, every Deserializer/access method, every in-crate de::Flavor impl:
       all discharged (guards via LIN, pointer invariant, BIT for the varint/zig-zag helpers, cobs contract, trait contract).
C04.G  raw-pointer cursors (de::Slice, SlidingBuffer): every read/hand-out is guarded exactly (fits <=> Ok), GRD/LIN.
C04.L  lifetime witnesses (compile_fail doc-tests with compiling twins): decoded &str/&[u8] cannot outlive the input, a value
       from from_io keeps the scratch buffer mutably borrowed, feed_ref values borrow the accumulator, Slice::new ties 'de.
C04.B  borrowed results are the taken slice: the argument of visit_borrowed_str/bytes is (a from_utf8 view of) try_take_n's result.
C04.H  size-hint rule: SeqAccess::size_hint returns Some(len) only when the flavor's hint is absent or >= len; every in-crate
       flavor defines size_hint (Slice: end - cursor; readers: scratch left; CRC: forwards); the decode path never calls into alloc.
C04.W  deserialize_any / identifier / ignored_any return Err(WontImplement) on every path and read nothing.
"""
import re

import c03
import c07
import c11
import glue
import grd
import lin
import pan
import panlin
import summ
import summ2
import vint
import sym
import tbl
import witness
from c20 import _Sub
from glueprops import run_groups
from sym import C
from tbl import norm

LEVEL = "other"
MANIFEST = {
    "text": "Static totality/memory-safety argument for the decode path: every panic site on every MIR path of postcard's own decode code is "
            "enumerated and discharged; the unsafe cursor reads are proved in-bounds with exact guards by linear arithmetic; lifetime "
            "laundering is excluded by compile-fail witnesses with error codes; the size-hint withholding that bounds pre-allocation and the "
            "WontImplement refusals are checked per path. Right level: an off-by-one in a guard changes no test but is visible in the guard itself.",
    "note": "Does not decide the numeric allocation bound (serde's cautious cap times the withheld hint), maps (their hint is unconditional, outside the "
            "statement), visitors, recursion depth. Trusted: cobs report contract, Flavor::try_take_n returns exactly n bytes for user flavors.",
    "technique": "static analysis: panic-site enumeration with linear-arithmetic / bit-affine / contract discharge + hand-written cursor specifications compared with semantic MIR summaries + compile_fail lifetime witnesses + path rules",
}

TAKE_CONTRACT = "trait contract: Flavor::try_take_n(n) returns exactly n bytes (verified for in-crate flavors by their summaries)"
PTR_INV = "invariant: cursor <= end of the raw-pointer cursor (established by new, preserved by every writer; C04.G)"


def decode_fns(pc):
    fns = []
    access_selfs = set((f.impl_self or "").split("<")[0] for f in pc.fns if c03.is_access_impl(f))      # incl. their inherent helpers
    for f in pc.fns:
        k = summ.fn_key(f)
        g = glue.group_of(k)
        s = f.impl_self or ""
        if g in ("de_entry", "de_core", "de_slice", "de_sliding", "de_reader", "de_crc"):
            fns.append(f)
        elif f.dk == "AssocFn" and (c03.is_deser_self(s) or c03.is_access_impl(f) or s.startswith("de::deserializer::Deserializer<")
                                    or s.split("<")[0] in access_selfs):
            fns.append(f)
    return fns


def path_hyps(F, p, ren=None):
    """hypotheses for the linear discharge: pointer invariant of every raw-pointer cursor struct met on the path, the cobs report
    contract, and the try_take_n length contract"""
    ren = ren or {}
    inv = {v: k for k, v in ren.items()}
    cur_n, end_n, start_n = inv.get("cursor", "cursor"), inv.get("end", "end"), inv.get("start", "start")
    hyps = list(c07.contract_facts(p))
    parents = set()
    terms = [norm(c) for c, _, _ in p.pc] + [norm(e.get(k)) for e in p.events if e["k"] == "assert" for k in ("a", "b", "index", "len") if e.get(k) is not None]
    for t in sym.subterms(tuple(terms)):
        if t and t[0] == "init" and t[1][0] == "F" and t[1][2] in (cur_n, end_n, start_n):
            parents.add(t[1][1])
    for par in parents:
        cur, end, start = ("init", ("F", par, cur_n)), ("init", ("F", par, end_n)), ("init", ("F", par, start_n))
        hyps.append(lin.ge(end, cur))
        hyps.append(lin.ge(cur, start))
    for e in tbl.residual_calls(p):
        if e["key"] == tbl.DE_TAKE and len(e["args"]) == 2:
            ln = ("len", ("okval", norm(e["result"])))
            n = norm(e["args"][1])
            hyps += [lin.ge(ln, n), lin.ge(n, ln)]
    return hyps


def discharge_factory(F, helpers):
    def discharge(s):
        fk = summ.fn_key(s.fn)
        e = s.ev
        try:
            if panlin.discharged(s.path, e, path_hyps(F, s.path)):
                return "linear: guards on the path + pointer invariant / cobs report contract / try_take_n length contract (LIN)"
        except Exception:
            pass
        if s.kind == "assert:Overflow:Sub" and "addr(" in s.text and ("de::flavors::Slice<" in fk or "SlidingBuffer<" in fk):
            return PTR_INV
        if s.kind == "assert:Overflow:Sub" and ("SeqAccess" in fk or "MapAccess" in fk):
            facts = lin.facts_from_pc([(norm(c), t, k) for c, t, k in s.path.pc[:e["pc"]]])
            try:
                if lin.implies(facts, lin.ge(norm(e["a"]), norm(e["b"]))):
                    return "guard: len > 0 dominates len - 1 (LIN)"
            except Exception:
                pass
            return None
        if s.kind == "call" and "copy_from_slice" in s.text and ("deserialize_f32" in fk or "deserialize_f64" in fk):
            cp = e.get("copy")
            if cp and sym.is_c(cp["dst_len"]):
                # source = okval(try_take_n(flavor, K)) with K == dst_len
                src = norm(e["args"][1])
                if src[0] == "okval" and src[1][0] == "call" and src[1][2] == tbl.DE_TAKE and norm(src[1][3][1]) == cp["dst_len"]:
                    return TAKE_CONTRACT + "; destination is a %d-byte array" % cp["dst_len"][1]
            return None
        if fk in ("de::from_bytes_cobs", "de::take_from_bytes_cobs"):
            if s.kind.startswith("assert:Overflow"):
                return c07.discharge_assert(s.path, e, None)
            if s.kind == "call":
                arg = s.cn.t(norm(e["args"][1]))
                return ("external contract: " + c07.CONTRACT) if arg in c07.CONTRACT_OPERANDS else None
        return None
    return discharge


def check_size_hint(run_, F, pc):
    fs = [f for f in pc.fns if f.name == "size_hint" and c03.is_access_impl(f, ("SeqAccess",))]
    if len(fs) != 1:
        run_.bad("H", "SeqAccess::size_hint", "method not found")
        return
    f = fs[0]
    eng = sym.Engine(F, max_visits=2, inline=lambda g, ev: g.crate == "postcard" and g.argc <= 2 and not g.impl_trait)
    s = ("P", ("param", 1, f.locals[1]["ty"]))
    # the element count is the access object's integer field (whatever it is called)
    adt_ = [a for a in pc.adts.values() if a.get("def") == (f.impl_self or "").split("<")[0]]
    cnt = [fl["name"] for a in adt_ for v in a.get("variants", []) for fl in v.get("fields", []) if fl.get("ty") == "usize"]
    ln = ("init", ("F", s, cnt[0] if len(cnt) == 1 else "len"))
    probs = []
    somes = 0
    for p in eng.run(f):
        r = p.ret
        hints = [e for e in tbl.residual_calls(p) if e["key"] == tbl.DE_HINT]
        if len(hints) != 1:
            probs.append("the flavor's size_hint is not consulted exactly once")
            continue
        h = hints[0]["result"]
        if r[0] == "agg" and r[3] == "Some":
            somes += 1
            if norm(r[5][0]) != ln:
                probs.append("hint is %s, expected the remaining element count" % sym.show(norm(r[5][0])))
            tag = p.tagfacts.get(("tag", h))
            if tag == 1:
                # flavor knows how many bytes are left: len must be <= that
                facts = lin.facts_from_pc([(norm(c), t, k) for c, t, k in p.pc])
                try:
                    okh = lin.implies(facts, lin.ge(norm(("someval", h)), ln))
                except Exception:
                    okh = False
                if not okh:
                    probs.append("claims %s elements although fewer input bytes may be left (pre-allocation from an untrusted length)" % sym.show(ln))
            elif tag not in (0, ("not", frozenset({1}))):
                probs.append("returns Some(len) without looking at the flavor's hint")
        elif r[0] == "agg" and r[3] == "None":
            pass
        else:
            probs.append("unexpected return %s" % sym.show(r))
    if somes == 0:
        probs.append("never returns a hint")
    run_.check(not probs, "H", "SeqAccess::size_hint", probs[0] if probs else "Some(len) only if flavor hint absent or >= len", f.where(), found=probs)


def check_no_alloc(run_, F, fns):
    bad = []
    for f in fns:
        for bb in f.blocks:
            t = bb["term"]
            if t["k"] == "call" and t["callee"] and (t["callee"]["krate"] == "alloc" or re.search(r"with_capacity|::reserve", t["callee"]["def"])):
                bad.append("%s calls %s" % (summ.fn_key(f), t["callee"]["def"]))
    run_.check(not bad, "H", "no allocation in the decode path", bad[0] if bad else "postcard's decode code never calls into alloc (all allocation happens in serde's visitors under the hint)", found=bad)


def run(run_, ctx):
    run_groups(run_, ctx, [
        ("S", "de_slice", None, "slice source"),
        ("S", "de_sliding", None, "scratch buffer"),
        ("S", "de_reader", None, "reader source"),
        ("S", "de_crc", None, "CRC source"),
        ("S", "de_entry", None, "decode entry point"),
        ("S", "de_core", None, "Deserializer constructor/finalize"),
    ])
    run_.floor("S", 58)
    F = ctx.facts("A")
    pc = F.crate("postcard")
    helpers = ctx.helpers("A")
    fns = decode_fns(pc)
    # P
    roots = [f for f in fns if glue.specified(f) and not vint.is_helper(f)]
    pan.run_sites(run_, "P", F, roots, discharge_factory(F, helpers), inline=summ2.inline_glue, models=sym.SLICE_MODELS)
    run_.floor("P", 12)
    run_.extra["functions_scanned_for_panic_sites"] = len(fns)
    for f in pc.fns:
        if f.name.startswith("try_take_varint_u") and f.name[-1].isdigit():
            info, why = helpers.reader(f.canon, int(f.name.split("_u")[1]))
            run_.check(info is not None, "P", "helper " + f.def_, "varint reader may panic or loop: %s" % why, f.where(), detail="bounded loop, no feasible panic (BIT)")
        if f.def_.startswith("de::deserializer::de_zig_zag"):
            info, why = helpers.zz_dec(f.canon)
            run_.check(info is not None, "P", "helper " + f.def_, "inverse zig-zag may panic: %s" % why, f.where(), detail="negation operand is 0/1 (BIT)")
    # G
    sub = _Sub(run_, "G")
    sub2 = _Rename(run_, {"R1": "G", "BX": "G"})
    c03.check_slice_flavor(sub2, F)
    c11.check_sliding(sub2, F, pc)
    run_.floors.pop("R1", None)
    run_.floors.pop("BX", None)
    run_.floor("G", 5)
    # B + W via the C03 table on the relevant methods
    sub3 = _Rename(run_, {"T1": "BW"})
    for f in pc.fns:
        if f.dk == "AssocFn" and c03.is_deser_self(f.impl_self) and f.impl_trait == c03.DE_TRAIT and \
                f.name in ("deserialize_str", "deserialize_string", "deserialize_bytes", "deserialize_byte_buf",
                           "deserialize_any", "deserialize_identifier", "deserialize_ignored_any"):
            c03.check_method(sub3, F, helpers, f)
    run_.floor("BW", 7)
    # H
    check_size_hint(run_, F, pc)
    check_no_alloc(run_, F, fns)
    run_.floor("H", 2)
    # L
    witness.run_witnesses(run_, "L", ctx.root, only=lambda n: n[:2] in ("W1", "W2", "W3", "W4", "W5", "W6", "W8"))
    run_.floor("L", 7)
    run_.explanation = (
        "%d functions of the decode path (entry points, Deserializer and access methods, all in-crate de flavors) are explored on all MIR paths; every "
        "assertion, diverging call and panicking std call is listed and discharged (dominating guard by Fourier-Motzkin, pointer invariant, bit-affine proof of "
        "the varint/zig-zag helpers, cobs report contract, try_take_n length contract). The raw-pointer cursors' guards are proved exact in both directions. "
        "Seven compile_fail witnesses with error codes (each with a compiling twin) show borrowed results cannot outlive or alias their buffers. The sequence "
        "size hint is withheld unless the flavor reports at least that many bytes, every in-crate flavor implements size_hint, and no decode code allocates." % len(fns))
    run_.trusted += [c07.CONTRACT, TAKE_CONTRACT, "serde visitors allocate under the size hint (serde's cautious cap)", "rustc borrow checker"]
    run_.assumptions += ["external calls not on the panic deny-list do not panic", "recursion depth on deeply nested types is not bounded (stack)"]


class _Rename:
    def __init__(self, run_, m):
        self.run_ = run_
        self.m = m

    def ok(self, rule, key, detail="", site=None, method=None):
        return self.run_.ok(self.m.get(rule, rule), key, detail, site, method)

    def bad(self, rule, key, what, site=None, expected=None, found=None):
        return self.run_.bad(self.m.get(rule, rule), key, what, site, expected, found)

    def check(self, cond, rule, key, what, site=None, expected=None, found=None, detail=""):
        if cond:
            return self.ok(rule, key, detail or what, site)
        return self.bad(rule, key, what, site, expected, found)

    def floor(self, rule, n):
        self.run_.floor(self.m.get(rule, rule), n)
