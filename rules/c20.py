"""C20 — stacked flavours compose as byte-stream transformers.

C20.D  the trait's default try_extend feeds every byte of `data`, in slice order, to try_push and stops at the first error
       (`data.iter().try_for_each(|d| self.try_push(*d))`).
C20.M  the two modifier flavors (Cobs<B>, CrcModifier<B,_>) are generic in B with no storage-specific branch and touch the
       inner flavor only through try_push / IndexMut / finalize, calling the inner finalize last (summaries, C06.E/C10.S).
C20.O  serialize_with_flavor = value.serialize(&mut Serializer{output: storage}) then storage.finalize(): nested finalize calls
       apply the innermost-first order (CRC appended before COBS terminates the frame).
C20.U  the Serializer touches its flavor only through try_push/try_extend with the plain encoding in order (C02.T1 instances
       re-evaluated here: every flavor effect of every serializer method is on `self.output` and part of the table cell).
"""
import glue
import summ
import sym
import tbl
import c02
from glueprops import run_groups

LEVEL = "other"
MANIFEST = {
    "text": "Static structural check: default block write = in-order per-byte push; modifier flavors only transform-and-forward to a "
            "generic inner flavor and finalize it last; serialize_with_flavor = serialize then finalize; the serializer reaches the "
            "flavor only through try_push/try_extend with exactly the plain encoding. Together these make any stack of in-crate "
            "modifiers a composition of byte-stream transformers for every value and innermost storage.",
    "note": "Does not re-derive the concrete composed byte strings (they follow from C02+C06+C10). Trusted: Iterator::try_for_each order, cobs/crc crates.",
    "technique": "static analysis: semantic MIR summaries vs specifications + who-may-call over resolved callees + table agreement",
}


def run(run_, ctx):
    run_groups(run_, ctx, [
        ("D", "ser_default", None, "default try_extend"),
        ("M", "ser_cobs", None, "COBS modifier"),
        ("M", "ser_crc", None, "CRC modifier"),
        ("O", "ser_entry", lambda k: k == "ser::serialize_with_flavor", "serialize_with_flavor"),
        ("ST", "ser_slice", lambda k: "Index" not in k, "innermost storage: slice"),
        ("ST", "ser_storage", lambda k: "Size" not in k, "innermost storage: vectors / Extend"),
        ("ST", "ser_writer", None, "innermost storage: writer"),
        ("UN", "de_crc", None, "undoing the CRC layer"),
        ("UN", "de_entry", lambda k: "cobs" in k or "crc" in k, "undoing COBS / CRC at the decode entry points"),
        ("UN", "ser_entry", lambda k: "cobs" in k or "crc" in k, "stacking COBS / CRC at the encode entry points"),
    ])
    run_.floor("ST", 20)
    run_.floor("UN", 40)
    run_.floor("D", 1)
    run_.floor("M", 14)
    run_.floor("O", 1)
    F = ctx.facts("A")
    pc = F.crate("postcard")
    # C20.M who-may-call: inside the modifiers every call on the inner flavor is try_push / index_mut / finalize
    allowed = ("Flavor>::try_push", "IndexMut>::index_mut", "Index>::index", "Flavor>::finalize", "Flavor>::try_extend")
    for g in ("ser_cobs", "ser_crc"):
        for f in glue.fns_of_group(pc, g):
            if f.impl_trait != "postcard::ser::flavors::Flavor":
                continue
            probs = []
            for l in summ.lines(summ.summarize(F, f)):
                for part in l.split("; "):
                    if "<B as " in part and not any(a in part for a in allowed):
                        probs.append("inner flavor used through %s" % part.strip()[:120])
                if "=> Result::Ok" in l and f.name == "finalize":
                    probs.append("finalize returns without finalizing the inner flavor")
            # generic in B: the impl's self type must keep the parameter
            if "<B" not in (f.impl_self or "") and ", B," not in (f.impl_self or ""):
                probs.append("modifier is specialised to a storage type: %s" % f.impl_self)
            run_.check(not probs, "MX", summ.fn_key(f), probs[0] if probs else "inner flavor reached only via push/index/finalize", f.where(), found=probs)
    run_.floor("MX", 12)
    # C20.U: every serializer method's flavor effects are exactly its table cell (re-run of the C02 table under this property)
    helpers = ctx.helpers("A")
    main = [f for f in pc.fns if f.impl_trait == c02.SER_TRAIT and f.impl_self == c02.SELF_TY and f.dk == "AssocFn"]
    sub = _Sub(run_, "U")
    for f in sorted(main, key=lambda f: f.name):
        c02.check_method(sub, F, helpers, f)
    for tr in c02.COMPOUND:
        for f in sorted([f for f in pc.fns if f.impl_trait == tr and f.impl_self == c02.SELF_TY and f.dk == "AssocFn"], key=lambda f: f.name):
            c02.check_method(sub, F, helpers, f)
    run_.floor("U", 46)
    run_.explanation = (
        "The default Flavor::try_extend, both modifier flavors (all CRC widths), and serialize_with_flavor are summarised from MIR and "
        "compared with their specified summaries; a who-may-call pass over the modifiers' resolved callees shows the inner flavor is only "
        "pushed to, indexed (COBS back-patch) and finalized last, generically in B. The serializer's own use of its flavor is the C02 table.")
    run_.trusted += ["Iterator::try_for_each visits in order and stops at the first Err", "cobs::EncoderState", "crc::Digest"]


class _Sub:
    """adapter: record c02-style method checks under another rule name"""

    def __init__(self, run_, rule):
        self.run_ = run_
        self.rule = rule

    def ok(self, rule, key, detail="", site=None, method=None):
        return self.run_.ok(self.rule if rule in ("T1", "S") else rule, key, detail, site, method)

    def bad(self, rule, key, what, site=None, expected=None, found=None):
        return self.run_.bad(self.rule if rule in ("T1", "S") else rule, key, what, site, expected, found)

    def check(self, cond, rule, key, what, site=None, expected=None, found=None, detail=""):
        if cond:
            return self.ok(rule, key, detail or what, site)
        return self.bad(rule, key, what, site, expected, found)
