"""Instance accounting, evidence files, violation / known-finding reporting."""
import hashlib
import json
import os
import sys
import time

VERIF = os.path.dirname(os.path.dirname(os.path.abspath(__file__)))
KNOWN = os.path.join(VERIF, "known_findings.jsonl")


def load_known():
    out = []
    if os.path.exists(KNOWN):
        for l in open(KNOWN):
            l = l.strip()
            if l and not l.startswith("#"):
                out.append(json.loads(l))
    return out


class Run:
    def __init__(self, pid, tier="quick", seed=0, level="other"):
        self.pid = pid
        self.tier = tier
        self.seed = seed
        self.level = level
        self.t0 = time.time()
        self.instances = []          # dicts: rule,key,verdict,text,site,...
        self.keys = set()
        self.floors = {}             # rule -> minimal instance count
        self.notes = []
        self.assumptions = []
        self.trusted = []
        self.explanation = ""
        self.configs = []
        self.bodies = 0
        self.extra = {}
        self.not_analysed = []

    # -- recording -------------------------------------------------------------------------
    def _add(self, rule, key, verdict, **kw):
        k = "%s/%s/%s" % (self.pid, rule, key)
        n = 1
        base = k
        while k in self.keys:
            n += 1
            k = "%s[%d]" % (base, n)
        self.keys.add(k)
        d = {"rule": rule, "key": k, "verdict": verdict}
        d.update(kw)
        self.instances.append(d)
        return d

    def ok(self, rule, key, detail="", site=None, method=None):
        return self._add(rule, key, "ok", detail=detail, site=site, method=method)

    def bad(self, rule, key, what, site=None, expected=None, found=None):
        return self._add(rule, key, "violation", what=what, site=site, expected=expected, found=found)

    def check(self, cond, rule, key, what, site=None, expected=None, found=None, detail=""):
        if cond:
            return self.ok(rule, key, detail or what, site)
        return self.bad(rule, key, what, site, expected, found)

    def floor(self, rule, n):
        self.floors[rule] = n

    def count(self, rule):
        return sum(1 for i in self.instances if i["rule"] == rule)

    def note(self, s):
        self.notes.append(s)

    # -- finishing -----------------------------------------------------------------------------
    def finish(self, replay_key=None):
        # floors: a rule that matched fewer instances than were confirmed by hand fails closed
        for rule, n in sorted(self.floors.items()):
            c = self.count(rule)
            if c < n:
                self.bad(rule, "FLOOR", "rule %s matched %d instances, fewer than the %d confirmed on the pinned tree "
                                        "(anchor lost / rule would pass vacuously)" % (rule, c, n))
        known = [k for k in load_known() if k.get("property") == self.pid and k.get("status") == "known"]
        viol = [i for i in self.instances if i["verdict"] == "violation"]
        new = []
        known_hit = []
        for v in viol:
            hit = None
            for k in known:
                if k["key"] == v["key"]:
                    hit = k
                    break
            if hit:
                v["verdict"] = "known"
                known_hit.append((v, hit))
            else:
                new.append(v)
        for v, k in known_hit:
            print("KNOWN-FINDING: property=%s %s [%s]" % (self.pid, k.get("what", v.get("what")), v["key"]))
        outdir = os.path.join(VERIF, "out", "violations", self.pid)
        for v in new:
            os.makedirs(outdir, exist_ok=True)
            h = hashlib.sha256(v["key"].encode()).hexdigest()[:16]
            p = os.path.join(outdir, h + ".json")
            with open(p, "w") as f:
                json.dump({"property": self.pid, "instance": _jsonable(v)}, f, indent=1)
            print("VIOLATION property=%s replay=%s" % (self.pid, p))
            print("  rule=%s key=%s" % (v["rule"], v["key"]))
            if v.get("site"):
                print("  site=%s" % v["site"])
            print("  what=%s" % v.get("what"))
            if v.get("expected") is not None:
                print("  expected=%s" % (v["expected"],))
            if v.get("found") is not None:
                print("  found=%s" % (v["found"],))
        self._write_evidence(new, known_hit)
        oks = sum(1 for i in self.instances if i["verdict"] == "ok")
        print("%s %s: %d instances checked, %d ok, %d known finding(s), %d violation(s); %.1fs" % (
            self.pid, self.tier, len(self.instances), oks, len(known_hit), len(new), time.time() - self.t0))
        if replay_key is not None:
            hit = [v for v in new if v["key"] == replay_key]
            print("replay of %s: %s" % (replay_key, "still violated" if hit else "not violated on the current tree"))
            return 1 if hit else 0
        return 1 if new else 0

    def _write_evidence(self, new, known_hit):
        per_rule = {}
        for i in self.instances:
            r = per_rule.setdefault(i["rule"], {"instances": 0, "ok": 0, "violation": 0, "known": 0,
                                                "floor": self.floors.get(i["rule"])})
            r["instances"] += 1
            r[i["verdict"]] += 1
        # samples: a few instances written out (seed selects which)
        insts = [i for i in self.instances]
        samples = []
        if insts:
            step = max(1, len(insts) // 8)
            off = self.seed % step if step > 1 else 0
            for i in insts[off::step][:10]:
                samples.append(_jsonable({k: v for k, v in i.items() if v not in (None, "")}))
        for v in new[:10]:
            samples.append(_jsonable(v))
        obligations = len(self.instances)
        discharged = sum(1 for i in self.instances if i["verdict"] == "ok")
        cov = {
            "explanation": self.explanation,
            "obligations": obligations,
            "discharged": discharged,
            "evaluations": obligations,
            "distinct_nontrivial": len(set(i["key"] for i in self.instances)),
            "rule": "one instance per (rule, anchored program construct); keys are unique by construction; "
                    "an instance is non-trivial because it is an obligation read off /repo's current MIR/HIR",
            "checker_cmd": "./check %s %s" % (self.pid, self.tier),
            "trusted_base": self.trusted,
            "configurations": self.configs,
            "bodies_analysed": self.bodies,
            "per_rule": per_rule,
            "samples": samples,
            "known_findings_hit": [v["key"] for v, _ in known_hit],
            "not_analysed": self.not_analysed,
            "notes": self.notes,
            "exhaustive": False,
        }
        cov.update(self.extra)
        ev = {
            "property_id": self.pid,
            "tier": self.tier,
            "seed": self.seed,
            "level": self.level,
            "coverage": cov,
            "assumptions": self.assumptions,
            "wall_s": round(time.time() - self.t0, 2),
            "violations": len(new),
        }
        d = os.environ.get("PCV_EVIDENCE_DIR") or os.path.join(VERIF, "evidence")
        os.makedirs(d, exist_ok=True)
        tmp = os.path.join(d, self.pid + ".json.tmp")
        with open(tmp, "w") as f:
            json.dump(ev, f, indent=1)
        os.replace(tmp, os.path.join(d, self.pid + ".json"))


def _jsonable(x):
    if isinstance(x, dict):
        return {str(k): _jsonable(v) for k, v in x.items()}
    if isinstance(x, (list, tuple)):
        return [_jsonable(v) for v in x]
    if isinstance(x, (str, int, float, bool)) or x is None:
        return x
    return str(x)
