"""Groups of glue functions whose behaviour is specified as canonical per-path summaries (rules/expect/*.json)."""
import json
import os
import re

import summ
import sym

HERE = os.path.dirname(os.path.abspath(__file__))

GROUPS = {
    "ser_entry": [r"^ser::(to_\w+|serialize_with_flavor|serialized_size)$", r"^ser::flavors::crc::to_\w+$"],
    "ser_slice": [r"^<ser::flavors::Slice<'\w+> as (Flavor|-|Index|IndexMut)>::\w+$"],
    "ser_storage": [r"^<ser::flavors::(ExtendFlavor<T>|heapless_vec::HVec<B>|alloc_vec::AllocVec|Size) as (Flavor|-|Default|Index|IndexMut)>::\w+$"],
    "ser_writer": [r"^<ser::flavors::(io|eio)::WriteFlavor<T> as (Flavor|-)>::\w+$"],
    "ser_default": [r"^ser::flavors::Flavor::try_extend$", r"^ser::flavors::Flavor::try_extend::\{closure#0\}$"],
    "ser_cobs": [r"^<ser::flavors::Cobs<B> as (Flavor|-)>::\w+$"],
    "ser_crc": [r"^<ser::flavors::crc::CrcModifier<'a, B, \w+> as (Flavor|-)>::\w+$"],
    "de_entry": [r"^de::(from_bytes|take_from_bytes|from_io|from_eio|from_bytes_cobs|take_from_bytes_cobs|from_bytes_crc32|take_from_bytes_crc32)$",
                 r"^de::flavors::crc::(take_)?from_bytes_u\d+$"],
    "de_core": [r"^<de::deserializer::Deserializer<'de, (F|de::flavors::Slice<'de>)> as ->::(from_flavor|from_bytes|finalize|try_take_varint_usize)$"],
    "de_slice": [r"^<de::flavors::Slice<'de> as (Flavor|-)>::\w+$"],
    "de_sliding": [r"^<de::flavors::io::SlidingBuffer<'de> as ->::\w+$"],
    "de_reader": [r"^<de::flavors::io::(io::IOReader|eio::EIOReader)<'de, T> as (Flavor|-)>::\w+$"],
    "de_crc": [r"^<de::flavors::crc::CrcModifier<'de, B, \w+> as (Flavor|-)>::\w+$"],
    "acc": [r"^<accumulator::CobsAccumulator<N> as (-|Default)>::\w+$"],
    "fixint": [r"^fixint::(le|be)::(serialize|deserialize)$", r"^<fixint::(LE|BE)<\w+> as \w+>::\w+$",
               r"^<fixint::(LE|BE)<\w+> as .*Deserialize<'de>>::deserialize$"],
}


def group_of(key):
    for g, pats in GROUPS.items():
        for p in pats:
            if re.match(p, key):
                return g
    # the patterns spell the lifetime parameters of the reviewed impl headers (`CrcModifier<'a, B, u8>`); an impl header that elides or
    # renames them (`CrcModifier<'_, B, u8>`) is the same impl
    if "'" in key:
        for lt in ("'a", "'de"):
            k2 = re.sub(r"'\w+", lt, key)
            if k2 != key:
                for g, pats in GROUPS.items():
                    for p in pats:
                        if re.match(p, k2):
                            return g
    return None


def short_key(k):
    """key with the module paths of its types dropped: `<ser::flavors::Cobs<B> as ->::try_new` -> `<Cobs<B> as ->::try_new`"""
    return re.sub(r"'\w+", "'_", re.sub(r"\b(?:[a-z_][a-z0-9_]*::)+(?=[A-Z<&\[(])", "", k))


def specified(f):
    """functions whose behaviour is specified one by one: the public API and trait methods.  Private helpers are inlined into them."""
    if "{closure" in f.canon:
        return False
    if f.impl_trait is not None and f.j.get("impl_trait_reachable") is False:
        return False          # methods of a crate-private extension trait are private helpers
    return f.impl_trait is not None or (f.j.get("vis") == "Public")


def load2(config="A"):
    p = os.path.join(HERE, "expect2", "postcard_%s.json" % config)
    return json.load(open(p))


def load(config="A"):
    p = os.path.join(HERE, "expect", "postcard_%s.json" % config)
    return json.load(open(p))


def fns_of_group(crate, group):
    out = []
    for f in crate.fns:
        if group_of(summ.fn_key(f)) == group:
            out.append(f)
    return out


# struct invariants (established by the constructors, preserved by every writer: rules C03.R1 / C05.G / C11.BX / C08.O check that) used as
# hypotheses when two conditions are compared: `cursor != end` and `cursor < end` are the same test under cursor <= end
INVARIANTS = [
    (r"^de::flavors::Slice<", [({"self.end": 1, "self.cursor": -1}, 0)]),
    (r"^ser::flavors::Slice<", [({"self.end": 1, "self.cursor": -1}, 0), ({"self.cursor": 1, "self.start": -1}, 0)]),
    (r"^de::flavors::io::", [({"self.buff.end": 1, "self.buff.cursor": -1}, 0), ({"self.end": 1, "self.cursor": -1}, 0)]),
    (r"^accumulator::CobsAccumulator<", [({"const<N>": 1, "self.idx": -1}, 0)]),
]


def invariants_for(f):
    out = []
    for pat, hs in INVARIANTS:
        if re.match(pat, f.impl_self or ""):
            out += hs
    return out


def check_group2(run, rule, F, crate, group, expect, only=None, what=None):
    """every specified function of the group (public API and trait methods; private helpers are inlined into them) must be equivalent
    to its specified semantic summary; a specified function that disappeared fails closed"""
    import summ2
    # (a function with a specification stays specified when its visibility is narrowed, e.g. `pub` -> `pub(crate)` after a move)
    fns = {summ.fn_key(f): f for f in fns_of_group(crate, group) if specified(f) or summ.fn_key(f) in expect.get(group, {})}
    ren = renames(F, crate, expect)
    n = 0
    served = set()        # generic impls judged through the specified instances they serve
    for key, want in sorted(expect.get(group, {}).items()):
        if only and not only(key):
            continue
        f = fns.get(key)
        if f is None and key.startswith("<"):
            # the implementing type may have moved to another (private) module behind a re-export: same type name, trait and method
            cands = [g for g in crate.fns if specified(g) and short_key(summ.fn_key(g)) == short_key(key) and summ.fn_key(g) not in expect.get(group, {})]
            if len(cands) == 1:
                f = cands[0]
                served.add(summ.fn_key(f))
                run.note("%s is now %s (type moved between modules / lifetime names changed)" % (key, summ.fn_key(f)))
        subst = None
        if f is None and key.startswith("<"):
            f, subst = generic_instance(crate, key, expect.get(group, {}))
            if f is not None:
                served.add(summ.fn_key(f))
                run.note("%s is %s at %s" % (key, summ.fn_key(f), subst))
        if f is None:
            m = re.match(r"^<([\w:]+)(<.*>)? as ->::(\w+)$", key)
            priv = [a for a in crate.adts.values() if m and a.get("def") == m.group(1) and a.get("reachable") is False]
            if priv:
                # an inherent method of a type that code outside the crate cannot name is an implementation detail: renamed, merged or inlined,
                # what it did is part of the summaries of the specified functions that used it (they inline it)
                run.ok(rule, key, "helper method of the crate-private type %s is gone (renamed or inlined); judged through its callers" % m.group(1))
                n += 1
                continue
            run.bad(rule, key, "specified function not found in the analysed crate (public API or trait method renamed or removed?)")
            continue
        summ2.check(run, rule, f, want, F, what=what, renames=ren, hyps=invariants_for(f), key=key, root_subst=subst)
        n += 1
    for key, f in sorted(fns.items()):
        if only and not only(key):
            continue
        if key not in expect.get(group, {}):
            if key in served:
                continue
            if f.impl_trait is None or f.j.get("impl_trait_reachable") is False:
                # (an impl of a crate-private extension trait cannot be called from outside; where specified functions use it, it is inlined)
                run.note("unspecified new public function in group %s (not judged): %s" % (group, key))
            else:
                # an override of a *provided* method that does exactly what the provided method does (written out for this type) changes nothing
                pk = "%s::%s" % ((f.impl_trait or "").split("::", 1)[-1], f.name)
                dflt = [g[pk] for g in expect.values() if isinstance(g, dict) and pk in g and isinstance(g[pk], dict) and "outcomes" in g[pk]]
                same = False
                if len(dflt) == 1:
                    try:
                        same = not summ2.equals_provided(F, f, dflt[0], renames=ren, hyps=invariants_for(f))
                    except Exception:
                        same = False
                if same:
                    run.ok(rule, key, "override of the provided method %s with the provided method's behaviour" % pk, f.where(), method="semantic summary")
                    n += 1
                    continue
                run.bad(rule, key, "trait method of group %s has no specified summary (new override touching the mechanism)" % group, f.where())
    return n


def generic_instance(crate, key, taken=()):
    """one generic impl may have replaced a family of per-type impls (`impl<T: Sealed> Tr for W<T>` instead of a macro): the specified
    instance `<W<i32> as Tr>::m` is that impl's method at the instance's type arguments -> (fn, {param: type}) or (None, None)"""
    m = re.match(r"^<(.*) as ([\w:<>', ]+)>::(\w+)$", key)
    if not m:
        return None, None
    ty, tr, meth = m.groups()
    cands = []
    for g in crate.fns:
        gens = set(getattr(g, "generics", None) or [])
        if g.name != meth or not g.impl_self or not gens or not specified(g) or (g.impl_trait or "-").split("::")[-1] != tr.split("<")[0]:
            continue
        b = {}
        if sym.unify_ty(g.impl_self, ty, gens, b) and b and summ.fn_key(g) not in taken:
            cands.append((g, b))
    if len(cands) == 1:
        return cands[0]
    return None, None


_REN = {}


def renames(F, crate, expect):
    """private struct fields renamed since the specification was written: {new name: specified name}, found as the bijection between
    the names that disappeared and the names that appeared in the same struct (only when the field count is unchanged)"""
    k = id(crate)
    if k in _REN:
        return _REN[k]
    out = {}
    spec = expect.get("__fields__", {})
    for name, adt in crate.adts.items():
        if name not in spec:
            continue
        cur = [fl["name"] for v in adt.get("variants", []) for fl in v.get("fields", [])]
        old = spec[name]
        if len(cur) != len(old) or cur == old:
            continue
        gone = [x for x in old if x not in cur]
        new = [x for x in cur if x not in old]
        if len(gone) != len(new) or not gone:
            continue
        # same position first (a rename in place), which is the only candidate when fields were not also reordered
        cand = {}
        for n_ in new:
            i = cur.index(n_)
            if i < len(old) and old[i] in gone:
                cand[n_] = old[i]
        if len(cand) == len(new) and len(set(cand.values())) == len(new):
            out.update(cand)
        elif len(new) == 1:
            out[new[0]] = gone[0]
    _REN[k] = out
    return out


def check_group(run, rule, F, crate, group, expect, floor=None, only=None, what=None):
    """every function of the group must match its specified summary; missing functions fail closed"""
    fns = {summ.fn_key(f): f for f in fns_of_group(crate, group)}
    n = 0
    for key, want in sorted(expect.get(group, {}).items()):
        if only and not only(key):
            continue
        f = fns.get(key)
        if f is None:
            run.bad(rule, key, "specified glue function not found in the analysed crate (renamed or removed?)")
            continue
        summ.check(run, rule, f, want, F, what=what)
        n += 1
    for key, f in sorted(fns.items()):
        if only and not only(key):
            continue
        if key not in expect.get(group, {}):
            if f.impl_trait is None and "{closure" not in key:
                # a new inherent / free function cannot change what the specified functions do (if one of them calls it, that
                # function's own summary shows the call); it is recorded, not reported
                run.note("unspecified new function in group %s (not a trait method; not judged): %s" % (group, key))
            else:
                run.bad(rule, key, "trait method of group %s has no specified summary (new override touching the mechanism)" % group, f.where())
    return n
