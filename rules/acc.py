"""Shared analysis of CobsAccumulator (C08, C09): exhaustive path rules over feed_ref (it has no loop) with LIN.

State invariant Inv:  idx <= N  and buf[..idx] = bytes of the current segment received so far.
"""
import lin
import grd
import summ
import sym
import tbl
from sym import C
from tbl import norm

ISIZE_MAX = (1 << 63) - 1


class Acc:
    def __init__(self, F):
        self.F = F
        pc = F.crate("postcard")
        self.pc = pc
        fs = {f.name: f for f in pc.fns if (f.impl_self or "") == "accumulator::CobsAccumulator<N>" and f.impl_trait is None}
        self.fns = fs
        self.feed_ref = fs.get("feed_ref")
        self.extend = fs.get("extend_unchecked")
        self.feed = fs.get("feed")
        self.new = fs.get("new")
        if not (self.feed_ref and self.extend and self.feed and self.new):
            import facts
            raise facts.AnchorError("CobsAccumulator::{new,feed,feed_ref,extend_unchecked} not all found")
        f = self.feed_ref
        self.self_ = ("param", 1, f.locals[1]["ty"])
        self.input = ("param", 2, f.locals[2]["ty"])
        self.idx_loc = ("F", ("P", self.self_), "idx")
        self.buf_loc = ("F", ("P", self.self_), "buf")
        self.idx0 = ("init", self.idx_loc)
        self.N = None
        eng = sym.Engine(F, max_visits=2)
        self.paths = [p for p in eng.run(f) if p.status != "infeasible"]
        for p in self.paths:
            for t in sym.subterms(tuple(c for c, _, _ in p.pc)):
                if t and t[0] == "tyconst" and isinstance(t[1], str) and t[1].startswith("N"):
                    self.N = t
        self.len_in = ("len", self.input)

    # -- facts --------------------------------------------------------------------------------
    def base_facts(self, p):
        """Inv + contracts of std calls made on this path"""
        facts = []
        if self.N is not None:
            facts.append(lin.ge(self.N, self.idx0))                    # Inv: idx <= N
            facts.append(lin.ge(C(ISIZE_MAX, "usize"), self.N))        # arrays are at most isize::MAX bytes
        facts.append(lin.ge(C(ISIZE_MAX, "usize"), self.len_in))       # slices are at most isize::MAX bytes
        for e in tbl.residual_calls(p):
            if e["key"] == "core::iter::traits::iterator::Iterator::position":
                n = ("someval", e["result"])
                facts.append(lin.gt(self.len_in, n))                   # contract: position() returns an index < len
            if e["key"].endswith("<impl [T]>::split_at"):
                r = e["result"]
                mid = e["args"][1]
                facts += [lin.ge(("len", ("getf", r, "0")), mid), lin.ge(mid, ("len", ("getf", r, "0")))]
                tot = ("bin", "Add", ("len", ("getf", r, "0")), ("len", ("getf", r, "1")), "usize")
                facts += [lin.ge(tot, self.len_in), lin.ge(self.len_in, tot)]
        return facts

    def prove(self, p, goal, extra=()):
        pcn = [(self._n(c), t, k) for c, t, k in p.pc]
        return grd.prove(pcn, [self._nf(x) for x in (self.base_facts(p) + list(extra))], self._nf(goal))

    def _n(self, t):
        return norm(t)

    def _nf(self, ineq):
        return lin.Ineq({lin.atom_of(norm(a)) if isinstance(a, tuple) else a: v for a, v in ineq.co.items()}, ineq.c)

    # -- classification of paths --------------------------------------------------------------------
    def variant(self, p):
        r = p.ret
        if r and r[0] == "agg" and r[1] == "adt" and r[2].endswith("FeedResult"):
            return r[3]
        return None

    def zero_found(self, p):
        for e in tbl.residual_calls(p):
            if e["key"] == "core::iter::traits::iterator::Iterator::position":
                return p.tagfacts.get(("tag", e["result"])) == 1
        return None

    def final_idx(self, p):
        eng = sym.Engine(self.F)
        return eng.read(sym._store_state(p.store), self.idx_loc)

    def calls(self, p, suffix):
        return [e for e in tbl.residual_calls(p) if e["key"].endswith(suffix)]


def check_position_closure(F, fn_feed_ref):
    """C08.A: the split point is the first zero byte: position(|&b| b == 0)"""
    cl = [f for f in F.crate("postcard").fns if f.canon.startswith(fn_feed_ref.canon + "::{closure")]
    if len(cl) != 1:
        return "expected one closure in feed_ref (the zero test), found %d" % len(cl)
    ls = summ.lines(summ.summarize(F, cl[0]))
    if ls not in (["if always: - => Eq(*arg2, 0)"], ["if always: - => Eq(0, *arg2)"]):
        return "frame boundary predicate is %s, expected `byte == 0`" % ls
    return None
