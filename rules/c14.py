"""C14 — a type's Schema describes exactly what its Serialize writes.

C14.B  built-ins: the SCHEMA constant tree (HIR, resolved through the type checker) of every `impl Schema for X` in postcard-schema
       must equal the data-model shape of X's Serialize impl, from a table transcribed from serde's documented impls and
       spec/src/serde-data-model.md (i16->I16, NonZero<u32>->U32, [T;N]->Tuple[T;N], [T]/Vec/sets->Seq(T), maps->Map{K,V},
       str/String/PathBuf->String, Result->Enum{Ok(Newtype T),Err(Newtype E)} in that order, Range->Struct{start,end},
       uuid->ByteArray (non-human-readable), chrono::DateTime->String (collect_str), ...). An impl without a table row fails closed.
C14.D  derive: for every type of a corpus crate (harness/corpus, analysed by the same driver) the serde-derived Serialize body gives,
       per enum arm / struct, the Serializer call kind, variant index, names, arity and field value types; the Schema derive's SCHEMA
       tree gives kinds, names, order and `<FieldTy as Schema>::SCHEMA` references. They must agree item by item. The corpus covers
       every arm of the derive generator (unit / newtype / tuple / named, structs and variants, generics, lifetimes, nesting,
       #[postcard(crate=..)], #[postcard(bound=..)]), with non-alphabetical field orders.
"""
import json
import os
import re
import shutil
import subprocess

import facts
import hirtree
from hirtree import schema_term
import c15
import sym

LEVEL = "other"
MANIFEST = {
    "text": "Static comparison of both sides read from the same compiled program: built-in SCHEMA constant trees against a table of serde's data-model "
            "mapping for every implementing type (fail closed on unknown impls), and for derived types the schema tree emitted by the derive against the "
            "Serializer call tree emitted by serde_derive, arm by arm (kinds, names, order, indices, arity, field types). The call tree of a type is "
            "value-independent except for the enum arm, and all arms are read, so conformance holds for every value of every listed type.",
    "note": "Trusted: serde's own Serialize impls for std/heapless/uuid/chrono/nalgebra types match their documentation (foreign MIR is not in crate metadata under "
            "cargo check, so the table is the oracle); derive inputs outside the corpus shapes are covered by generator-arm coverage only; serde attributes that "
            "change representation are out of scope of the statement. nalgebra's schema is the flattened R*C tuple of a nested [[T;R];C]: wire-identical, recorded as a note.",
    "technique": "static analysis: HIR constant-tree extraction + oracle table agreement + sibling agreement of two derive outputs on a corpus crate",
}

R = lambda t: ("Ref", t)
K = lambda v: ("K", v)


def range_struct(fields):
    return ("Struct", None, ("DStruct", [(f, R("T")) for f in fields]))


ORACLE = {
    "bool": K("Bool"), "u8": K("U8"), "i8": K("I8"), "char": K("Char"), "f32": K("F32"), "f64": K("F64"), "str": K("String"), "()": K("Unit"),
    "i16": K("I16"), "i32": K("I32"), "i64": K("I64"), "i128": K("I128"), "u16": K("U16"), "u32": K("U32"), "u64": K("U64"), "u128": K("U128"),
    "std::string::String": K("String"), "std::path::PathBuf": K("String"), "alloc::string::String": K("String"),
    "std::option::Option<T>": ("Option", R("T")),
    "std::result::Result<T, E>": ("Enum", None, [("Ok", ("DNewtype", R("T"))), ("Err", ("DNewtype", R("E")))]),
    "&T": R("T"),
    "[T]": ("Seq", R("T")), "std::vec::Vec<T>": ("Seq", R("T")), "alloc::vec::Vec<T>": ("Seq", R("T")),
    "std::collections::HashSet<K>": ("Seq", R("K")), "std::collections::BTreeSet<K>": ("Seq", R("K")), "alloc::collections::BTreeSet<K>": ("Seq", R("K")),
    "std::collections::HashMap<K, V>": ("Map", R("K"), R("V")), "std::collections::BTreeMap<K, V>": ("Map", R("K"), R("V")),
    "alloc::collections::BTreeMap<K, V>": ("Map", R("K"), R("V")),
    "[T; N]": ("TupleRep", R("T"), "N"),
    "std::ops::Range<T>": range_struct(["start", "end"]), "std::ops::RangeInclusive<T>": range_struct(["start", "end"]),
    "std::ops::RangeFrom<T>": range_struct(["start"]), "std::ops::RangeTo<T>": range_struct(["end"]),
    "heapless::Vec<T, N>": ("Seq", R("T")), "heapless::String<N>": K("String"),
    "uuid::Uuid": K("ByteArray"),
    "chrono::DateTime<Tz>": K("String"),
    "nalgebra::Matrix<T, nalgebra::Const<R>, nalgebra::Const<C>, nalgebra::ArrayStorage<T, R, C>>": ("Flatten", (R("T"), ("C", "R"))),
    "key::Key": ("Struct", None, ("DNewtype", R("[u8; 8]"))),
    "schema::DataModelType": K("Schema"), "schema::owned::OwnedDataModelType": K("Schema"),
}
for _w in ("i8", "i16", "i32", "i64", "i128", "u8", "u16", "u32", "u64", "u128"):
    ORACLE["std::num::NonZero<%s>" % _w] = K(_w.upper())
for _n, _ps in ((1, "A"), (2, "AB"), (3, "ABC"), (4, "ABCD"), (5, "ABCDE"), (6, "ABCDEF")):
    ORACLE["(%s)" % (", ".join(_ps) + ("," if _n == 1 else ""))] = ("Tuple", [R(p) for p in _ps])


def drop_type_names(t):
    """type names of structs/enums are not part of the conformance relation (only field/variant names are)"""
    if isinstance(t, tuple) and t and t[0] in ("Struct", "Enum"):
        return (t[0], None) + tuple(drop_type_names(x) for x in t[2:])
    if isinstance(t, (tuple, list)):
        return type(t)(drop_type_names(x) for x in t)
    return t


def norm_self(s):
    s = re.sub(r"heapless_v0_[78]::", "heapless::", s or "")
    s = s.replace("chrono_v0_4::", "chrono::").replace("uuid_v1_0::", "uuid::").replace("nalgebra_v0_33::", "nalgebra::")
    s = re.sub(r"heapless::vec::Vec<", "heapless::Vec<", s)
    s = re.sub(r"heapless::string::String<", "heapless::String<", s)
    s = re.sub(r"&'\w+ ", "&", s)
    # one name per std item whichever facade the configuration names it through (`core::num::NonZero` without std, `std::num::NonZero` with)
    s = re.sub(r"(?<![\w:])(?:\w+::)+alloc::(?=(string|vec|collections|boxed|borrow)::)", "alloc::", s)    # `extern crate alloc` inside a module
    s = re.sub(r"(?<![\w:])(core|alloc)::(?=(num|option|result|ops|string|vec|collections|path|boxed|borrow|cell|marker|time|net|ffi)::)", "std::", s)
    return s


def alpha_map(st):
    """generic parameters of an impl's self type (identifiers that are not part of a path and not primitives), in order of first occurrence,
    mapped to positional names: the impl for (A, B) and the impl for (B, C) are the same impl"""
    out = {}
    for m in re.finditer(r"(?<![:\w])([A-Z][A-Za-z0-9_]*)(?![:\w])", st or ""):
        nm = m.group(1)
        if nm not in out and nm not in ("Self",):
            out[nm] = "P%d" % len(out)
    return out


def alpha_str(s, mp):
    if not mp or not isinstance(s, str):
        return s
    return re.sub(r"(?<![:\w])([A-Z][A-Za-z0-9_]*)(?![:\w])", lambda m: mp.get(m.group(1), m.group(1)), s)


def alpha_term(t, mp):
    if isinstance(t, str):
        return alpha_str(t, mp)
    if isinstance(t, tuple):
        return tuple(alpha_term(x, mp) for x in t)
    if isinstance(t, list):
        return [alpha_term(x, mp) for x in t]
    return t


_ORACLE_ALPHA = {}


def oracle_lookup(st):
    if not _ORACLE_ALPHA:
        for k, v in ORACLE.items():
            mp = alpha_map(k)
            _ORACLE_ALPHA[alpha_str(k, mp)] = alpha_term(v, mp)
    mp = alpha_map(st)
    return _ORACLE_ALPHA.get(alpha_str(st, mp)), mp


def check_builtins(run_, F, config, rule="B"):
    sc = F.crate("postcard_schema")
    n = 0
    for c in sc.consts:
        if c["name"] != "SCHEMA" or not (c.get("impl_trait") or "").endswith("::Schema"):
            continue
        if "/tests/" in (c.get("file") or ""):
            continue
        st = norm_self(c.get("impl_self"))
        key = "%s%s" % (st, "" if config == "A" else " [%s]" % config)
        site = "%s:%s" % (c.get("file"), c.get("line"))
        want, mp = oracle_lookup(st)
        got = alpha_term(drop_type_names(schema_term(c["hir"], F)), mp)
        if isinstance(got, tuple) and got and got[0] == "Ref":
            # `const SCHEMA = <Other as Schema>::SCHEMA`: this impl *is* the other one's tree (that impl is judged against its own row);
            # expressed in this impl's parameters it is the other type's oracle row
            other = norm_self(got[1])
            inv = {v: k for k, v in mp.items()}
            ow, omp = oracle_lookup(alpha_str(other, inv))
            if ow is not None:
                back = {v: k for k, v in omp.items()}                 # the row's positional names -> the parameters as the other type spells them
                got = alpha_term(alpha_term(ow, back), mp)
        n += 1
        if want is None:
            run_.bad(rule, key, "impl Schema for %s has no row in the data-model oracle table (new impl: add its serde shape)" % st, site, found=repr(got))
            continue
        want = drop_type_names(want)
        run_.check(got == want, rule, key, "SCHEMA of %s does not describe what its Serialize writes" % st, site, expected=repr(want), found=repr(got),
                   detail="SCHEMA = %s" % show(got))
    return n


def show(t):
    if not isinstance(t, tuple):
        return repr(t)
    k = t[0]
    if k == "K":
        return t[1]
    if k == "Ref":
        return "<%s>" % t[1]
    if k in ("Option", "Seq"):
        return "%s(%s)" % (k, show(t[1]))
    if k == "Tuple":
        return "Tuple[%s]" % ", ".join(show(x) for x in t[1])
    if k == "TupleRep":
        return "Tuple[%s; %s]" % (show(t[1]), t[2])
    if k == "Map":
        return "Map{%s, %s}" % (show(t[1]), show(t[2]))
    if k == "Struct":
        return "Struct %s" % show(t[2])
    if k == "Enum":
        return "Enum{%s}" % ", ".join("%s%s" % (n, show(d)) for n, d in t[2])
    if k == "DUnit":
        return ""
    if k == "DNewtype":
        return "(%s)" % show(t[1])
    if k == "DTuple":
        return "(%s)" % ", ".join(show(x) for x in t[1])
    if k == "DStruct":
        return "{%s}" % ", ".join("%s: %s" % (n, show(x)) for n, x in t[1])
    return repr(t)


# ---- corpus ------------------------------------------------------------------------------------------------------

def corpus_facts(root=None):
    """extract facts of harness/corpus with the driver (its own cargo invocation: the wrapper only applies to workspace members)"""
    facts.ensure_driver()
    with facts.locked("corpus"):
        return _corpus_facts(root or facts.REPO)


def _corpus_facts(root):
    src = os.path.join(facts.VERIF, "harness", "corpus")
    work = os.path.join(facts.CACHE, "corpus")
    os.makedirs(os.path.join(work, "src"), exist_ok=True)
    open(os.path.join(work, "Cargo.toml"), "w").write(open(os.path.join(src, "Cargo.toml.in")).read().replace("@REPO@", root))
    for fn in os.listdir(os.path.join(src, "src")):
        shutil.copy(os.path.join(src, "src", fn), os.path.join(work, "src", fn))
    lock = os.path.join(root, "Cargo.lock")
    if os.path.exists(lock):
        shutil.copy(lock, os.path.join(work, "Cargo.lock"))
    out = os.path.join(facts.CACHE, "corpus-facts")
    shutil.rmtree(out, ignore_errors=True)
    os.makedirs(out)
    tgt = facts.bounded_target(os.path.join(facts.CACHE, "tgt-corpus"))
    import glob
    for fp in glob.glob(os.path.join(tgt, "debug", ".fingerprint", "pcv-corpus*")) + glob.glob(os.path.join(tgt, "debug", ".fingerprint", "pcv_corpus*")):
        shutil.rmtree(fp, ignore_errors=True)
    env = dict(os.environ)
    env.update({"LD_LIBRARY_PATH": facts._sysroot() + "/lib", "RUSTFLAGS": "-Zmir-opt-level=0 -Awarnings",
                "RUSTC_WORKSPACE_WRAPPER": facts.DRIVER, "PCFACTS_OUT": out, "CARGO_TARGET_DIR": tgt, "CARGO_NET_OFFLINE": "true"})
    r = subprocess.run(["cargo", "+nightly", "check", "--offline"], cwd=work, env=env, stdout=subprocess.PIPE, stderr=subprocess.STDOUT, text=True)
    if r.returncode != 0:
        return None, r.stdout[-3000:]
    fs = [p for p in os.listdir(out) if p.startswith("pcv_corpus")]
    if not fs:
        return None, "no facts written for the corpus crate"
    return facts.Crate(json.load(open(os.path.join(out, fs[0])))), None


SER_KIND = {"serialize_unit_struct": "DUnit", "serialize_newtype_struct": "DNewtype", "serialize_tuple_struct": "DTuple", "serialize_struct": "DStruct",
            "serialize_unit_variant": "DUnit", "serialize_newtype_variant": "DNewtype", "serialize_tuple_variant": "DTuple", "serialize_struct_variant": "DStruct"}


def norm_field_ty(t):
    t = re.sub(r"&'\w+ ", "&", t or "")
    return t.replace("&", "").strip()


def data_of_schema(d):
    """-> (kind, [(name or None, self_ty of the SCHEMA reference)])"""
    k = d[0]
    if k == "DUnit":
        return "DUnit", []
    if k == "DNewtype":
        return "DNewtype", [(None, ref_ty(d[1]))]
    if k == "DTuple":
        return "DTuple", [(None, ref_ty(x)) for x in d[1]]
    if k == "DStruct":
        return "DStruct", [(n, ref_ty(x)) for n, x in d[1]]
    return "?", []


def ref_ty(t):
    return norm_field_ty(t[1]) if t[0] == "Ref" else repr(t)


def check_corpus(run_, ctx, rule="D"):
    F = ctx.facts("A")
    cr, err = corpus_facts(ctx.root)
    if cr is None:
        run_.bad(rule, "corpus", "the derive corpus does not build against the current tree: %s" % err)
        return 0

    class _F:   # minimal facts view for the engine (closures etc. are looked up in the corpus crate)
        def fn_by_canon(self, canon):
            return cr.by_canon.get(canon) or F.fn_by_canon(canon)

        def impl_methods(self, trait, name):
            return F.impl_methods(trait, name)
    FF = _F()
    return compare_pairs(run_, rule, cr, FF)


def compare_pairs(run_, rule, cr, FF, only_tree_shaped=False):
    """every type of crate `cr` that has both a Schema constant and a Serialize impl in that crate: the schema tree must be the
    Serializer call tree (kinds, variant indices and names, field names/order, field types)"""
    schemas = {}
    for c in cr.consts:
        if c["name"] == "SCHEMA" and (c.get("impl_trait") or "").endswith("::Schema"):
            schemas[c.get("impl_self")] = c
    sers = {f.impl_self: f for f in cr.fns if f.name == "serialize" and f.impl_trait == "serde_core::ser::Serialize"}
    n = 0
    for st in sorted(set(schemas) | set(sers)):
        base = re.sub(r"<.*$", "", st)
        key = base
        if st not in schemas or st not in sers:
            if st in schemas and not only_tree_shaped:
                run_.bad(rule, key, "corpus type has a Schema but no Serialize impl in the analysed crate")
            continue
        n += 1
        c = schemas[st]
        site = "%s:%s" % (c.get("file"), c.get("line"))
        sch = schema_term(c["hir"])
        if only_tree_shaped and sch[0] not in ("Struct", "Enum"):
            continue        # a leaf kind (e.g. the schema-of-schema node): judged against the oracle table by rule B
        arms = c15.ser_arms(FF, sers[st])
        probs = []
        if sch[0] == "Struct":
            a = arms.get(None)
            if a is None:
                probs.append("Serialize is not a struct form but the schema says Struct")
            else:
                probs += cmp_data(a, sch[2], "struct")
        elif sch[0] == "Enum":
            vs = sch[2]
            idxs = sorted(k for k in arms if k is not None)
            if idxs != list(range(len(vs))):
                probs.append("Serialize has variant indices %s, schema lists %d variants" % (idxs, len(vs)))
            for i, (vn, d) in enumerate(vs):
                a = arms.get(i)
                if a is None:
                    continue
                if a[2] != vn:
                    probs.append("variant #%d is serialized as %r but the schema names it %r" % (i, a[2], vn))
                probs += cmp_data(a, d, "variant %s" % vn)
        else:
            probs.append("derived schema is neither Struct nor Enum: %r" % (sch,))
        run_.check(not probs, rule, key, probs[0] if probs else "schema tree = Serializer call tree (%s)" % show(drop_type_names(sch))[:100], site, found=probs[:4])
    return n


def cmp_data(arm, d, what):
    method, tname, vname, fields = arm
    kind, sf = data_of_schema(d)
    probs = []
    want_kind = SER_KIND.get(method)
    if want_kind != kind:
        probs.append("%s: serde emits %s but the schema says %s" % (what, method, kind))
        return probs
    if kind in ("DTuple", "DStruct", "DNewtype"):
        if len(fields) != len(sf):
            probs.append("%s: %d field(s) serialized, schema lists %d" % (what, len(fields), len(sf)))
            return probs
        for i, ((fn_, fty), (sn, sty)) in enumerate(zip(fields, sf)):
            if kind == "DStruct" and fn_ != sn:
                probs.append("%s: field #%d is serialized as %r but the schema lists %r (order/name slip)" % (what, i, fn_, sn))
            if norm_field_ty(fty) != sty:
                probs.append("%s: field #%d has type %s but the schema references <%s as Schema>" % (what, i, norm_field_ty(fty), sty))
    return probs


def run(run_, ctx):
    F = ctx.facts("A")
    run_.configs.append("A")
    run_.bodies += len(F.crate("postcard_schema").fns)
    check_builtins(run_, F, "A")
    run_.floor("B", 58)
    if ctx.tier == "thorough":
        try:
            FC = ctx.facts("C")
            run_.configs.append("C")
            check_builtins(run_, FC, "C")
        except Exception as e:
            run_.note("configuration C (alloc without std) not analysed: %s" % e)
    n = check_corpus(run_, ctx)
    run_.floor("D", 34)
    # the crate's own types that are both serialized (serde derive) and described by a hand-written or derived Schema (e.g. `Key`)
    nl = compare_pairs(run_, "L", F.crate("postcard_schema"), F, only_tree_shaped=True)
    run_.floor("L", 1)
    run_.explanation = (
        "Every `impl Schema` constant of postcard-schema (58 in the std configuration) is read as a resolved HIR tree and compared with the oracle row for its self type; "
        "unknown impls fail closed. A corpus crate of derived types is compiled against /repo's derive and analysed by the same driver: per type the serde_derive-generated "
        "Serialize body (MIR: call kind, index, names, field value types per arm) is compared with the postcard Schema derive's constant tree (HIR); "
        "the same comparison is made for the types of postcard-schema itself that are both serialized and described by a Schema (Key).")
    run_.trusted += ["serde's Serialize impls for std/heapless/uuid/chrono/nalgebra as documented", "serde_derive"]
    run_.not_analysed += ["builtins_alloc.rs is only compiled without use-std (configuration C, thorough tier)"]
