"""Declarative constant trees (HIR of associated-const initialisers) -> small normal forms.

schema_term(h): the DataModelType tree a `SCHEMA` constant denotes, with `<X as Schema>::SCHEMA` references kept symbolic:
    ('K', 'U8') | ('Option', t) | ('Seq', t) | ('Tuple', [t..]) | ('TupleRep', t, len) | ('Map', k, v)
    | ('Struct', name, data) | ('Enum', name, [(vname, data)..]) | ('Ref', self_ty) | ('Flatten', t, dims) | ('?', why)
    data: ('DUnit',) | ('DNewtype', t) | ('DTuple', [t..]) | ('DStruct', [(fname, t)..])
size_poly(h): POSTCARD_MAX_SIZE initialiser -> polynomial {monomial(tuple of atoms): coef} over atoms
    ('sz', self_ty) for `<X as MaxSize>::POSTCARD_MAX_SIZE`, ('N', name) const params, ('max', polyA, polyB), ('call', fn, args)
"""
LEAVES = {"Bool", "I8", "U8", "I16", "I32", "I64", "I128", "U16", "U32", "U64", "U128", "Usize", "Isize", "F32", "F64", "Char",
          "String", "ByteArray", "Unit", "Schema"}


CTX = {"F": None}      # facts of the tree under analysis (set by the caller): lets constant trees see through local consts and const fns


def _local_const(h):
    """HIR initialiser of a local (associated) constant that a path names, when it is not one of the two trait constants themselves"""
    F = CTX.get("F")
    if F is None or h.get("k") != "path":
        return None
    rk = h.get("rk", "")
    nm = h.get("name") or last(h.get("def"))
    if not (rk.startswith("AssocConst") or rk.startswith("Const")) or nm in ("SCHEMA", "POSTCARD_MAX_SIZE"):
        return None
    cands = []
    for cr in F.crates.values():
        for c in getattr(cr, "consts", []):
            if c.get("name") == nm and c.get("hir") and (c.get("def") == h.get("def") or rk.startswith("AssocConst")):
                cands.append(c)
    exact = [c for c in cands if c.get("def") == h.get("def")]
    pick = exact or cands
    if len(pick) == 1:
        return pick[0]["hir"]
    return None


def strip(h, depth=0):
    while isinstance(h, dict) and h.get("k") in ("addrof", "cast") or (isinstance(h, dict) and h.get("k") == "block" and not h.get("stmts") and h.get("e")):
        h = h["e"]
    if isinstance(h, dict) and h.get("k") == "path" and depth < 6:
        c = _local_const(h)
        if c is not None:
            return strip(_subst_self(c, h.get("self_ty")), depth + 1)
    return h


def _subst_self(tree, self_ty):
    """`Self` inside the initialiser of a trait's associated constant is the type the constant was named through"""
    if not self_ty or self_ty == "Self":
        return tree
    if isinstance(tree, dict):
        return {k: (self_ty if k == "self_ty" and v == "Self" else _subst_self(v, self_ty)) for k, v in tree.items()}
    if isinstance(tree, list):
        return [_subst_self(x, self_ty) for x in tree]
    return tree


def _const_fn_call(h):
    """a call of a local const fn inside a constant tree: its body is evaluated (MIR, path-sensitive evaluator) and read back as a schema
    term over the argument trees.  Only straight-line constructors are understood; anything else stays unknown"""
    F = CTX.get("F")
    f = strip(h["f"])
    if F is None or f.get("rk") not in ("Fn", "AssocFn"):
        return None
    import sym
    fn = None
    for cr in F.crates.values():
        for g in cr.fns:
            if g.def_ == f.get("def") or g.canon == f.get("canon"):
                fn = g
    if fn is None or fn.argc != len(h["args"]):
        return None
    args = [schema_term(a) for a in h["args"]]
    eng = sym.Engine(F, inline=sym.inline_consts, max_visits=2, max_steps=2000)
    ps = [p for p in eng.run(fn) if p.status == "return"]
    if len(ps) != 1:
        return None

    def conv(t, d=0):
        if not isinstance(t, tuple) or d > 12:
            return ("?", "term")
        k = t[0]
        if k == "param":
            return args[t[1] - 1]
        if k in ("ref", "pref"):
            if k == "pref":
                return conv(t[1], d + 1)
            return ("?", "ref")
        if k == "str":
            return ("Str", t[1])
        if k == "agg" and t[1] == "adt" and last(t[2]) == "Variant" and t[4] and set(t[4]) == {"name", "data"}:
            fs = dict(zip(t[4], t[5]))
            return ("Variant", conv(fs["name"], d + 1), conv(fs["data"], d + 1))
        if k == "agg" and t[1] == "adt" and last(t[2]) in ("NamedField", "NamedType") and t[4] and set(t[4]) == {"name", "ty"}:
            fs = dict(zip(t[4], t[5]))
            return ("Named", conv(fs["name"], d + 1), conv(fs["ty"], d + 1))
        if k == "agg" and t[1] == "adt" and last(t[2]) == "Data":
            v, ops = t[3], t[5]
            if v == "Unit" and not ops:
                return ("DUnit",)
            if v == "Newtype" and len(ops) == 1:
                return ("DNewtype", conv(ops[0], d + 1))
            return ("?", "data %s" % v)
        if k == "agg" and t[1] == "adt" and (t[2] or "").endswith("DataModelType"):
            v = t[3]
            ops = t[5]
            if v in LEAVES and not ops:
                return ("K", v)
            if v in ("Option", "Seq") and len(ops) == 1:
                return (v, conv(ops[0], d + 1))
            if v == "Map" and t[4] and set(t[4]) == {"key", "val"}:
                fs = dict(zip(t[4], ops))
                return ("Map", conv(fs["key"], d + 1), conv(fs["val"], d + 1))
        return ("?", "term %s" % k)
    r = conv(ps[0].ret)
    return None if _has_unknown(r) else r


def _has_unknown(t):
    if isinstance(t, tuple):
        if t and t[0] == "?":
            return True
        return any(_has_unknown(x) for x in t)
    if isinstance(t, list):
        return any(_has_unknown(x) for x in t)
    return False


def last(seg):
    return (seg or "").split("::")[-1]


def schema_term(h, F=None):
    if F is not None:
        CTX["F"] = F
    h = strip(h)
    if not isinstance(h, dict):
        return ("?", "not a tree")
    k = h.get("k")
    if k == "lit" and h.get("str") is not None:
        return ("Str", h["str"])          # only meaningful as an argument of a local const fn
    if k == "path":
        rk = h.get("rk", "")
        if rk.startswith("Ctor"):
            v = h.get("variant") or last(h.get("def"))
            if "DataModelType" in (h.get("ctor_of") or h.get("def") or ""):
                return ("K", v) if v in LEAVES else ("?", "constructor %s without arguments" % v)
            if (h.get("ctor_of") or "").endswith("Data::Unit") or v == "Unit":
                return ("DUnit",)
        if rk.startswith("AssocConst") and h.get("name") == "SCHEMA":
            return ("Ref", h.get("self_ty"))
        return ("?", "path %s" % h.get("def"))
    if k == "call":
        f = strip(h["f"])
        v = f.get("variant") or last(f.get("def"))
        owner = f.get("ctor_of") or f.get("def") or ""
        args = h["args"]
        if f.get("rk", "").startswith("Ctor"):
            if "DataModelType" in owner:
                if v in ("Option", "Seq") and len(args) == 1:
                    return (v, schema_term(args[0]))
                if v == "Tuple" and len(args) == 1:
                    return tuple_term(args[0])
            if "::Data" in owner or owner.endswith("Data::" + v):
                if v == "Newtype":
                    return ("DNewtype", schema_term(args[0]))
                if v == "Tuple":
                    t = tuple_term(args[0])
                    return ("DTuple", t[1]) if t[0] == "Tuple" else ("?", "data tuple %r" % (t,))
                if v == "Struct":
                    a = strip(args[0])
                    if a.get("k") == "array":
                        return ("DStruct", [named_field(x) for x in a["es"]])
        if f.get("rk") == "Fn" and last(f.get("def")) == "flatten":
            return ("Flatten", nested_repeat(args[0]))
        cf = _const_fn_call(h)
        if cf is not None:
            return cf
        return ("?", "call %s" % (f.get("def")))
    if k == "struct":
        v = h.get("variant") or last(h.get("def"))
        fs = {f["name"]: f["e"] for f in h["fields"]}
        d = h.get("def") or ""
        if d.endswith("DataModelType::Map") or v == "Map":
            return ("Map", schema_term(fs.get("key")), schema_term(fs.get("val")))
        if d.endswith("DataModelType::Struct") or (v == "Struct" and "data" in fs):
            return ("Struct", lit_str(fs.get("name")), schema_term(fs.get("data")))
        if d.endswith("DataModelType::Enum") or v == "Enum":
            a = strip(fs.get("variants"))
            vs = []
            if a.get("k") == "array":
                for x in a["es"]:
                    x = strip(x)
                    cf = _const_fn_call(x) if x.get("k") == "call" else None
                    if cf is not None and cf[0] == "Variant" and cf[1][0] == "Str":
                        vs.append((cf[1][1], cf[2]))          # a local const fn that builds the Variant from its arguments
                        continue
                    xf = {f["name"]: f["e"] for f in x.get("fields", [])}
                    vs.append((lit_str(xf.get("name")), schema_term(xf.get("data"))))
            return ("Enum", lit_str(fs.get("name")), vs)
        return ("?", "struct %s" % d)
    return ("?", "node %s" % k)


def named_field(x):
    x = strip(x)
    cf = _const_fn_call(x) if x.get("k") == "call" else None
    if cf is not None and cf[0] == "Named" and cf[1][0] == "Str":
        return (cf[1][1], cf[2])
    fs = {f["name"]: f["e"] for f in x.get("fields", [])}
    return (lit_str(fs.get("name")), schema_term(fs.get("ty")))


def tuple_term(a):
    a = strip(a)
    if a.get("k") == "array":
        return ("Tuple", [schema_term(x) for x in a["es"]])
    if a.get("k") == "repeat":
        return ("TupleRep", schema_term(a["e"]), repeat_len(a.get("ty")))
    if a.get("k") == "call":
        t = schema_term(a)
        if t[0] == "Flatten":
            return t
    if a.get("k") == "mcall" and a.get("name") == "as_flattened" and not a.get("args") and (a.get("def") or "").startswith(("core::", "std::")):
        return ("Flatten", nested_repeat(a["recv"]))          # std's `<[[T; N]]>::as_flattened`: the rows one after the other
    return ("?", "tuple payload %s" % a.get("k"))


def nested_repeat(a):
    a = strip(a)
    dims = []
    while a.get("k") == "repeat":
        dims.append(repeat_len(a.get("ty")))
        a = strip(a["e"])
    return (schema_term(a), tuple(dims))


def repeat_len(ty):
    # "[&schema::DataModelType; N]"
    if ty and "; " in ty:
        return ty.rsplit("; ", 1)[1].rstrip("]")
    return "?"


def lit_str(h):
    h = strip(h) if h else None
    if isinstance(h, dict) and h.get("k") == "lit":
        return h.get("str")
    return None


# ---- size polynomials -------------------------------------------------------------------------------------------

def p_const(c):
    return {(): c} if c else {}


def p_atom(a):
    return {(a,): 1}


def p_add(a, b):
    out = dict(a)
    for m, c in b.items():
        out[m] = out.get(m, 0) + c
    return {m: c for m, c in out.items() if c}


def p_mul(a, b):
    out = {}
    for m1, c1 in a.items():
        for m2, c2 in b.items():
            m = tuple(sorted(m1 + m2, key=repr))
            out[m] = out.get(m, 0) + c1 * c2
    return {m: c for m, c in out.items() if c}


def freeze(p):
    return tuple(sorted(p.items(), key=repr))


def size_poly(h):
    h = strip(h)
    k = h.get("k")
    if k == "lit" and "int" in h:
        return p_const(h["int"])
    if k == "path":
        rk = h.get("rk", "")
        if rk.startswith("AssocConst") and h.get("name") == "POSTCARD_MAX_SIZE":
            return p_atom(("sz", h.get("self_ty")))
        if rk == "ConstParam":
            return p_atom(("N", h.get("name")))
        return p_atom(("?", h.get("def")))
    if k == "bin":
        a, b = size_poly(h["a"]), size_poly(h["b"])
        if h["op"] == "+":
            return p_add(a, b)
        if h["op"] == "*":
            return p_mul(a, b)
        return p_atom(("?", "op " + h["op"]))
    if k == "call":
        f = strip(h["f"])
        nm = last(f.get("def"))
        args = [size_poly(a) for a in h["args"]]
        if nm == "max" and len(args) == 2:
            a, b = sorted([freeze(args[0]), freeze(args[1])], key=repr)
            return p_atom(("max", a, b))
        return p_atom(("call", nm, tuple(f.get("args") or []), tuple(freeze(a) for a in args)))
    if k == "block" and h.get("e") is not None and not h.get("stmts"):
        return size_poly(h["e"])
    return p_atom(("?", "node %s" % k))
