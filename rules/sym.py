"""Path-sensitive abstract evaluation of MIR bodies (engine E2).

A function body is explored along all of its (non-cleanup) control-flow paths; on every path the
values of locals and of memory reachable from the parameters are kept as *terms* (a small
expression language over the parameters, constants and opaque call results).  Constants are folded,
so control flow that depends only on constants (loops over `0..varint_max::<T>()`, `cfg!` booleans,
`debug_assert!`) is resolved exactly; every other `SwitchInt` forks the path and records the
condition.  Each finished path yields: the ordered list of events (calls with argument terms,
writes through pointers, raw-pointer dereferences, assertions with their condition terms), the
branch conditions taken, the final store and the returned term.

This is a static analysis: no postcard code is run and no solver is involved.  Everything that
leaves the understood fragment becomes an ('unknown', reason) term, and the rules built on top fail
closed when they meet one where they need a definite answer.
"""
import itertools
import re

INT_BITS = {"u8": 8, "i8": 8, "u16": 16, "i16": 16, "u32": 32, "i32": 32, "u64": 64, "i64": 64,
            "u128": 128, "i128": 128, "usize": 64, "isize": 64, "bool": 1, "char": 32}


def bits_of(ty):
    return INT_BITS.get(ty)


def is_signed(ty):
    return ty in ("i8", "i16", "i32", "i64", "i128", "isize")


def C(v, ty):
    b = INT_BITS.get(ty)
    if b is not None:
        v &= (1 << b) - 1
    return ("c", v, ty)


def is_c(t):
    return isinstance(t, tuple) and t and t[0] == "c"


def sval(t):
    """signed interpretation of a constant term"""
    _, v, ty = t
    b = INT_BITS.get(ty)
    if b and is_signed(ty) and v >> (b - 1):
        return v - (1 << b)
    return v


TRUE = ("c", 1, "bool")
FALSE = ("c", 0, "bool")
UNIT = ("unit",)


def unknown(why):
    return ("unknown", why)


def has_unknown(t):
    if not isinstance(t, tuple):
        return False
    if t and t[0] == "unknown":
        return True
    return any(has_unknown(x) for x in t if isinstance(x, tuple))


def subterms(t):
    if isinstance(t, tuple) and t:
        yield t
        for x in t:
            if isinstance(x, tuple):
                yield from subterms(x)


CMP = {"Eq", "Ne", "Lt", "Le", "Gt", "Ge"}


def mk_bin(op, a, b, ty):
    """ty = operand type (for comparisons the result is bool)."""
    base = op.replace("WithOverflow", "").replace("Unchecked", "")
    if is_c(a) and is_c(b) and INT_BITS.get(a[2]) is not None:
        bits = INT_BITS[a[2]]
        av, bv = a[1], b[1]
        sa, sb = (sval(a), sval(b)) if is_signed(a[2]) else (av, bv)
        if base in CMP:
            r = {"Eq": sa == sb, "Ne": sa != sb, "Lt": sa < sb, "Le": sa <= sb, "Gt": sa > sb, "Ge": sa >= sb}[base]
            return TRUE if r else FALSE
        try:
            if base == "Add":
                r = sa + sb
            elif base == "Sub":
                r = sa - sb
            elif base == "Mul":
                r = sa * sb
            elif base == "Div":
                r = None if sb == 0 else (abs(sa) // abs(sb)) * (1 if (sa < 0) == (sb < 0) else -1)
            elif base == "Rem":
                r = None if sb == 0 else (abs(sa) % abs(sb)) * (1 if sa >= 0 else -1)
            elif base == "BitAnd":
                r = av & bv
            elif base == "BitOr":
                r = av | bv
            elif base == "BitXor":
                r = av ^ bv
            elif base == "Shl":
                r = av << (bv % bits)
            elif base == "Shr":
                r = (sa >> (bv % bits)) if is_signed(a[2]) else (av >> (bv % bits))
            else:
                r = None
        except Exception:
            r = None
        if r is not None:
            return C(r, a[2])
    if base in CMP:
        # comparisons of an unsigned value with the type's bounds are decided by the type (`0..=N` patterns lower to `0 <= x && x <= N`)
        for lo_side, x, c in ((True, b, a), (False, a, b)):
            if is_c(c) and INT_BITS.get(c[2]) is not None and not is_signed(c[2]):
                top = (1 << INT_BITS[c[2]]) - 1
                if c[1] == 0:        # lo_side: 0 op x ; else: x op 0
                    r = {"Le": True, "Gt": False}.get(base) if lo_side else {"Ge": True, "Lt": False}.get(base)
                    if r is not None:
                        return TRUE if r else FALSE
                if c[1] == top:      # lo_side: MAX op x ; else: x op MAX
                    r = {"Ge": True, "Lt": False}.get(base) if lo_side else {"Le": True, "Gt": False}.get(base)
                    if r is not None:
                        return TRUE if r else FALSE
        return ("bin", base, a, b, "bool")
    # light algebraic identities that keep terms small
    if base in ("Add", "BitOr", "BitXor") and is_c(b) and b[1] == 0:
        return a
    if base in ("Add", "BitOr", "BitXor") and is_c(a) and a[1] == 0:
        return b
    if base in ("Sub", "Shl", "Shr") and is_c(b) and b[1] == 0:
        return a
    if base == "Mul" and is_c(b) and b[1] == 1:
        return a
    if base == "Mul" and is_c(a) and a[1] == 1:
        return b
    return ("bin", base, a, b, ty)


def mk_ovf(op, a, b, ty):
    base = op.replace("WithOverflow", "")
    if is_c(a) and is_c(b) and INT_BITS.get(a[2]) is not None:
        bits = INT_BITS[a[2]]
        sa, sb = (sval(a), sval(b)) if is_signed(a[2]) else (a[1], b[1])
        r = {"Add": sa + sb, "Sub": sa - sb, "Mul": sa * sb}.get(base)
        if r is not None:
            lo, hi = (-(1 << (bits - 1)), (1 << (bits - 1)) - 1) if is_signed(a[2]) else (0, (1 << bits) - 1)
            return TRUE if (r < lo or r > hi) else FALSE
    return ("ovf", base, a, b, ty)


def mk_un(op, a, ty):
    if is_c(a) and INT_BITS.get(a[2]) is not None:
        if op == "Not":
            if a[2] == "bool":
                return FALSE if a[1] else TRUE
            return C(~a[1], a[2])
        if op == "Neg":
            return C(-sval(a), a[2])
    if op == "Not" and isinstance(a, tuple) and a[0] == "un" and a[1] == "Not":
        return a[2]
    return ("un", op, a, ty)


def mk_cast(ck, a, fromty, toty):
    if ck == "IntToInt" and is_c(a) and toty in INT_BITS:
        v = sval(a) if is_signed(a[2]) else a[1]
        return C(v, toty)
    if ck == "IntToInt" and fromty == toty:
        return a
    if ck == "IntToInt" and toty in INT_BITS and fromty in INT_BITS and isinstance(a, tuple) and a:
        tw, fw = INT_BITS[toty], INT_BITS[fromty]
        # (x as B) as C with B as wide as x's own type and C no wider: the low bits of x, whatever B's signedness
        if a[0] == "cast" and a[1] == "IntToInt" and a[3] in INT_BITS and INT_BITS[a[3]] == fw and tw <= fw:
            return mk_cast(ck, a[2], a[3], toty)
        # ((x as B) >> k) as C with k + width(C) <= width: bits k.. of x, whatever fills in from the top
        if a[0] == "bin" and a[1] == "Shr" and is_c(a[3]) and isinstance(a[2], tuple) and a[2] and a[2][0] == "cast" and a[2][1] == "IntToInt" \
                and a[2][3] in INT_BITS and INT_BITS[a[2][3]] == fw and a[3][1] + tw <= fw:
            return ("cast", ck, ("bin", "Shr", a[2][2], a[3], a[2][3]), a[2][3], toty)
        # the integer read from the same bytes in the same order, reinterpreted at the same width
        if a[0] == "from_bytes" and a[2] in INT_BITS and INT_BITS[a[2]] == fw == tw:
            return ("from_bytes", a[1], toty, a[3])
    if ck in ("PtrToPtr", "PointerCoercion(MutToConstPointer)", "Subtype"):
        return a
    return ("cast", ck, a, fromty, toty)


# ---------------------------------------------------------------------------------------------

PROJECTIONS = {}      # (trait's last segment, concrete self type, assoc name) -> (trait canon, type); filled when facts are loaded
_PROJ_RE = re.compile(r"<([A-Za-z0-9_]+|\[[A-Za-z0-9_]+; \d+\]) as ([A-Za-z0-9_:]+)>::([A-Za-z0-9_]+)(?![A-Za-z0-9_(:<])")


def normalize_proj(s):
    """`<i128 as fixint::sealed::FixedInt>::Bytes` -> `[u8; 16]` when a local impl of that trait for that concrete type defines it"""
    if not PROJECTIONS or not s or " as " not in s:
        return s
    def rep(m):
        hit = PROJECTIONS.get((m.group(2).split("::")[-1], m.group(1), m.group(3)))
        if hit is not None and hit[0].endswith(m.group(2).split("::", 1)[-1] if m.group(2).startswith("crate::") else m.group(2).split("::")[-1]):
            return hit[1]
        return m.group(0)
    for _ in range(4):
        s2 = _PROJ_RE.sub(rep, s)
        if s2 == s:
            break
        s = s2
    return s


def subst_ty(s, sub):
    if not sub or not s:
        return s
    for k, v in sub.items():
        if k in s:
            s = re.sub(r"(?<![A-Za-z0-9_:])%s(?![A-Za-z0-9_])" % re.escape(k), lambda m: v, s)
    return normalize_proj(s)


def _split_top(s):
    """split a generic argument list at top-level commas"""
    out, depth, cur = [], 0, ""
    for ch in s:
        if ch in "<([":
            depth += 1
        elif ch in ">)]":
            depth -= 1
        if ch == "," and depth == 0:
            out.append(cur.strip())
            cur = ""
        else:
            cur += ch
    if cur.strip():
        out.append(cur.strip())
    return out


def unify_ty(pat, con, params, out):
    """match the type string `con` against the pattern `pat` whose generic parameters are `params`; lifetimes match anything"""
    pat, con = pat.strip(), con.strip()
    if pat.startswith("'") or con.startswith("'"):
        return pat.startswith("'") and con.startswith("'")
    if pat in params:
        if pat in out and out[pat] != con:
            return False
        out[pat] = con
        return True
    for pre in ("&mut ", "&", "*mut ", "*const "):
        if pat.startswith(pre) != con.startswith(pre):
            if pat.startswith(pre) or con.startswith(pre):
                # `&'a T` vs `&T`: strip lifetimes first
                pass
    p2 = re.sub(r"^(&|\*const |\*mut )('\w+ )?(mut )?", lambda m: m.group(1) + (m.group(3) or ""), pat)
    c2 = re.sub(r"^(&|\*const |\*mut )('\w+ )?(mut )?", lambda m: m.group(1) + (m.group(3) or ""), con)
    for pre in ("&mut ", "&", "*mut ", "*const "):
        if p2.startswith(pre) or c2.startswith(pre):
            if not (p2.startswith(pre) and c2.startswith(pre)):
                return False
            return unify_ty(p2[len(pre):], c2[len(pre):], params, out)
    if p2.startswith("(") and p2.endswith(")") and c2.startswith("(") and c2.endswith(")"):
        pl, cl = _split_top(p2[1:-1]), _split_top(c2[1:-1])
        return len(pl) == len(cl) and all(unify_ty(x, y, params, out) for x, y in zip(pl, cl))
    if p2.startswith("[") and p2.endswith("]") and c2.startswith("[") and c2.endswith("]") and "; " in p2 and "; " in c2:
        pe, pn = p2[1:-1].rsplit("; ", 1)
        ce, cn = c2[1:-1].rsplit("; ", 1)
        return unify_ty(pe, ce, params, out) and unify_ty(pn, cn, params, out)
    ph, _, pa = p2.partition("<")
    ch, _, ca = c2.partition("<")
    if ph != ch:
        return False
    if not pa and not ca:
        return True
    if not pa or not ca or not pa.endswith(">") or not ca.endswith(">"):
        return False
    pl, cl = _split_top(pa[:-1]), _split_top(ca[:-1])
    if len(pl) != len(cl):
        return False
    return all(unify_ty(x, y, params, out) for x, y in zip(pl, cl))


def callee_key(c):
    if c is None:
        return None
    if c.get("trait"):
        return c["trait"] + "::" + c["name"]
    return c["def"]


def inline_consts(fn, ev):
    """local functions whose arguments are all constants are evaluated in place (const fn helpers such as `ceil_div(bits, 7)`)"""
    if fn.argc == 0:
        return True
    return all(is_c(a) for a in ev["args"])


def _two_variant(atom):
    """is the discriminant atom that of a Result / Option / ControlFlow value (an opaque call result of such a type)?"""
    if not (isinstance(atom, tuple) and len(atom) == 2 and atom[0] == "tag"):
        return False
    x = atom[1]
    while isinstance(x, tuple) and x and x[0] in ("try",):
        x = x[1]
    return isinstance(x, tuple) and x and x[0] == "call" and isinstance(x[-1], str) and \
        re.match(r"^(std|core)::(result::Result|option::Option|ops::ControlFlow|ops::control_flow::ControlFlow)<", x[-1]) is not None


_EXIT_TESTS = {}


def _succ(t):
    k = t.get("k")
    if k == "switch":
        return [b for _, b in t.get("targets", [])] + [t.get("otherwise")]
    out = [t.get("target")]
    return [b for b in out if b is not None]


def _discr_switch(bb, t):
    """is the switch operand an enum discriminant read in this block?  (a constant there only says which constructor an earlier, possibly
    symbolic, decision on this path produced; a constant integer comparison says the loop test itself is decided by constants)"""
    d = t.get("discr") or {}
    loc = (d.get("p") or {}).get("local")
    for s_ in reversed(bb.get("stmts") or []):
        if s_.get("k") == "assign" and (s_.get("p") or {}).get("local") == loc and not (s_.get("p") or {}).get("proj"):
            return (s_.get("rv") or {}).get("k") == "discr"
    return False


def exit_tests(fn):
    """blocks of fn whose `switch` decides whether a loop is left: the block lies on a cycle of the CFG and one of its successors does not"""
    key = id(fn)
    if key in _EXIT_TESTS:
        return _EXIT_TESTS[key]
    blocks = fn.blocks or []
    n = len(blocks)
    succ = [[b for b in _succ(bl.get("term") or {}) if isinstance(b, int) and 0 <= b < n] for bl in blocks]
    index, low, on, stack, comp = {}, {}, set(), [], {}
    counter = [0]
    for root in range(n):
        if root in index:
            continue
        work = [(root, 0)]
        while work:
            v, i = work.pop()
            if i == 0:
                index[v] = low[v] = counter[0]
                counter[0] += 1
                stack.append(v)
                on.add(v)
            recursed = False
            while i < len(succ[v]):
                w = succ[v][i]
                i += 1
                if w not in index:
                    work.append((v, i))
                    work.append((w, 0))
                    recursed = True
                    break
                if w in on:
                    low[v] = min(low[v], index[w])
            if recursed:
                continue
            if low[v] == index[v]:
                members = []
                while True:
                    w = stack.pop()
                    on.discard(w)
                    members.append(w)
                    if w == v:
                        break
                for w in members:
                    comp[w] = (v, len(members))
            if work:
                u = work[-1][0]
                low[u] = min(low[u], low[v])
    out = set()
    for v in range(n):
        t = blocks[v].get("term") or {}
        if t.get("k") != "switch":
            continue
        cv = comp.get(v)
        cyclic = cv is not None and (cv[1] > 1 or v in succ[v])
        if cyclic and any(comp.get(w, (None,))[0] != cv[0] for w in succ[v]):
            out.add(v)
    _EXIT_TESTS[key] = out
    return out


class HDict(dict):
    """a callee description inside a term: hashable (by the function it names) so that terms can be dictionary keys"""

    def __hash__(self):
        return hash(self.get("canon") or self.get("def") or "")


class State:
    __slots__ = ("frames", "store", "pc", "events", "visits", "steps", "tagfacts", "status", "ret", "ids", "visit_mark", "bonus", "cmark")

    def __init__(self):
        self.frames = []
        self.store = {}
        self.pc = []
        self.events = []
        self.visits = {}
        self.visit_mark = {}
        self.bonus = 0
        self.cmark = {}
        self.steps = 0
        self.tagfacts = {}
        self.status = None
        self.ret = None
        self.ids = None

    def fork(self):
        s = State()
        s.frames = [dict(f) for f in self.frames]
        s.store = dict(self.store)
        s.pc = list(self.pc)
        s.events = list(self.events)
        s.visits = dict(self.visits)
        s.visit_mark = dict(self.visit_mark)
        s.bonus = self.bonus
        s.cmark = dict(self.cmark)
        s.steps = self.steps
        s.tagfacts = dict(self.tagfacts)
        s.ids = self.ids
        return s


class Path:
    def __init__(self, st):
        self.status = st.status
        self.ret = st.ret
        self.store = st.store
        self.events = st.events
        self.pc = st.pc
        self.tagfacts = st.tagfacts

    def calls(self, key=None, name=None):
        out = []
        for e in self.events:
            if e["k"] != "call":
                continue
            if key is not None and e["key"] != key:
                continue
            if name is not None and e["name"] != name:
                continue
            out.append(e)
        return out


class Engine:
    def __init__(self, facts, inline=None, max_visits=2, max_steps=20000, max_paths=4000, models=None,
                 max_depth=6):
        self.facts = facts
        self.inline = inline or (lambda callee, depth: False)
        self.max_visits = max_visits
        self.max_steps = max_steps
        self.max_paths = max_paths
        self.discr_events = None
        self.free_constant_loops = True
        self.unfold = None          # opt-in: (fn, event, state) -> may a function that is already being analysed be entered once more?
        self.max_depth = max_depth
        self.models = dict(MODELS)
        if models:
            self.models.update(models)
        self.truncated = False
        self.root_subst = None
        self.syn = dict(SYN_MODELS)
        self.late_resolve = True

    # ---- store -------------------------------------------------------------------------
    def read(self, st, loc):
        if loc[0] == "I" and loc[1][0] == "A1" and is_c(loc[2]) and loc[2][1] == 0:
            loc = loc[1][1]
        if loc[0] == "I" and loc[1][0] == "P" and _frp(loc[1][1]) is not None:
            loc = ("P", mk_bin("Add", _frp(loc[1][1])[0], loc[2], "usize"))        # element i of from_raw_parts(p, n) is *(p + i)
        v = st.store.get(loc)
        if v is not None:
            return self._with_overrides(st, loc, v)
        k = loc[0]
        if k == "L":
            return ("init", loc)
        if k == "P":
            if loc[1][0] == "pref":
                return loc[1][1]
            return self._with_overrides(st, loc, ("init", loc))
        if k == "S":
            return ("slice", loc)
        parent = loc[1]
        pv = self.read_raw(st, parent)
        return self._with_overrides(st, loc, self.project(pv, loc, parent))

    def read_raw(self, st, loc):
        v = st.store.get(loc)
        if v is not None:
            return v
        k = loc[0]
        if k == "P" and loc[1][0] == "pref":
            return loc[1][1]
        if k in ("L", "P"):
            return ("init", loc)
        if k == "S":
            return ("slice", loc)
        pv = self.read_raw(st, loc[1])
        return self.project(pv, loc, loc[1])

    def _with_overrides(self, st, loc, v):
        # apply child overrides functionally when the base value is a known aggregate
        ch = [(k, x) for k, x in st.store.items() if k is not loc and _is_child(k, loc)]
        if not ch:
            return v
        for k, x in sorted(ch, key=lambda kv: _depth(kv[0])):
            v2 = _fupdate(v, _relpath(k, loc), x)
            if v2 is None:
                # an opaque value with some of its parts overwritten: keep the overrides by their access path relative to the value
                return ("upd", v, tuple(sorted(((_names(_relpath(k, loc)), x) for k, x in ch), key=repr)))
            v = v2
        return v

    def project(self, pv, loc, parent):
        k = loc[0]
        if k == "F":
            name = loc[2]
            return proj_field(pv, name)
        if k == "D":
            return proj_down(pv, loc[2])
        if k == "I":
            idx = loc[2]
            if pv[0] == "agg" and pv[1] == "array" and is_c(idx) and idx[1] < len(pv[5]):
                return pv[5][idx[1]]
            if pv[0] == "repeat":
                return pv[1]
            if pv[0] == "init":
                return ("init", ("I", pv[1], idx))
            if pv[0] == "slice":
                s = pv[1]
                return ("init", ("I", s[1], mk_bin("Add", s[2], idx, "usize")))
            return ("index", pv, idx)
        return unknown("project %r" % (k,))

    def write(self, st, loc, v):
        # drop stale children
        for k in [k for k in st.store if _is_child(k, loc)]:
            del st.store[k]
        if loc[0] in ("F", "I", "D"):
            parent = loc[1]
            pv = st.store.get(parent)
            if pv is not None:
                nv = _fupdate(pv, (loc,), v)
                if nv is not None:
                    self.write(st, parent, nv)
                    return
        st.store[loc] = v

    def havoc(self, st, loc, cid):
        while loc[0] == "S":
            loc = loc[1]
        if loc[0] == "A1":
            # written through a one-element slice view of a scalar: the scalar now holds element 0 of what the callee wrote
            inner = loc[1]
            for k in [k for k in st.store if k == inner or _is_child(k, inner)]:
                del st.store[k]
            st.store[inner] = ("index", ("havoc", cid, inner), C(0, "usize"))
            return
        for k in [k for k in st.store if k == loc or _is_child(k, loc)]:
            del st.store[k]
        st.store[loc] = ("havoc", cid, loc)

    # ---- places / operands ---------------------------------------------------------------
    def place_loc(self, st, fr, p, rw="r"):
        fid = fr["fid"]
        loc = ("L", fid, p["local"])
        proj = p["proj"]
        i = 0
        while i < len(proj):
            e = proj[i]
            k = e["k"]
            if k == "deref":
                v = self.read(st, loc)
                of = e.get("of", "")
                if of.startswith("*const") or of.startswith("*mut"):
                    last = (i == len(proj) - 1)
                    st.events.append({"k": "rawderef", "ptr": v, "ty": of, "rw": rw if last else "r",
                                      "fn": fr["fn"], "bb": fr["bb"], "pc": len(st.pc)})
                if v[0] == "ref":
                    loc = v[1]
                elif v[0] == "cast" and v[2][0] == "ref":
                    loc = v[2][1]
                else:
                    loc = ("P", v)
            elif k == "field":
                loc = ("F", loc, e["name"])
            elif k == "downcast":
                loc = ("D", loc, e["name"])
            elif k == "index":
                idx = self.read(st, ("L", fid, e["local"]))
                loc = self._index_loc(loc, idx)
            elif k == "cidx":
                if e["from_end"]:
                    if loc[0] == "S":
                        loc = ("I", loc[1], mk_bin("Sub", loc[3], C(e["offset"], "usize"), "usize"))
                    else:
                        loc = ("I", loc, unknown("from_end"))
                else:
                    loc = self._index_loc(loc, C(e["offset"], "usize"))
            elif k == "subslice":
                # slice patterns `[a, rest @ ..]` / `[.., last]`: a sub-slice of the place
                if loc[0] == "S":
                    b0, lo0, hi0 = loc[1], loc[2], loc[3]
                elif loc[0] == "P":
                    b0, lo0, hi0 = loc, C(0, "usize"), ("len", loc[1])
                else:
                    b0 = None
                if b0 is None:
                    loc = ("I", loc, unknown("proj subslice"))
                else:
                    nlo = mk_bin("Add", lo0, C(e["from"], "usize"), "usize")
                    nhi = mk_bin("Sub", hi0, C(e["to"], "usize"), "usize") if e["from_end"] else mk_bin("Add", lo0, C(e["to"], "usize"), "usize")
                    loc = ("S", b0, nlo, nhi)
            else:
                loc = ("I", loc, unknown("proj " + k))
            i += 1
        return loc

    def _index_loc(self, loc, idx):
        if loc[0] == "S" and loc[1][0] == "A1":
            if is_c(idx) and is_c(loc[2]) and idx[1] + loc[2][1] == 0:
                return loc[1][1]
            return ("I", loc[1], mk_bin("Add", loc[2], idx, "usize"))
        if loc[0] == "S":
            return ("I", loc[1], mk_bin("Add", loc[2], idx, "usize"))
        return ("I", loc, idx)

    def operand(self, st, fr, o):
        k = o["k"]
        if k in ("copy", "move"):
            return self.read(st, self.place_loc(st, fr, o["p"]))
        if k == "const":
            return self.const(fr, o)
        return unknown("operand " + k)

    def const(self, fr, o):
        ty = o["ty"]
        if "fn" in o:
            return ("fn", o["fn"]["full"], HDict(o["fn"]))
        if "closure" in o:
            return ("closure", o["closure"])
        if "int" in o:
            if ty in INT_BITS:
                return C(o["int"], ty)
            return ("c", o["int"], ty)
        if "str" in o and ty.startswith("&") and "str" in ty:
            return ("str", o["str"])
        if "bytes" in o:
            return ("bytes", tuple(o["bytes"]))
        if o.get("zst"):
            if ty == "()":
                return UNIT
            return ("zst", ty)
        if "uneval" in o:
            u = o["uneval"]
            if "promoted" in u:
                return self.promoted(fr, u["promoted"])
            if not u["args"]:
                v = self.const_value(u["canon"])
                if v is not None:
                    return v
            return ("constref", u["canon"], tuple(u["args"]), u.get("name"))
        if "tyconst" in o:
            # a const generic parameter: its value when the enclosing (inlined) function was instantiated with a literal
            nm = str(o["tyconst"]).split("/")[0]
            v = (fr.get("subst") or {}).get(nm)
            if isinstance(v, str) and re.match(r"^\d+(_?[iu](8|16|32|64|128|size))?$", v):
                return C(int(re.match(r"^\d+", v).group(0)), ty if ty in INT_BITS else "usize")
            if v in ("true", "false") and ty == "bool":
                return TRUE if v == "true" else FALSE
            return ("tyconst", o["tyconst"], ty)
        return unknown("const " + ty)

    def const_value(self, canon):
        """value of a non-generic constant item of the analysed crates, from its own MIR body (aggregates of constants only)"""
        memo = self.__dict__.setdefault("_const_memo", {})
        if canon in memo:
            return memo[canon]
        memo[canon] = None
        f = self.facts.fn_by_canon(canon)
        if f is None or f.argc != 0 or not f.blocks:
            return None
        sub = Engine(self.facts, max_visits=1, max_steps=2000)
        try:
            paths = sub.run(f, [])
        except Exception:
            return None
        if len(paths) != 1 or paths[0].status != "return":
            return None

        def closed(t, d=0):
            if not isinstance(t, tuple):
                return True
            if d > 12 or (t and t[0] in ("unknown", "call", "init", "ref", "param", "constref")):
                return False
            return all(closed(x, d + 1) for x in t)
        v = paths[0].ret
        if v is not None and v[0] == "agg" and closed(v):
            memo[canon] = v
        return memo[canon]

    def promoted(self, fr, idx):
        fn = fr["fn"]
        try:
            pb = fn.promoted[idx]
        except Exception:
            return unknown("promoted")
        # evaluate the tiny promoted body: straight-line, returns a reference
        sub = Engine(self.facts, max_visits=1, max_steps=500)
        f = _PseudoFn(fn, pb, idx)
        paths = sub.run(f, [])
        if len(paths) == 1 and paths[0].status == "return":
            st2 = _store_state(paths[0].store)

            def deep(t, d=0):
                if not isinstance(t, tuple) or d > 8:
                    return t
                if t and t[0] == "ref" and _root_kind(t[1]) == "L":
                    return ("pref", deep(sub.read(st2, t[1]), d + 1))
                if t and t[0] in ("c", "str", "bytes", "param"):
                    return t
                return tuple(deep(x, d + 1) if isinstance(x, tuple) else x for x in t)
            return deep(paths[0].ret)
        return unknown("promoted body")

    # ---- rvalues ---------------------------------------------------------------------------
    def rvalue(self, st, fr, rv, destty):
        k = rv["k"]
        if k == "use":
            return self.operand(st, fr, rv["op"])
        if k in ("ref", "rawptr"):
            return ("ref", self.place_loc(st, fr, rv["p"], "a"))
        if k == "cast":
            a = self.operand(st, fr, rv["op"])
            ck = rv["ck"]
            if ck == "PointerCoercion(Unsize)" and a[0] == "ref":
                n = _array_len(rv["from"])
                if n is None and a[1][0] != "S":
                    v0 = self.read(st, a[1])
                    if v0[0] == "agg" and v0[1] == "array":
                        n = len(v0[5])          # `[x; N]` with a const parameter N instantiated by the inlined caller
                if n is not None and a[1][0] != "S":
                    return ("ref", ("S", a[1], C(0, "usize"), C(n, "usize")))
                m = re.search(r"\[.*; (\w+)\]$", (rv["from"] or "").strip())
                if m and a[1][0] != "S":
                    gen = getattr(fr["fn"], "generics", None) or []
                    if m.group(1) in gen:
                        sv = (fr.get("subst") or {}).get(m.group(1))
                        hi = C(int(sv), "usize") if isinstance(sv, str) and sv.isdigit() else ("tyconst", "%s/#%d" % (m.group(1), gen.index(m.group(1))), "usize")
                        return ("ref", ("S", a[1], C(0, "usize"), hi))
                return a
            if ck == "PointerCoercion(Unsize)" and a[0] == "pref":
                return a
            if ck == "PointerCoercion(Unsize)" and a[0] == "param":
                n = _array_len(rv["from"])
                if n is not None:
                    return ("ref", ("S", ("P", a), C(0, "usize"), C(n, "usize")))
            return mk_cast(ck, a, rv["from"], rv["ty"])
        if k == "bin":
            a = self.operand(st, fr, rv["a"])
            b = self.operand(st, fr, rv["b"])
            op = rv["op"]
            ty = rv["aty"]
            if op.endswith("WithOverflow"):
                return ("agg", "tuple", None, None, ("0", "1"), (mk_bin(op, a, b, ty), mk_ovf(op, a, b, ty)))
            if op == "Offset":
                return ("bin", "Offset", a, b, ty)
            return mk_bin(op, a, b, ty)
        if k == "un":
            a = self.operand(st, fr, rv["a"])
            if rv["op"] == "PtrMetadata":
                return mk_len(a)
            return mk_un(rv["op"], a, rv["aty"])
        if k == "discr":
            v = self.read(st, self.place_loc(st, fr, rv["p"]))
            d = discr_of(v, destty)
            if self.discr_events and self.discr_events(rv["p"].get("ty") or ""):
                # opt-in: a discriminant read of a type of interest is visible in the event stream (position of the test)
                st.events.append({"k": "discr", "ty": rv["p"].get("ty"), "val": v, "d": d, "fn": fr["fn"], "bb": fr["bb"], "pc": len(st.pc)})
            return d
        if k == "agg":
            ops = tuple(self.operand(st, fr, o) for o in rv["ops"])
            ak = rv["ak"]
            if ak == "adt":
                return ("agg", "adt", rv["adt"], rv["variant"], tuple(rv["fields"]), ops, rv["vidx"])
            if ak == "tuple":
                return ("agg", "tuple", None, None, tuple(str(i) for i in range(len(ops))), ops)
            if ak == "array":
                return ("agg", "array", None, None, None, ops)
            if ak == "closure":
                return ("agg", "closure", rv["closure"], None, tuple(str(i) for i in range(len(ops))), ops)
            if ak == "rawptr":
                return ("agg", "rawptr", None, None, ("0", "1"), ops)
            return unknown("agg " + ak)
        if k == "repeat":
            v = self.operand(st, fr, rv["op"])
            n = rv["n"]
            if not isinstance(n, int):
                # `[x; N]`: N a const parameter with a literal value in this instantiation
                sv = (fr.get("subst") or {}).get(str(n).split("/")[0])
                if isinstance(sv, str) and re.match(r"^\d+", sv):
                    n = int(re.match(r"^\d+", sv).group(0))
            if isinstance(n, int) and n <= 64:
                return ("agg", "array", None, None, None, tuple([v] * n))
            return ("repeat", v, n)
        return unknown("rvalue " + k)

    # ---- running -----------------------------------------------------------------------------
    def run(self, fn, args=None, store=None, tagfacts=None):
        st = State()
        if tagfacts:
            st.tagfacts.update(tagfacts)      # explore only the paths on which these discriminants have the given values
        st.ids = itertools.count(1)
        fid = 0
        st.frames.append({"fn": fn, "fid": fid, "bb": 0, "dest": None, "ret_to": None,
                          "subst": dict(self.root_subst or {})})
        if store:
            st.store.update(store)
        for i in range(1, fn.argc + 1):
            if args and i - 1 < len(args) and args[i - 1] is not None:
                st.store[("L", fid, i)] = args[i - 1]
            else:
                st.store[("L", fid, i)] = ("param", i, fn.locals[i]["ty"])
        work = [st]
        done = []
        self._nfid = 1
        while work:
            st = work.pop()
            if len(done) >= self.max_paths:
                self.truncated = True
                break
            self._step(st, work, done)
        return done

    def _finish(self, st, status, done):
        st.status = status
        done.append(Path(st))

    def _step(self, st, work, done):
        """Run `st` until it forks or ends."""
        while True:
            st.steps += 1
            if st.steps > self.max_steps:
                self.truncated = True
                return self._finish(st, "abort", done)
            fr = st.frames[-1]
            fn = fr["fn"]
            bbi = fr["bb"]
            vk = (fr["fid"], bbi)
            # a revisit counts against the loop bound only if a symbolic decision (or an opaque call) was made since the last visit:
            # iterations decided by constants alone (a loop over a fixed-size array, `for i in 0..4`) always unroll completely
            if self.free_constant_loops and st.visit_mark.get(vk) == len(st.pc):
                n = st.visits.get(vk, 0)
            else:
                n = st.visits.get(vk, 0) + 1
            st.visits[vk] = n
            st.visit_mark[vk] = len(st.pc)
            if n > self.max_visits + (st.bonus if self.free_constant_loops else 0):
                return self._finish(st, "cut", done)
            bb = fn.blocks[bbi]
            for s in bb["stmts"]:
                self._stmt(st, fr, s)
            t = bb["term"]
            k = t["k"]
            if k == "goto":
                fr["bb"] = t["target"]
                continue
            if k == "drop":
                fr["bb"] = t["target"]
                continue
            if k == "return":
                rv = self.read(st, ("L", fr["fid"], 0))
                st.frames.pop()
                if not st.frames:
                    st.ret = rv
                    return self._finish(st, "return", done)
                # clean callee locals
                fid = fr["fid"]
                for key in [key for key in st.store if _root_fid(key) == fid]:
                    del st.store[key]
                caller = st.frames[-1]
                if fr["dest"] is not None:
                    self.write(st, fr["dest"], rv)
                if fr.get("cev") is not None:
                    fr["cev"]["result"] = rv
                caller["bb"] = fr["ret_to"]
                continue
            if k == "unreachable":
                return self._finish(st, "unreachable", done)
            if k == "assert":
                cond = self.operand(st, fr, t["cond"])
                exp = TRUE if t["expected"] else FALSE
                msg = t["msg"]
                ev = {"k": "assert", "kind": msg["kind"], "cond": cond, "expected": t["expected"],
                      "fn": fn, "bb": bbi, "line": t.get("line"), "exp": t.get("exp"), "pc": len(st.pc),
                      "depth": len(st.frames) - 1, "op": msg.get("op")}
                for nm in ("len", "index", "a", "b"):
                    if nm in msg and isinstance(msg[nm], dict):
                        ev[nm] = self.operand(st, fr, msg[nm])
                if is_c(cond):
                    ev["static"] = (cond == exp)
                    st.events.append(ev)
                    if cond != exp:
                        return self._finish(st, "panic", done)
                else:
                    ev["static"] = None
                    st.events.append(ev)
                    st.pc.append((cond, t["expected"], "assert"))
                fr["bb"] = t["target"]
                continue
            if k == "switch":
                d = self.operand(st, fr, t["discr"])
                targets = t["targets"]
                if is_c(d):
                    if self.free_constant_loops and st.visits.get(vk, 0) >= 2 and bbi in exit_tests(fn) and not _discr_switch(bb, t):
                        # a loop test re-evaluated on constants (`while shift < u32::BITS`): like an iterator over a constant range, such an
                        # iteration does not use up the loop bound (credited once per iteration, whichever way it is recognised)
                        last, cnt = st.cmark.get(vk, (st.bonus, 0))
                        if last == st.bonus and cnt < 24:       # (bounded: no loop in scope has more than 19 constant iterations)
                            st.bonus += 1
                            cnt += 1
                        st.cmark[vk] = (st.bonus, cnt)
                    nxt = t["otherwise"]
                    for v, b in targets:
                        if v == d[1]:
                            nxt = b
                            break
                    fr["bb"] = nxt
                    continue
                isb = d_is_bool(d, t)
                if d[0] == "b2i":
                    d = d[1]
                    isb = True
                atom, flip = tag_atom(d)
                fact = st.tagfacts.get(atom)
                opts = []
                vals = [v for v, _ in targets]
                for v, b in targets:
                    opts.append((v, b))
                opts.append((None, t["otherwise"]))
                feas = []
                for v, b in opts:
                    if fn.blocks[b]["term"]["k"] == "unreachable" and not fn.blocks[b]["stmts"]:
                        continue
                    av = v
                    if flip and v is not None:
                        av = 1 - v
                    if fact is not None:
                        if isinstance(fact, int):
                            if v is None:
                                if fact in ([1 - x for x in vals] if flip else vals):
                                    continue
                            elif av != fact:
                                continue
                        else:  # ('not', set)
                            if v is not None and av in fact[1]:
                                continue
                    feas.append((v, av, b))
                if not feas:
                    return self._finish(st, "infeasible", done)
                # bool atoms with only a "0" target: otherwise means true
                states = [st] + [st.fork() for _ in feas[1:]]
                for s2, (v, av, b) in zip(states, feas):
                    if v is None:
                        others = set((1 - x) if flip else x for x in vals)
                        boolish = isb or (isinstance(d, tuple) and d and d[0] == "bin" and d[1] in CMP)
                        if isb and others == {0}:
                            s2.tagfacts[atom] = 1
                            s2.pc.append((d, True, "branch"))
                        elif boolish and others in ({0}, {1}):
                            # the discriminant of a lazily conditional Option (`checked_sub`, `get`, ..) is its condition: "not Some" is "false".
                            # `others` is in the atom's value space; the condition d itself is true for atom value 1 unless the atom is flipped
                            only = 1 - next(iter(others))
                            s2.tagfacts[atom] = only
                            s2.pc.append((d, bool(only) != bool(flip), "branch"))
                        elif len(others) == 1 and others <= {0, 1} and _two_variant(atom):
                            # `let Ok(x) = r else { .. }`: the otherwise-arm of a two-variant enum is its other variant
                            only = 1 - next(iter(others))
                            s2.tagfacts[atom] = only
                            # (a boolean view of the tag, `r.is_ok()`, is true for tag 1 unless the atom is flipped)
                            s2.pc.append((d, (bool(only) != bool(flip)) if isb else only, "branch"))
                        else:
                            prev = s2.tagfacts.get(atom)
                            if isinstance(prev, tuple):
                                others |= prev[1]
                            s2.tagfacts[atom] = ("not", frozenset(others))
                            s2.pc.append((d, ("not", tuple(sorted(others))), "branch"))
                    else:
                        s2.tagfacts[atom] = av
                        if isb:
                            s2.pc.append((d, bool(v), "branch"))
                        else:
                            s2.pc.append((d, v, "branch"))
                    s2.frames[-1]["bb"] = b
                for s2 in states[1:]:
                    work.append(s2)
                continue
            if k == "call":
                r = self._call(st, fr, t, work, done)
                if r == "end":
                    return
                continue
            # resume / terminate / other
            return self._finish(st, "other:" + k, done)

    def _stmt(self, st, fr, s):
        k = s["k"]
        if k == "assign":
            p = s["p"]
            v = self.rvalue(st, fr, s["rv"], p["ty"])
            loc = self.place_loc(st, fr, p, "w")
            self.write(st, loc, v)
            if _root_kind(loc) == "P":
                st.events.append({"k": "write", "loc": loc, "val": v, "fn": fr["fn"], "bb": fr["bb"],
                                  "line": s.get("line"), "pc": len(st.pc)})
        elif k == "setdiscr":
            loc = self.place_loc(st, fr, s["p"], "w")
            self.write(st, loc, ("setdiscr", s["vidx"]))
        elif k == "copy_nonoverlapping":
            st.events.append({"k": "intrinsic", "name": "copy_nonoverlapping",
                              "args": [self.operand(st, fr, s[x]) for x in ("src", "dst", "count")],
                              "fn": fr["fn"], "bb": fr["bb"], "pc": len(st.pc)})
        elif k == "assume":
            pass

    def _call(self, st, fr, t, work, done):
        fn = fr["fn"]
        callee = t["callee"]
        sub = fr.get("subst")
        if callee is not None and sub:
            callee = dict(callee)
            callee["args"] = [subst_ty(a, sub) for a in callee["args"]]
            for nm in ("self_ty", "impl_self"):
                if callee.get(nm):
                    callee[nm] = subst_ty(callee[nm], sub)
            if callee.get("resolved"):
                r2 = dict(callee["resolved"])
                r2["args"] = [subst_ty(a, sub) for a in r2["args"]]
                callee["resolved"] = r2
        args = [self.operand(st, fr, a) for a in t["args"]]
        if callee is None and t.get("func") is not None:
            fv = self.operand(st, fr, t["func"])
            while fv[0] == "cast" and isinstance(fv[2], tuple) and fv[2]:
                fv = fv[2]
            if fv[0] == "fn" and len(fv) > 2 and isinstance(fv[2], dict):
                callee = fv[2]          # a function pointer whose value is a known fn item
        arg_tys = None
        if callee is not None and (callee.get("trait") or "").startswith("core::ops::function::Fn") and len(args) == 2:
            # a plain function item passed down as `impl Fn*` / generic F and called there (`encode(data, &mut buf)` with encode = varint_u16):
            # after inlining its value is known, and the call is a direct call of that function
            cv = args[0]
            if cv[0] == "ref":
                cv = self.read(st, cv[1])
            cal = _callable(self, cv)
            tup = args[1]
            if cal is not None and cal[0] == "fn" and tup[0] == "agg" and tup[1] == "tuple":
                f2 = self.facts.fn_by_canon(cal[1].get("canon") or "")
                if f2 is None or f2.argc == len(tup[5]):
                    callee = dict(cal[1])
                    args = list(tup[5])
                    if f2 is not None:
                        arg_tys = [f2.locals[i + 1]["ty"] for i in range(f2.argc)]
        key = callee_key(callee)
        cid = next(st.ids)
        dest = self.place_loc(st, fr, t["dest"], "w")
        ev = {"k": "call", "id": cid, "key": key, "name": callee["name"] if callee else None,
              "callee": callee, "args": args, "fn": fn, "bb": fr["bb"], "line": t.get("line"),
              "exp": t.get("exp"), "pc": len(st.pc), "depth": len(st.frames) - 1, "dest": dest,
              "diverges": t["target"] is None,
              "snap": [self.snapshot(st, a) for a in args]}
        if callee is None:
            ev["func"] = self.operand(st, fr, t["func"])
        st.events.append(ev)
        if t["target"] is None:
            self._finish(st, "diverge", done)
            return "end"
        # 1. models
        m = self.models.get(key)
        if m is not None:
            r = m(self, st, callee, args, ev)
            if r is not NotImplemented:
                ev["modelled"] = True
                ev["result"] = r
                self.write(st, dest, r)
                fr["bb"] = t["target"]
                return None
        # 1b. higher-order std functions whose closure has effects: a synthetic body that calls the closure (no laziness possible)
        sb = self.syn.get(key)
        if sb is not None and len(st.frames) <= self.max_depth:
            sf = sb(self, st, callee, args, ev)
            if sf is not None:
                fid = self._nfid
                self._nfid += 1
                ev["inlined"] = True
                ev["syn"] = True
                for i, a in enumerate(args):
                    st.store[("L", fid, i + 1)] = a
                for i, v in enumerate(getattr(sf, "elem_values", []) or []):
                    st.store[("L", fid, 4 + 3 * i)] = v
                st.frames.append({"fn": sf, "fid": fid, "bb": 0, "dest": dest, "ret_to": t["target"], "cev": ev, "subst": dict(fr.get("subst") or {})})
                return None
        # 2. inlining of local functions
        target_fn = None
        late_subst = None
        if callee is not None:
            res = callee.get("resolved")
            cands = []
            if res and res.get("kind") == "item":
                cands.append((res["canon"], res["args"]))
            if not callee.get("trait") or callee.get("syn_inline"):
                # a trait method that could not be resolved (generic receiver) must stay a call: the trait's default body is not
                # what an implementor necessarily runs
                cands.append((callee["canon"], callee["args"]))
            targs = None
            for cn, ta in cands:
                f2 = self.facts.fn_by_canon(cn)
                if f2 is not None:
                    target_fn = f2
                    targs = ta
                    break
        if target_fn is None and callee is not None and callee.get("trait") and callee.get("self_ty") and self.late_resolve:
            # a method of a local trait on a receiver type that became concrete only through the inlined caller's generic arguments:
            # pick the one impl whose self type matches (rustc could not resolve it in the generic body)
            cands = []
            for f2 in self.facts.impl_methods(callee["trait"], callee["name"]):
                b = {}
                if unify_ty(f2.impl_self, callee["self_ty"], set(getattr(f2, "generics", []) or []), b):
                    cands.append((f2, b))
            if len(cands) == 1 and not any(re.fullmatch(r"[A-Z]\w{0,2}|Self", v) for v in [callee["self_ty"]]):
                target_fn, b = cands[0]
                targs = None
                late_subst = b
        if target_fn is None and callee is not None and (callee.get("trait") or "").startswith("core::ops::function::Fn") and args:
            # a closure passed down as `impl Fn*` / generic F and called there: after inlining, its value is known
            cv = args[0]
            if cv[0] == "ref":
                cv = self.read(st, cv[1])
            cf = _closure_fn(self, cv)
            if cf is not None:
                target_fn = cf
                targs = None
                callee = dict(callee, syn_inline=True)
            else:
                cal = _callable(self, cv)
                if cal is not None and cal[0] == "ctor" and len(args) == 2:
                    # a tuple-struct / variant constructor passed as a function value (`.map(Wrapper)`, `f(x)` with f = Wrapper)
                    tup = args[1]
                    parts = list(tup[5]) if tup[0] == "agg" and tup[1] == "tuple" else None
                    cobj = cal[1]
                    nm = cobj.get("name")
                    known = {"Some": ("core::option::Option", 1), "Ok": ("core::result::Result", 0), "Err": ("core::result::Result", 1)}
                    if parts is not None:
                        if nm in known and cobj.get("krate") == "core":
                            val = ("agg", "adt", known[nm][0], nm, tuple(str(i) for i in range(len(parts))), tuple(parts), known[nm][1])
                        else:
                            parent = (cobj.get("canon") or "").rsplit("::{constructor", 1)[0]
                            val = ("agg", "adt", parent.split("::", 1)[-1] if "::" in parent else parent, nm,
                                   tuple(str(i) for i in range(len(parts))), tuple(parts), 0)
                        ev["modelled"] = True
                        ev["result"] = val
                        self.write(st, dest, val)
                        fr["bb"] = t["target"]
                        return None
        if target_fn is not None and len(st.frames) <= self.max_depth and (self.inline(target_fn, ev) or callee.get("syn_inline")) \
                and (not any(f0["fn"] is target_fn for f0 in st.frames)
                     or (self.unfold is not None and sum(1 for f0 in st.frames if f0["fn"] is target_fn) == 1 and self.unfold(target_fn, ev, st))):
            fid = self._nfid
            self._nfid += 1
            ev["inlined"] = True
            cargs = list(args)
            if (callee.get("trait") or "").startswith("core::ops::function::Fn") and "{closure" in target_fn.canon and len(args) == 2:
                # `f(a, b)` is `Fn::call(&f, (a, b))`: the closure body takes the environment and then the arguments one by one
                tup = args[1]
                if tup[0] == "agg" and tup[1] == "tuple" and len(tup[5]) == target_fn.argc - 1:
                    parts = list(tup[5])
                else:
                    parts = [proj_field(tup, str(i)) for i in range(target_fn.argc - 1)]
                env = args[0]
                ety = target_fn.locals[1]["ty"] if target_fn.argc >= 1 else ""
                if not ety.startswith("&") and env[0] == "ref":
                    env = self.read(st, env[1])          # FnOnce shim: by-value environment
                cargs = [env] + parts
            for i, a in enumerate(cargs):
                st.store[("L", fid, i + 1)] = a
            nsub = {}
            gen = getattr(target_fn, "generics", []) or []
            if targs is not None and len(gen) != len(targs):
                g2 = [g for g in gen if not g.startswith("'")]
                t2 = [a for a in targs if not a.startswith("'")]
                if len(g2) == len(t2):
                    gen, targs = g2, t2
            if targs is not None and len(gen) == len(targs):
                nsub = dict(zip(gen, targs))
            if not nsub and "{closure" in target_fn.canon:
                nsub = dict(fr.get("subst") or {})       # a closure shares the generic parameters of the function that wrote it
            if late_subst:
                nsub = dict(late_subst)
            st.frames.append({"fn": target_fn, "fid": fid, "bb": 0, "dest": dest, "ret_to": t["target"],
                              "cev": ev, "subst": nsub})
            return None
        # 3. opaque
        retty = t["dest"]["ty"]
        r = ("call", cid, key, tuple(args), retty)
        ev["result"] = r
        # havoc memory reachable through &mut / *mut arguments
        if callee is not None and not (callee["name"] in NO_WRITE_NAMES and (callee.get("def") or "").startswith(("core::", "std::", "alloc::"))):
            for i_, (a, ja) in enumerate(zip(args, t["args"] if arg_tys is None else args)):
                aty = _operand_ty(fn, ja) if arg_tys is None else arg_tys[i_]
                if aty.startswith("&mut") or aty.startswith("*mut"):
                    if a[0] == "ref":
                        self.havoc(st, a[1], cid)
                    elif a[0] not in ("c", "unit"):
                        self.havoc(st, ("P", a), cid)
        self.write(st, dest, r)
        fr["bb"] = t["target"]
        return None

    def snapshot(self, st, a):
        """value behind a reference argument at call time (for slices/arrays of bytes)"""
        if isinstance(a, tuple) and a and a[0] == "ref":
            loc = a[1]
            if loc[0] == "S":
                base, lo, hi = loc[1], loc[2], loc[3]
                if is_c(lo) and is_c(hi) and hi[1] - lo[1] <= 64:
                    return ("agg", "array", None, None, None,
                            tuple(self.read(st, ("I", base, C(i, "usize"))) for i in range(lo[1], hi[1])))
                return ("slice", loc)
            return self.read(st, loc)
        if isinstance(a, tuple) and a and a[0] == "pref":
            return a[1]
        return None


# std functions that take `&mut`/`*mut` but do not write through it (they only derive another pointer/reference)
NO_WRITE_NAMES = {"as_mut_ptr", "split_at_mut", "index_mut", "iter_mut", "as_mut", "deref_mut", "get_mut", "borrow_mut", "from_raw_parts_mut",
                  "as_mut_slice", "add", "sub", "offset", "cast", "as_ptr", "split_first_mut", "first_mut", "last_mut", "get_unchecked_mut"}


class _PseudoFn:
    def __init__(self, fn, body, idx):
        self.def_ = fn.def_ + "::promoted[%d]" % idx
        self.canon = fn.canon + "::promoted[%d]" % idx
        self.name = "promoted"
        self.blocks = body["blocks"]
        self.locals = body["locals"]
        self.argc = body["arg_count"]
        self.promoted = []
        self.file = fn.file
        self.line = fn.line
        self.crate = fn.crate
        self.impl_trait = None
        self.impl_self = None


def _store_state(store):
    s = State()
    s.store = store
    return s


def _operand_ty(fn, ja):
    if ja["k"] in ("copy", "move"):
        return ja["p"]["ty"]
    return ja.get("ty", "")


def _array_len(ty):
    # "&[u8; 4]" / "&mut [u8; 3]" / "*const [T; N]"
    if "; " in ty and ty.rstrip().endswith("]"):
        n = ty.rsplit("; ", 1)[1][:-1]
        if n.isdigit():
            return int(n)
    return None


def _root_kind(loc):
    while loc[0] in ("F", "I", "D", "S", "A1"):
        loc = loc[1]
    return loc[0]


def _root_fid(loc):
    while loc[0] in ("F", "I", "D", "S", "A1"):
        loc = loc[1]
    if loc[0] == "L":
        return loc[1]
    return None


def _is_child(k, loc):
    while k[0] in ("F", "I", "D", "S"):
        k = k[1]
        if k == loc:
            return True
    return False


def _depth(k):
    n = 0
    while k[0] in ("F", "I", "D", "S"):
        k = k[1]
        n += 1
    return n


def _relpath(k, loc):
    path = []
    while k != loc:
        path.append(k)
        k = k[1]
    return tuple(reversed(path))


def _fupdate(v, path, x):
    """functional update of aggregate value v along path (tuple of locs from shallow to deep)"""
    if not path:
        return x
    step = path[0]
    k = step[0]
    if v[0] == "agg":
        if k == "F" and v[4] is not None and step[2] in v[4]:
            i = v[4].index(step[2])
            sub = _fupdate(v[5][i], path[1:], x)
            if sub is None:
                return None
            ops = v[5][:i] + (sub,) + v[5][i + 1:]
            return v[:5] + (ops,) + v[6:]
        if k == "I" and v[1] == "array" and is_c(step[2]) and step[2][1] < len(v[5]):
            i = step[2][1]
            sub = _fupdate(v[5][i], path[1:], x)
            if sub is None:
                return None
            ops = v[5][:i] + (sub,) + v[5][i + 1:]
            return v[:5] + (ops,) + v[6:]
        if k == "D":
            return _fupdate(v, path[1:], x)
    return None


def _names(path):
    out = []
    for step in path:
        if step[0] == "F":
            out.append(step[2])
        elif step[0] == "D":
            out.append("as " + step[2])
        elif step[0] == "I":
            out.append("[%s]" % (step[2][1] if is_c(step[2]) else "?"))
        else:
            out.append("?")
    return tuple(out)


def proj_field(pv, name):
    k = pv[0]
    if k == "upd":
        exact = [x for pth, x in pv[2] if pth == (name,)]
        if exact:
            return exact[-1]
        deeper = tuple((pth[1:], x) for pth, x in pv[2] if pth and pth[0] == name)
        inner = proj_field(pv[1], name)
        return ("upd", inner, deeper) if deeper else inner
    if k == "agg" and pv[4] is not None:
        if name in pv[4]:
            return pv[5][pv[4].index(name)]
        return unknown("field %s of %r" % (name, pv[1:4]))
    if k == "init":
        return ("init", ("F", pv[1], name))
    if k == "downv":
        base, variant = pv[1], pv[2]
        return payload(base, variant, name)
    return ("getf", pv, name)


def proj_down(pv, variant):
    if pv[0] == "agg":
        return pv
    if pv[0] == "init":
        return ("init", ("D", pv[1], variant))
    return ("downv", pv, variant)


def payload(base, variant, name):
    """payload field `name` of `base` viewed as `variant`"""
    k = base[0]
    if variant == "Continue" and k == "try" and name == "0":
        return ok_payload(base[1])
    if variant == "Break" and k == "try" and name == "0":
        return ("residual", base[1])
    if variant == "Ok" and name == "0":
        return ok_payload(base)
    if variant == "Err" and name == "0":
        return err_payload(base)
    if variant == "Some" and name == "0":
        return some_payload(base)
    return ("pay", base, variant, name)


def ok_payload(r):
    k = r[0]
    if k == "agg" and r[3] == "Ok":
        return r[5][0]
    if k == "map_err":
        return ok_payload(r[1])
    if k == "map_ok":
        return r[2]
    if k == "ok_or":
        return some_payload(r[1])
    return ("okval", r)


def err_payload(r):
    k = r[0]
    if k == "agg" and r[3] == "Err":
        return r[5][0]
    if k == "map_err":
        return ("closure_result", r[2], err_payload(r[1]))
    if k == "ok_or":
        return r[2]
    if k == "map_ok":
        return err_payload(r[1])
    if k == "err_from":
        return ("from", err_payload(r[1]))
    return ("errval", r)


def some_payload(o):
    if o[0] == "agg" and o[3] == "Some":
        return o[5][0]
    if o[0] == "optif":
        return o[2]
    return ("someval", o)


def _frp(t):
    """(ptr, n) when t is a slice built by from_raw_parts(_mut)(ptr, n)"""
    if isinstance(t, tuple) and t and t[0] == "call" and (t[2] or "").endswith(("slice::from_raw_parts", "slice::from_raw_parts_mut", "ptr::slice_from_raw_parts",
                                                                                 "ptr::slice_from_raw_parts_mut")) and len(t[3]) == 2:
        return t[3][0], t[3][1]
    return None


def mk_len(a):
    """length of the slice/str a reference points to"""
    while isinstance(a, tuple) and a and a[0] == "ref" and a[1][0] == "P":
        a = a[1][1]
    fr_ = _frp(a)
    if fr_ is not None:
        return fr_[1]
    if a[0] == "ref":
        loc = a[1]
        if loc[0] == "S":
            return mk_bin("Sub", loc[3], loc[2], "usize")
    if a[0] == "str":
        return C(len(a[1].encode()), "usize")
    if a[0] == "bytes":
        return C(len(a[1]), "usize")
    if a[0] == "pref" and a[1][0] == "agg" and a[1][1] == "array":
        return C(len(a[1][5]), "usize")
    if a[0] == "call" and a[2] in ("core::str::<impl str>::as_bytes", "std::str::<impl str>::as_bytes"):
        return mk_len(a[3][0])
    return ("len", a)


def discr_of(v, ty="isize"):
    k = v[0]
    if k == "agg" and v[1] == "adt":
        return C(v[6], ty if ty in INT_BITS else "isize")
    if k == "try":
        return discr_of_result(v[1], ty)
    if k in ("map_err", "err_from", "ok_or", "map_ok"):
        return discr_of_result(v, ty)
    if k == "optif":
        return ("b2i", v[1])
    return ("tag", v)


def discr_of_result(r, ty):
    k = r[0]
    if k == "agg" and r[1] == "adt":
        return C(r[6], ty if ty in INT_BITS else "isize")
    if k in ("map_err", "map_ok"):
        return discr_of_result(r[1], ty)
    if k == "err_from":
        return C(1, ty if ty in INT_BITS else "isize")
    if k == "ok_or":
        inner = discr_of(r[1], ty)
        if is_c(inner):
            return C(1 - inner[1], inner[2])
        return ("tagflip", inner)
    return ("tag", r)


def tag_atom(d):
    """canonical atom for a switch discriminant + whether its 0/1 numbering is flipped"""
    if d[0] == "tagflip":
        a, f = tag_atom(d[1])
        return a, not f
    if d[0] == "un" and d[1] == "Not":
        a, f = tag_atom(d[2])
        return a, not f
    return d, False


def d_is_bool(d, t):
    return t.get("dty") == "bool"


# ---- models of std plumbing ------------------------------------------------------------------

def _m_identity(eng, st, callee, args, ev):
    return args[0]


def _m_into_iter(eng, st, callee, args, ev):
    a = args[0]
    if a[0] == "agg" and a[1] == "adt" and a[2] and a[2].endswith(("::Range", "::RangeInclusive", "slice::iter::Iter", "array::iter::IntoIter", "enumerate::Enumerate")):
        return a        # an iterator is its own IntoIterator
    if a[0] == "agg" and a[1] == "array":
        # by-value array iterator: elements in index order
        return ("agg", "adt", "core::array::iter::IntoIter", "IntoIter", ("elems", "pos"), (a, C(0, "usize")), 0)
    sty = callee.get("self_ty") or ""
    if sty.startswith("&[") or sty.startswith("&'") and "[" in sty and not sty.startswith("&mut"):
        # <&[T] as IntoIterator>::into_iter(x) is x.iter()
        return ("call", ev["id"], "core::slice::<impl [T]>::iter", (a,), "std::slice::Iter<'_, T>")
    return NotImplemented


def _m_range_incl_new(eng, st, callee, args, ev):
    return ("agg", "adt", "core::ops::range::RangeInclusive", "RangeInclusive", ("start", "end", "exhausted"), (args[0], args[1], FALSE), 0)


def _m_range_next(eng, st, callee, args, ev):
    r = args[0]
    if r[0] != "ref":
        return NotImplemented
    v = eng.read(st, r[1])
    if v[0] == "agg" and v[1] == "adt" and v[2] and v[2].endswith("ops::range::RangeInclusive"):
        s, e, ex = v[5][0], v[5][1], v[5][2]
        if is_c(s) and is_c(e) and is_c(ex):
            if ex[1] or s[1] > e[1]:
                return ("agg", "adt", "core::option::Option", "None", (), (), 0)
            if s[1] < e[1]:
                eng.write(st, r[1], v[:5] + ((C(s[1] + 1, s[2]), e, FALSE),) + v[6:])
            else:
                eng.write(st, r[1], v[:5] + ((s, e, TRUE),) + v[6:])
            st.bonus += 1        # an iteration whose existence is decided by constants does not use up the loop bound
            return ("agg", "adt", "core::option::Option", "Some", ("0",), (s,), 1)
    if v[0] == "agg" and v[1] == "adt" and v[2] == "core::array::iter::IntoIter":
        arr, pos = v[5][0], v[5][1]
        if is_c(pos) and arr[0] == "agg":
            if pos[1] < len(arr[5]):
                eng.write(st, r[1], v[:5] + ((arr, C(pos[1] + 1, "usize")),) + v[6:])
                st.bonus += 1
                return ("agg", "adt", "core::option::Option", "Some", ("0",), (arr[5][pos[1]],), 1)
            return ("agg", "adt", "core::option::Option", "None", (), (), 0)
    if v[0] == "agg" and v[1] == "adt" and v[2] and v[2].endswith("ops::range::Range"):
        s, e = v[5][0], v[5][1]
        if is_c(s) and is_c(e):
            if s[1] < e[1]:
                eng.write(st, r[1], v[:5] + ((C(s[1] + 1, s[2]), e),) + v[6:])
                st.bonus += 1
                return ("agg", "adt", "core::option::Option", "Some", ("0",), (s,), 1)
            return ("agg", "adt", "core::option::Option", "None", (), (), 0)
    return NotImplemented


SIZES = {"u8": 1, "i8": 1, "bool": 1, "u16": 2, "i16": 2, "u32": 4, "i32": 4, "char": 4, "f32": 4,
         "u64": 8, "i64": 8, "f64": 8, "usize": 8, "isize": 8, "u128": 16, "i128": 16}


def _m_size_of(eng, st, callee, args, ev):
    a = callee["args"]
    if a and a[0] in SIZES:
        return C(SIZES[a[0]], "usize")
    return NotImplemented


def _int_self(callee):
    s = callee.get("impl_self")
    return s if s in INT_BITS else None


def _m_to_le_bytes(eng, st, callee, args, ev, be=False):
    ty = _int_self(callee)
    if ty is None:
        return NotImplemented
    n = INT_BITS[ty] // 8
    x = args[0]
    if x[0] == "from_bytes" and x[2] == ty and x[3][0] == "agg" and x[3][1] == "array" and len(x[3][5]) == n:
        # bytes of an integer that was assembled from bytes: the same bytes, reversed when the two byte orders differ
        el = x[3][5] if (x[1] == "be") == be else tuple(reversed(x[3][5]))
        return ("agg", "array", None, None, None, tuple(el))
    elems = []
    for k in range(n):
        sh = mk_bin("Shr", x, C(8 * k, "u32"), ty) if k else x
        elems.append(mk_cast("IntToInt", sh, ty, "u8"))
    if be:
        elems.reverse()
    return ("agg", "array", None, None, None, tuple(elems))


def _m_to_be_bytes(eng, st, callee, args, ev):
    return _m_to_le_bytes(eng, st, callee, args, ev, be=True)


def _bytes_source(arr):
    """(order, x, ty) when the array value is exactly x.to_le_bytes() / x.to_be_bytes() for an integer term x"""
    if not (arr[0] == "agg" and arr[1] == "array" and arr[5]):
        return None
    n = len(arr[5])
    if n == 1:
        return "le", arr[5][0], "u8"
    for order in ("le", "be"):
        els = arr[5] if order == "le" else tuple(reversed(arr[5]))
        e0 = els[0]
        if not (e0[0] == "cast" and e0[1] == "IntToInt" and e0[-1] == "u8"):
            continue
        x, ty = e0[2], e0[3]
        if ty not in INT_BITS or INT_BITS[ty] != 8 * n:
            continue
        if all(els[k] == mk_cast("IntToInt", mk_bin("Shr", x, C(8 * k, "u32"), ty), ty, "u8") for k in range(1, n)):
            return order, x, ty
    return None


def _m_int_cmp(eng, st, callee, args, ev):
    """`PartialOrd::lt(&a, &b)` / `PartialEq::eq(&a, &b)` on primitive integers (reached through a generic `T: PartialOrd` helper
    instantiated with an integer type) is the machine comparison"""
    sty = callee.get("self_ty") or (callee.get("args") or [""])[0]
    op = {"lt": "Lt", "le": "Le", "gt": "Gt", "ge": "Ge", "eq": "Eq", "ne": "Ne"}.get(callee.get("name"))
    if op is None or sty not in INT_BITS or len(args) != 2:
        return NotImplemented
    vals = [eng.read(st, a[1]) if a[0] == "ref" else a for a in args]
    return mk_bin(op, vals[0], vals[1], sty)


def _m_array_eq(eng, st, callee, args, ev):
    """`x.to_le_bytes() == bytes` on [u8; N] is `x == uN::from_le_bytes(bytes)` (the two are inverse bijections): comparing in the wire
    representation or as integers is the same test"""
    sty = (callee.get("args") or [""])[0]
    if len(args) != 2 or not re.match(r"^\[u8; \d+\]$", sty or ""):
        return _m_int_cmp(eng, st, callee, args, ev)
    vals = []
    for a in args:
        vals.append(eng.read(st, a[1]) if a[0] == "ref" else a)
    for i in (0, 1):
        src = _bytes_source(vals[i])
        if src is not None:
            order, x, ty = src
            res = mk_bin("Eq", x, ("from_bytes", order, ty, vals[1 - i]), "bool")
            return mk_un("Not", res, "bool") if callee.get("name") == "ne" else res
    return NotImplemented


def _m_from_le_bytes(eng, st, callee, args, ev, be=False):
    ty = _int_self(callee)
    if ty is None:
        return NotImplemented
    a = args[0]
    if INT_BITS.get(ty) == 8 and a[0] == "agg" and a[1] == "array" and len(a[5]) == 1:
        return mk_cast("IntToInt", a[5][0], "u8", ty)          # one byte: the byte itself, reinterpreted
    return ("from_bytes", "be" if be else "le", ty, a)


def _m_from_be_bytes(eng, st, callee, args, ev):
    return _m_from_le_bytes(eng, st, callee, args, ev, be=True)


def _m_to_ne_bytes(eng, st, callee, args, ev):
    """`x.to_le().to_ne_bytes()` is `x.to_le_bytes()` and `x.to_be().to_ne_bytes()` is `x.to_be_bytes()` on every target (std defines the
    latter by the former).  `to_ne_bytes` of anything else is target-dependent and stays an opaque call."""
    ty = _int_self(callee)
    x = args[0] if args else None
    if ty is None or not (isinstance(x, tuple) and x and x[0] == "call" and len(x[3]) == 1):
        return NotImplemented
    k = x[2] or ""
    if k.endswith("<impl %s>::to_le" % ty):
        return _m_to_le_bytes(eng, st, callee, [x[3][0]], ev)
    if k.endswith("<impl %s>::to_be" % ty):
        return _m_to_le_bytes(eng, st, callee, [x[3][0]], ev, be=True)
    return NotImplemented


def _m_from_le_be(eng, st, callee, args, ev):
    """`uN::from_le(uN::from_ne_bytes(b))` is `uN::from_le_bytes(b)`; same for `from_be` (std's definitions, target-independent)"""
    ty = _int_self(callee)
    x = args[0] if args else None
    if ty is None or not (isinstance(x, tuple) and x and x[0] == "call" and len(x[3]) == 1 and (x[2] or "").endswith("<impl %s>::from_ne_bytes" % ty)):
        return NotImplemented
    return ("from_bytes", "le" if callee.get("name") == "from_le" else "be", ty, x[3][0])


def _m_swap_bytes(eng, st, callee, args, ev):
    ty = _int_self(callee)
    if ty is None:
        return NotImplemented
    x = args[0]
    if x[0] == "from_bytes" and x[2] == ty:
        return ("from_bytes", "le" if x[1] == "be" else "be", ty, x[3])
    le = _m_to_le_bytes(eng, st, callee, [x], ev)
    return ("from_bytes", "be", ty, le)      # the integer whose big-endian bytes are x's little-endian bytes


def _m_leading_zeros(eng, st, callee, args, ev):
    ty = _int_self(callee)
    a = args[0]
    if ty is None or not is_c(a):
        return NotImplemented
    bits = INT_BITS[ty]
    return C(bits - a[1].bit_length(), "u32")


def _m_float_to_le_bytes(eng, st, callee, args, ev, be=False):
    ft = callee.get("impl_self")
    it = {"f32": "u32", "f64": "u64"}.get(ft)
    if it is None:
        return NotImplemented
    c2 = dict(callee, impl_self=it)
    return _m_to_le_bytes(eng, st, c2, [("to_bits", args[0])], ev, be=be)


def _m_float_to_be_bytes(eng, st, callee, args, ev):
    return _m_float_to_le_bytes(eng, st, callee, args, ev, be=True)


def _m_float_from_le_bytes(eng, st, callee, args, ev, be=False):
    ft = callee.get("impl_self")
    it = {"f32": "u32", "f64": "u64"}.get(ft)
    if it is None:
        return NotImplemented
    return ("from_bits", ("from_bytes", "be" if be else "le", it, args[0]))


def _m_float_from_be_bytes(eng, st, callee, args, ev):
    return _m_float_from_le_bytes(eng, st, callee, args, ev, be=True)


def _m_to_bits(eng, st, callee, args, ev):
    return ("to_bits", args[0])


def _m_from_bits(eng, st, callee, args, ev):
    a = args[0]
    if a[0] == "to_bits":
        return a[1]
    return ("from_bits", a)


def _is_option_callee(callee):
    s = (callee.get("args") or [""])[0] if callee else ""
    return isinstance(s, str) and re.match(r"^(std|core)::option::Option<", s) is not None


NONE = ("agg", "adt", "core::option::Option", "None", (), (), 0)
NONE_RESIDUAL = ("none_residual",)


def _m_try_branch(eng, st, callee, args, ev):
    if _is_option_callee(callee):
        # `opt?`: continue with the payload iff Some (an Option numbers None = 0, Some = 1; ControlFlow numbers Continue = 0)
        return ("try", ("ok_or", args[0], NONE_RESIDUAL))
    return ("try", args[0])


def _m_from_residual(eng, st, callee, args, ev):
    a = args[0]
    if _is_option_callee(callee):
        return NONE
    if a[0] == "residual":
        return ("err_from", a[1])
    return ("err_from", ("unwrapped_residual", a))


def _m_map_err(eng, st, callee, args, ev):
    return ("map_err", args[0], args[1])


def _m_result_map(eng, st, callee, args, ev):
    """Result::map(r, closure): Ok payload transformed by the (capture-free or not) closure, tag kept."""
    r, c = args[0], args[1]
    canon = None
    if c[0] == "fn" and isinstance(c[2], dict):
        fd = c[2]
        pay = ok_payload(r)
        dk = fd.get("dk") or ""
        if dk.startswith("Ctor"):
            cn = fd.get("canon") or ""
            parent = cn.rsplit("::{constructor", 1)[0]
            adt = eng.facts.adt_by_canon(parent) if hasattr(eng.facts, "adt_by_canon") else None
            if dk.startswith("Ctor(Struct"):
                return ("map_ok", r, ("agg", "adt", parent.split("::", 1)[-1] if "::" in parent else parent, fd.get("name"), ("0",), (pay,), 0))
            # enum variant constructor: Option::Some / Result::Ok / Result::Err and local enums
            vname = fd.get("name")
            known = {"Some": ("core::option::Option", 1), "Ok": ("core::result::Result", 0), "Err": ("core::result::Result", 1)}
            if vname in known and (fd.get("krate") == "core"):
                return ("map_ok", r, ("agg", "adt", known[vname][0], vname, ("0",), (pay,), known[vname][1]))
            return NotImplemented
        m = eng.models.get(callee_key(fd))
        if m is not None:
            v = m(eng, st, fd, [pay], ev)
            if v is not NotImplemented:
                return ("map_ok", r, v)
        return NotImplemented
    if c[0] == "agg" and c[1] == "closure":
        canon = c[2]
    elif c[0] == "closure":
        canon = c[1]
    if canon is None:
        return NotImplemented
    f = eng.facts.fn_by_canon(canon)
    if f is None or f.argc != 2:
        return NotImplemented
    sub = Engine(eng.facts, max_visits=1, max_steps=400)
    ps = sub.run(f, [c, ok_payload(r)])
    ps = [p for p in ps if p.status == "return"]
    if len(ps) != 1 or [e for e in ps[0].events if e["k"] == "call" and not e.get("modelled")]:
        return NotImplemented
    return ("map_ok", r, ps[0].ret)


def _tag_test(eng, st, args, want_tag):
    a = args[0]
    v = eng.read(st, a[1]) if a[0] == "ref" else a
    d = discr_of(v)
    if is_c(d):
        return TRUE if d[1] == want_tag else FALSE
    if want_tag == 1:
        return d
    return ("tagflip", d)


def _m_is_some(eng, st, callee, args, ev):
    return _tag_test(eng, st, args, 1)


def _m_is_none(eng, st, callee, args, ev):
    return _tag_test(eng, st, args, 0)


def _m_is_ok(eng, st, callee, args, ev):
    return _tag_test(eng, st, args, 0)


def _m_is_err(eng, st, callee, args, ev):
    return _tag_test(eng, st, args, 1)


def _m_ok_or(eng, st, callee, args, ev):
    return ("ok_or", args[0], args[1])


def _m_len(eng, st, callee, args, ev):
    return mk_len(args[0])


def _m_is_empty(eng, st, callee, args, ev):
    return mk_bin("Eq", mk_len(args[0]), C(0, "usize"), "usize")


def _m_index(eng, st, callee, args, ev):
    """Index/IndexMut of arrays and slices by range types: result is a sub-slice reference."""
    base = args[0]
    rng = args[1]
    if base[0] != "ref" or rng[0] != "agg" or rng[1] != "adt":
        return NotImplemented
    loc = base[1]
    self_ty = callee.get("self_ty") or ""
    if loc[0] == "S":
        b0, lo0, hi0 = loc[1], loc[2], loc[3]
    else:
        n = _array_len(self_ty)
        if n is None:
            return NotImplemented
        b0, lo0, hi0 = loc, C(0, "usize"), C(n, "usize")
    ln = mk_bin("Sub", hi0, lo0, "usize")
    nm = (rng[2] or "").split("::")[-1]
    f = dict(zip(rng[4], rng[5]))
    if nm == "RangeFull":
        lo, hi = C(0, "usize"), ln
    elif nm == "RangeTo":
        lo, hi = C(0, "usize"), f["end"]
    elif nm == "RangeToInclusive":
        lo, hi = C(0, "usize"), mk_bin("Add", f["end"], C(1, "usize"), "usize")
    elif nm == "RangeFrom":
        lo, hi = f["start"], ln
    elif nm == "Range":
        lo, hi = f["start"], f["end"]
    else:
        return NotImplemented
    ev["range"] = {"lo": lo, "hi": hi, "len": ln, "kind": nm}
    return ("ref", ("S", b0, mk_bin("Add", lo0, lo, "usize"), mk_bin("Add", lo0, hi, "usize")))


def _m_copy_from_slice(eng, st, callee, args, ev):
    d, s_ = args[0], args[1]
    if d[0] != "ref" or d[1][0] != "S":
        return NotImplemented
    base, lo, hi = d[1][1], d[1][2], d[1][3]
    if not (is_c(lo) and is_c(hi)) or hi[1] - lo[1] > 64:
        return NotImplemented
    n = hi[1] - lo[1]
    if s_[0] == "ref":
        sloc = s_[1]
    else:
        sloc = ("P", s_)
    ev["copy"] = {"dst_len": C(n, "usize"), "src_len": mk_len(s_)}
    for i in range(n):
        eng.write(st, ("I", base, C(lo[1] + i, "usize")), eng.read(st, eng._index_loc(sloc, C(i, "usize"))))
    return UNIT


# ---- synthetic bodies for higher-order std functions ----------------------------------------------------------------------------

class SynFn:
    """a small MIR body written by the analyser: the documented behaviour of a std higher-order function, calling the closure it is given"""

    def __init__(self, name, argc, nlocals, blocks, like):
        self.def_ = "<std model>::" + name
        self.canon = "<std model>::" + name
        self.name = name
        self.blocks = blocks
        self.locals = [{"ty": "?", "name": None, "mut": True} for _ in range(nlocals)]
        self.argc = argc
        self.promoted = []
        self.file = like.file
        self.line = like.line
        self.crate = "<std model>"
        self.impl_trait = None
        self.impl_self = None
        self.generics = []

    def where(self):
        return "%s:%s" % (self.file, self.line)


def _P(local, proj=(), ty="?"):
    return {"local": local, "proj": list(proj), "ty": ty}


def _mv(local, proj=(), ty="?"):
    return {"k": "move", "p": _P(local, proj, ty)}


def _assign(local, rv):
    return {"k": "assign", "p": _P(local), "rv": rv}


def _bb(stmts, term):
    return {"cleanup": False, "stmts": stmts, "term": term}


def _variant(adt, variant, vidx, ops):
    return {"k": "agg", "ak": "adt", "adt": adt, "variant": variant, "fields": [str(i) for i in range(len(ops))], "vidx": vidx, "ops": ops}


def _closure_fn(eng, clo):
    canon = clo[2] if clo[0] == "agg" and clo[1] == "closure" else (clo[1] if clo[0] == "closure" else None)
    return eng.facts.fn_by_canon(canon) if canon else None


def _closure_call(cf, env_local, env_ref_local, arg_operands, dest, target, stmts):
    """terminator calling closure body cf; env passed by value or by reference according to the body's signature"""
    ety = cf.locals[1]["ty"] if cf.argc >= 1 else ""
    if ety.startswith("&"):
        stmts.append(_assign(env_ref_local, {"k": "ref", "mut": ety.startswith("&mut"), "p": _P(env_local)}))
        env_op = _mv(env_ref_local, ty=ety)
    else:
        env_op = _mv(env_local, ty=ety)
    callee = {"def": cf.canon, "canon": cf.canon, "full": cf.canon, "krate": cf.crate, "name": "call", "args": [], "dk": "Closure", "unsafe": False,
              "syn_inline": True}
    return {"k": "call", "callee": callee, "args": [env_op] + arg_operands, "dest": _P(dest, ty=cf.locals[0]["ty"]), "target": target, "unwind": None,
            "line": None, "exp": True}


def _has_effects(eng, cf, F=None, depth=0):
    """does the closure body call anything that is not a model or write through a pointer? (cheap syntactic scan of its MIR; a call of a
    small private function of the analysed crates is followed: `|&b| is_sentinel(b)` has no more effects than `is_sentinel`)"""
    F = F or getattr(eng, "facts", None)
    for bb in cf.blocks:
        t = bb["term"]
        if t["k"] == "call":
            c = t.get("callee")
            if c is None:
                return True
            k = callee_key(c)
            if k in eng.models or k in eng.syn:
                continue
            g = F.fn_by_canon((c.get("resolved") or {}).get("canon") or c.get("canon") or "") if F is not None else None
            if g is not None and depth < 3 and g is not cf and g.blocks and len(g.blocks) <= 16 and not _has_effects(eng, g, F, depth + 1):
                continue
            return True
        for s in bb["stmts"]:
            if s["k"] == "assign" and any(pe["k"] == "deref" for pe in s["p"]["proj"]):
                return True
    return False


def _syn_result_map(eng, st, callee, args, ev, adt="core::result::Result", ok="Ok", okidx=0, other="Err", otheridx=1):
    if len(args) != 2:
        return None
    cf = _closure_fn(eng, args[1])
    if cf is None or cf.argc != 2 or not _has_effects(eng, cf):
        return None
    # locals: 0 ret, 1 r, 2 closure, 3 discr, 4 env ref, 5 closure result
    b1s = []
    blocks = [
        _bb([_assign(3, {"k": "discr", "p": _P(1)})], {"k": "switch", "discr": _mv(3), "targets": [[okidx, 1]], "otherwise": 3, "dty": "isize"}),
        None,
        _bb([_assign(0, _variant(adt, ok, okidx, [_mv(5)]))], {"k": "return"}),
        _bb([_assign(0, {"k": "use", "op": _mv(1)})], {"k": "return"}),
    ]
    blocks[1] = _bb(b1s, _closure_call(cf, 2, 4, [_mv(1, [{"k": "downcast", "name": ok}, {"k": "field", "name": "0"}])], 5, 2, b1s))
    return SynFn("map", 2, 6, blocks, st.frames[-1]["fn"])


def _syn_option_map(eng, st, callee, args, ev):
    return _syn_result_map(eng, st, callee, args, ev, adt="core::option::Option", ok="Some", okidx=1, other="None", otheridx=0)


def _known_elems(eng, st, it):
    """element references of an iterator value over a slice/array of known length (<= 32), else None"""
    v = it
    if v[0] == "ref":
        v = eng.read(st, v[1])
    if v[0] == "call" and (v[2] or "").endswith(("<impl [T]>::iter", "<impl [T]>::iter_mut")) and v[3]:
        sp = slice_parts(eng, st, v[3][0])
        if sp is None:
            return None
        b0, lo, hi = sp
        if is_c(lo) and is_c(hi) and 0 <= hi[1] - lo[1] <= 32:
            return [("ref", ("I", b0, C(i, "usize"))) for i in range(lo[1], hi[1])]
    if v[0] == "agg" and v[1] == "adt" and v[2] == "core::array::iter::IntoIter":
        arr, pos = v[5][0], v[5][1]
        if is_c(pos) and arr[0] == "agg" and len(arr[5]) <= 32:
            return [x for x in arr[5][pos[1]:]]
    return None


def _syn_try_for_each(eng, st, callee, args, ev):
    """Iterator::try_for_each over a known, short element list: call the closure on each element, stop at the first Err"""
    if len(args) != 2:
        return None
    cf = _closure_fn(eng, args[1])
    elems = _known_elems(eng, st, args[0])
    if cf is None or cf.argc != 2:
        return None
    if elems is None:
        # unknown length: the documented loop  `loop { match it.next() { None => return Ok(()), Some(x) => f(x)? } }`  (explored up to the
        # engine's loop bound, exactly like a `for` loop written in the source)
        sty = callee.get("self_ty") or (callee.get("args") or ["?"])[0]
        nxt = {"def": "std::iter::Iterator::next", "canon": "core::iter::traits::iterator::Iterator::next", "full": "Iterator::next", "krate": "core",
               "name": "next", "args": [sty], "dk": "AssocFn", "unsafe": False, "trait": "core::iter::traits::iterator::Iterator", "self_ty": sty}
        # locals: 0 ret, 1 &mut iter, 2 closure, 3 env ref, 4 next result, 5 discr, 6 closure result, 7 discr
        st6 = []
        blocks = [
            _bb([], {"k": "call", "callee": nxt, "args": [{"k": "copy", "p": _P(1, ty="&mut " + sty)}], "dest": _P(4, ty="std::option::Option<&u8>"), "target": 1,
                     "unwind": None, "line": None, "exp": True}),
            _bb([_assign(5, {"k": "discr", "p": _P(4)})], {"k": "switch", "discr": _mv(5), "targets": [[0, 4], [1, 2]], "otherwise": 6, "dty": "isize"}),
            None,
            _bb([_assign(7, {"k": "discr", "p": _P(6)})], {"k": "switch", "discr": _mv(7), "targets": [[0, 0]], "otherwise": 5, "dty": "isize"}),
            _bb([_assign(0, _variant("core::result::Result", "Ok", 0, [{"k": "const", "ty": "()", "zst": True}]))], {"k": "return"}),
            _bb([_assign(0, {"k": "use", "op": _mv(6)})], {"k": "return"}),
            _bb([], {"k": "unreachable"}),
        ]
        blocks[2] = _bb(st6, _closure_call(cf, 2, 3, [_mv(4, [{"k": "downcast", "name": "Some"}, {"k": "field", "name": "0"}])], 6, 3, st6))
        return SynFn("try_for_each", 2, 8, blocks, st.frames[-1]["fn"])
    n = len(elems)
    # locals: 0 ret, 1 iter, 2 closure, 3 env ref, 4.. per element: value, result, discr
    fid_locals = 4 + 3 * n
    blocks = []
    for i in range(n):
        vl, rl, dl = 4 + 3 * i, 5 + 3 * i, 6 + 3 * i
        stm = []
        call = _closure_call(cf, 2, 3, [_mv(vl)], rl, 3 * i + 1, stm)
        blocks.append(_bb(stm, call))
        blocks.append(_bb([_assign(dl, {"k": "discr", "p": _P(rl)})],
                          {"k": "switch", "discr": _mv(dl), "targets": [[0, 3 * i + 3]], "otherwise": 3 * i + 2, "dty": "isize"}))
        blocks.append(_bb([_assign(0, {"k": "use", "op": _mv(rl)})], {"k": "return"}))
    blocks.append(_bb([_assign(0, _variant("core::result::Result", "Ok", 0, [{"k": "const", "ty": "()", "zst": True}]))], {"k": "return"}))
    sf = SynFn("try_for_each", 2, fid_locals, blocks, st.frames[-1]["fn"])
    sf.elem_values = elems
    return sf


def _syn_for_each(eng, st, callee, args, ev):
    """Iterator::for_each(iter, f): the documented loop  `while let Some(x) = iter.next() { f(x) }`  (explored up to the engine's loop bound,
    exactly like a `for` loop written in the source)"""
    if len(args) != 2:
        return None
    cf = _closure_fn(eng, args[1])
    if cf is None or cf.argc != 2:
        return None
    sty = callee.get("self_ty") or (callee.get("args") or ["?"])[0]
    nxt = {"def": "std::iter::Iterator::next", "canon": "core::iter::traits::iterator::Iterator::next", "full": "Iterator::next", "krate": "core",
           "name": "next", "args": [sty], "dk": "AssocFn", "unsafe": False, "trait": "core::iter::traits::iterator::Iterator", "self_ty": sty}
    # locals: 0 ret, 1 iter (by value), 2 closure, 3 env ref, 4 next result, 5 discr, 6 closure result, 7 &mut iter
    st2 = []
    blocks = [
        _bb([_assign(7, {"k": "ref", "mut": True, "p": _P(1, ty=sty)})],
            {"k": "call", "callee": nxt, "args": [{"k": "move", "p": _P(7, ty="&mut " + sty)}], "dest": _P(4, ty="std::option::Option<&u8>"), "target": 1,
             "unwind": None, "line": None, "exp": True}),
        _bb([_assign(5, {"k": "discr", "p": _P(4)})], {"k": "switch", "discr": _mv(5), "targets": [[0, 3], [1, 2]], "otherwise": 4, "dty": "isize"}),
        None,
        _bb([_assign(0, {"k": "use", "op": {"k": "const", "ty": "()", "zst": True}})], {"k": "return"}),
        _bb([], {"k": "unreachable"}),
    ]
    blocks[2] = _bb(st2, _closure_call(cf, 2, 3, [_mv(4, [{"k": "downcast", "name": "Some"}, {"k": "field", "name": "0"}])], 6, 0, st2))
    return SynFn("for_each", 2, 8, blocks, st.frames[-1]["fn"])


# ---- Result / Option combinators as synthetic bodies (eager case split at the combinator) ------------------------------------------

RES, OPT = "core::result::Result", "core::option::Option"
# arm descriptions: what happens when the receiver has the given variant
#   ("keep",)                      return the receiver unchanged
#   ("wrap", adt, variant, idx, X) return Variant(X)
#   ("val", X)                     return X
#   ("none",)                      return Option::None
# X is  ("pay", variant)  payload 0 of the receiver viewed as `variant`,  ("arg", k) the k-th argument (1-based local),
#       ("call", k, [X...]) the result of calling the function/closure held in argument k on the given values
COMBINATORS = {
    ("R", "map"): {"Ok": ("wrap", RES, "Ok", 0, ("call", 2, [("pay", "Ok")])), "Err": ("keep",)},
    ("R", "map_err"): {"Ok": ("keep",), "Err": ("wrap", RES, "Err", 1, ("call", 2, [("pay", "Err")]))},
    ("R", "and_then"): {"Ok": ("val", ("call", 2, [("pay", "Ok")])), "Err": ("keep",)},
    ("R", "or_else"): {"Ok": ("keep",), "Err": ("val", ("call", 2, [("pay", "Err")]))},
    ("R", "or"): {"Ok": ("keep",), "Err": ("val", ("arg", 2))},
    ("R", "and"): {"Ok": ("val", ("arg", 2)), "Err": ("keep",)},
    ("R", "unwrap_or"): {"Ok": ("val", ("pay", "Ok")), "Err": ("val", ("arg", 2))},
    ("R", "unwrap_or_else"): {"Ok": ("val", ("pay", "Ok")), "Err": ("val", ("call", 2, [("pay", "Err")]))},
    ("R", "map_or"): {"Ok": ("val", ("call", 3, [("pay", "Ok")])), "Err": ("val", ("arg", 2))},
    ("R", "map_or_else"): {"Ok": ("val", ("call", 3, [("pay", "Ok")])), "Err": ("val", ("call", 2, [("pay", "Err")]))},
    ("R", "ok"): {"Ok": ("wrap", OPT, "Some", 1, ("pay", "Ok")), "Err": ("none",)},
    ("R", "err"): {"Ok": ("none",), "Err": ("wrap", OPT, "Some", 1, ("pay", "Err"))},
    ("O", "map"): {"Some": ("wrap", OPT, "Some", 1, ("call", 2, [("pay", "Some")])), "None": ("none",)},
    ("O", "and_then"): {"Some": ("val", ("call", 2, [("pay", "Some")])), "None": ("none",)},
    ("O", "or"): {"Some": ("keep",), "None": ("val", ("arg", 2))},
    ("O", "or_else"): {"Some": ("keep",), "None": ("val", ("call", 2, []))},
    ("O", "unwrap_or"): {"Some": ("val", ("pay", "Some")), "None": ("val", ("arg", 2))},
    ("O", "unwrap_or_else"): {"Some": ("val", ("pay", "Some")), "None": ("val", ("call", 2, []))},
    ("O", "map_or"): {"Some": ("val", ("call", 3, [("pay", "Some")])), "None": ("val", ("arg", 2))},
    ("O", "map_or_else"): {"Some": ("val", ("call", 3, [("pay", "Some")])), "None": ("val", ("call", 2, []))},
    ("O", "ok_or"): {"Some": ("wrap", RES, "Ok", 0, ("pay", "Some")), "None": ("wrap", RES, "Err", 1, ("arg", 2))},
    ("O", "ok_or_else"): {"Some": ("wrap", RES, "Ok", 0, ("pay", "Some")), "None": ("wrap", RES, "Err", 1, ("call", 2, []))},
    ("O", "is_some_and"): {"Some": ("val", ("call", 2, [("pay", "Some")])), "None": ("val", ("bool", 0))},
    ("O", "is_none_or"): {"Some": ("val", ("call", 2, [("pay", "Some")])), "None": ("val", ("bool", 1))},
    ("R", "is_ok_and"): {"Ok": ("val", ("call", 2, [("pay", "Ok")])), "Err": ("val", ("bool", 0))},
    ("R", "is_err_and"): {"Ok": ("val", ("bool", 0)), "Err": ("val", ("call", 2, [("pay", "Err")]))},
    ("B", "then_some"): {"true": ("wrap", OPT, "Some", 1, ("arg", 2)), "false": ("none",)},
    ("B", "then"): {"true": ("wrap", OPT, "Some", 1, ("call", 2, [])), "false": ("none",)},
}
VIDX = {"Ok": 0, "Err": 1, "None": 0, "Some": 1, "true": 1, "false": 0}


def _callable(eng, t):
    """('closure', body fn) | ('fn', dict) | ('ctor', dict) | None for a function-valued term"""
    if not isinstance(t, tuple) or not t:
        return None
    while t[0] == "cast" and isinstance(t[2], tuple) and t[2]:
        t = t[2]            # a fn item reified into a fn pointer is still that function
    if t[0] == "fn" and len(t) > 2 and isinstance(t[2], dict):
        return ("ctor", t[2]) if (t[2].get("dk") or "").startswith("Ctor") else ("fn", t[2])
    cf = _closure_fn(eng, t)
    if cf is not None:
        return ("closure", cf)
    return None


def _syn_combinator(fam, name):
    arms = COMBINATORS[(fam, name)]
    variants = ("Ok", "Err") if fam == "R" else ("true", "false") if fam == "B" else ("Some", "None")

    def build(eng, st, callee, args, ev):
        nargs = len(args)
        # every function-valued argument that an arm calls must be known
        calls = {}
        for spec in arms.values():
            for x in _walk_x(spec):
                if x[0] == "call":
                    c = _callable(eng, args[x[1] - 1]) if x[1] - 1 < nargs else None
                    if c is None:
                        return None
                    calls[x[1]] = c
        nloc = [nargs + 1]

        def fresh():
            nloc[0] += 1
            return nloc[0] - 1
        blocks = [None]
        d = fresh()

        def operand(x, stmts, blocks_out):
            """-> operand for X; may append a call block; returns (operand, entry-continuation handled by caller)"""
            if x[0] == "pay":
                return _mv(1, [{"k": "downcast", "name": x[1]}, {"k": "field", "name": "0"}])
            if x[0] == "arg":
                return _mv(x[1])
            if x[0] == "bool":
                return {"k": "const", "ty": "bool", "int": x[1]}
            raise ValueError(x)

        def arm_blocks(spec):
            """append blocks computing _0 for this arm; return index of the arm's first block"""
            first = len(blocks)
            kind = spec[0]
            if kind == "keep":
                blocks.append(_bb([_assign(0, {"k": "use", "op": _mv(1)})], {"k": "return"}))
                return first
            if kind == "none":
                blocks.append(_bb([_assign(0, {"k": "agg", "ak": "adt", "adt": OPT, "variant": "None", "fields": [], "vidx": 0, "ops": []})], {"k": "return"}))
                return first
            x = spec[-1]
            wrap = (spec[1], spec[2], spec[3]) if kind == "wrap" else None

            def finish(op):
                if wrap:
                    return _assign(0, _variant(wrap[0], wrap[1], wrap[2], [op]))
                return _assign(0, {"k": "use", "op": op})
            if x[0] != "call":
                blocks.append(_bb([finish(operand(x, None, None))], {"k": "return"}))
                return first
            k = x[1]
            ck, cobj = calls[k]
            argops = [operand(a, None, None) for a in x[2]]
            res = fresh()
            if ck == "ctor":
                nm = cobj.get("name")
                known = {"Some": (OPT, 1), "Ok": (RES, 0), "Err": (RES, 1)}
                if nm in known and cobj.get("krate") == "core":
                    rv = _variant(known[nm][0], nm, known[nm][1], argops)
                else:
                    parent = (cobj.get("canon") or "").rsplit("::{constructor", 1)[0]
                    rv = _variant(parent.split("::", 1)[-1] if "::" in parent else parent, nm, 0, argops)
                blocks.append(_bb([_assign(res, rv), finish(_mv(res))], {"k": "return"}))
                return first
            stmts = []
            blocks.append(None)
            nxt = len(blocks)
            if ck == "closure":
                envref = fresh()
                term = _closure_call(cobj, k, envref, argops, res, nxt, stmts)
            else:
                cal = dict(cobj)
                cal["syn_inline"] = True
                term = {"k": "call", "callee": cal, "args": argops, "dest": _P(res), "target": nxt, "unwind": None, "line": None, "exp": True}
            blocks[first] = _bb(stmts, term)
            blocks.append(_bb([finish(_mv(res))], {"k": "return"}))
            return first
        a0 = arm_blocks(arms[variants[0]])
        a1 = arm_blocks(arms[variants[1]])
        unreachable = len(blocks)
        blocks.append(_bb([], {"k": "unreachable"}))
        if fam == "B":
            blocks[0] = _bb([], {"k": "switch", "discr": _mv(1), "targets": [[0, a1]], "otherwise": a0, "dty": "bool"})
        else:
            blocks[0] = _bb([_assign(d, {"k": "discr", "p": _P(1)})],
                            {"k": "switch", "discr": _mv(d), "targets": [[VIDX[variants[0]], a0], [VIDX[variants[1]], a1]], "otherwise": unreachable, "dty": "isize"})
        return SynFn(name, nargs, nloc[0] + 1, blocks, st.frames[-1]["fn"])
    return build


def _walk_x(spec):
    for el in spec:
        if isinstance(el, tuple):
            yield el
            if el and el[0] == "call":
                for a in el[2]:
                    yield a


def _m_wrapping_neg(eng, st, callee, args, ev):
    ty = callee.get("impl_self")
    if ty not in INT_BITS:
        return NotImplemented
    return mk_un("Neg", args[0], ty)


def _m_checked_sub(eng, st, callee, args, ev):
    ty = callee.get("impl_self")
    if ty not in ("u8", "u16", "u32", "u64", "u128", "usize"):
        return NotImplemented
    return mk_optif(mk_bin("Ge", args[0], args[1], ty), mk_bin("Sub", args[0], args[1], ty))


def _m_checked_add(eng, st, callee, args, ev):
    return NotImplemented


def _m_len_utf8(eng, st, callee, args, ev):
    a = args[0] if args else None
    if not is_c(a):
        return NotImplemented
    v = a[1]
    return C(1 if v < 0x80 else 2 if v < 0x800 else 3 if v < 0x10000 else 4, "usize")


def _const_int_model(fn, ret=None):
    """pure integer method, folded when the receiver and all arguments are constants (exact machine semantics)"""
    def model(eng, st, callee, args, ev):
        ty = callee.get("impl_self")
        if ty not in INT_BITS or not all(is_c(a) for a in args):
            return NotImplemented
        bits = INT_BITS[ty]
        signed = ty.startswith("i")
        vals = [(sval(a) if (signed and i == 0) or (a[2] == ty and signed) else a[1]) for i, a in enumerate(args)]
        try:
            r = fn(bits, signed, *vals)
        except Exception:
            return NotImplemented
        if r is None:
            return NotImplemented      # the real function would panic / overflow: leave the call visible
        rty = ret or ty
        if rty == "bool":
            return C(1 if r else 0, "bool")
        if rty == ty and not signed and not (0 <= r < (1 << bits)):
            return NotImplemented
        return C(r, rty)
    return model


def _in_range(bits, signed, v):
    return (-(1 << (bits - 1)) <= v < (1 << (bits - 1))) if signed else (0 <= v < (1 << bits))


_INT_FOLDS = {
    "div_ceil": (lambda b, s, x, y: None if y == 0 or s else -(-x // y), None),
    "next_multiple_of": (lambda b, s, x, y: None if y == 0 or s else (-(-x // y)) * y, None),
    "pow": (lambda b, s, x, y: (x ** y) if y < 4096 and _in_range(b, s, x ** y) else None, None),
    "min": (lambda b, s, x, y: min(x, y), None),
    "max": (lambda b, s, x, y: max(x, y), None),
    "abs_diff": (lambda b, s, x, y: None if s else abs(x - y), None),
    "saturating_sub": (lambda b, s, x, y: None if s else max(0, x - y), None),
    "saturating_add": (lambda b, s, x, y: None if s else min((1 << b) - 1, x + y), None),
    "saturating_mul": (lambda b, s, x, y: None if s else min((1 << b) - 1, x * y), None),
    "wrapping_add": (lambda b, s, x, y: (x + y) & ((1 << b) - 1), None),
    "wrapping_sub": (lambda b, s, x, y: (x - y) & ((1 << b) - 1), None),
    "wrapping_mul": (lambda b, s, x, y: (x * y) & ((1 << b) - 1), None),
    "count_ones": (lambda b, s, x: bin(x & ((1 << b) - 1)).count("1"), "u32"),
    "count_zeros": (lambda b, s, x: b - bin(x & ((1 << b) - 1)).count("1"), "u32"),
    "trailing_zeros": (lambda b, s, x: b if (x & ((1 << b) - 1)) == 0 else ((x & -x).bit_length() - 1), "u32"),
    "is_power_of_two": (lambda b, s, x: None if s else (x != 0 and (x & (x - 1)) == 0), "bool"),
    "next_power_of_two": (lambda b, s, x: None if s else (1 if x <= 1 else 1 << (x - 1).bit_length()), None),
    "ilog2": (lambda b, s, x: None if x <= 0 else x.bit_length() - 1, "u32"),
    "isqrt": (lambda b, s, x: None if x < 0 else __import__("math").isqrt(x), None),
    "rem_euclid": (lambda b, s, x, y: None if y == 0 else x % abs(y), None),
    "div_euclid": (lambda b, s, x, y: None if y == 0 or s else x // y, None),
}


def _syn_fold(eng, st, callee, args, ev):
    """Iterator::fold(iter, init, f): the documented loop  `let mut acc = init; while let Some(x) = iter.next() { acc = f(acc, x) } acc`
    (explored up to the engine's loop bound, exactly like the loop written in the source)"""
    if len(args) != 3:
        return None
    ca = _callable(eng, args[2])
    if ca is None or ca[0] == "ctor" or (ca[0] == "closure" and ca[1].argc != 3):
        return None
    sty = callee.get("self_ty") or (callee.get("args") or ["?"])[0]
    nxt = {"def": "std::iter::Iterator::next", "canon": "core::iter::traits::iterator::Iterator::next", "full": "Iterator::next", "krate": "core",
           "name": "next", "args": [sty], "dk": "AssocFn", "unsafe": False, "trait": "core::iter::traits::iterator::Iterator", "self_ty": sty}
    # locals: 0 ret, 1 iter (by value), 2 acc, 3 closure, 4 env ref, 5 next result, 6 discr, 7 closure result, 8 &mut iter
    st2 = []
    blocks = [
        _bb([_assign(8, {"k": "ref", "mut": True, "p": _P(1, ty=sty)})],
            {"k": "call", "callee": nxt, "args": [{"k": "move", "p": _P(8, ty="&mut " + sty)}], "dest": _P(5, ty="std::option::Option<&u8>"), "target": 1,
             "unwind": None, "line": None, "exp": True}),
        _bb([_assign(6, {"k": "discr", "p": _P(5)})], {"k": "switch", "discr": _mv(6), "targets": [[0, 3], [1, 2]], "otherwise": 5, "dty": "isize"}),
        None,
        _bb([_assign(0, {"k": "use", "op": _mv(2)})], {"k": "return"}),
        _bb([_assign(2, {"k": "use", "op": _mv(7)})], {"k": "goto", "target": 0}),
        _bb([], {"k": "unreachable"}),
    ]
    fargs = [_mv(2), _mv(5, [{"k": "downcast", "name": "Some"}, {"k": "field", "name": "0"}])]
    if ca[0] == "closure":
        blocks[2] = _bb(st2, _closure_call(ca[1], 3, 4, fargs, 7, 4, st2))
    else:
        cal = dict(ca[1])
        cal["syn_inline"] = True
        blocks[2] = _bb([], {"k": "call", "callee": cal, "args": fargs, "dest": _P(7), "target": 4, "unwind": None, "line": None, "exp": True})
    return SynFn("fold", 3, 9, blocks, st.frames[-1]["fn"])


SYN_MODELS = {
    "core::iter::traits::iterator::Iterator::try_for_each": _syn_try_for_each,
    "core::iter::traits::iterator::Iterator::for_each": _syn_for_each,
    "core::iter::traits::iterator::Iterator::fold": _syn_fold,
}
for (_fam, _nm) in COMBINATORS:
    if _fam == "B":
        for _pre in ("core::bool::<impl bool>::", "std::bool::<impl bool>::"):
            SYN_MODELS[_pre + _nm] = _syn_combinator(_fam, _nm)
        continue
    SYN_MODELS[("std::result::Result::<T, E>::" if _fam == "R" else "std::option::Option::<T>::") + _nm] = _syn_combinator(_fam, _nm)


# ---- opt-in models of slice / option plumbing (used by the semantic summaries) ------------------------------------------------

def slice_parts(eng, st, t, self_ty=None):
    """(base location, lo, hi) of a slice-typed reference term; opaque slices x become (*x)[0..len(x)]"""
    while t[0] == "ref" and t[1][0] == "P":
        t = t[1][1]
    if t[0] == "ref":
        loc = t[1]
        if loc[0] == "S":
            return loc[1], loc[2], loc[3]
        n = _array_len(self_ty or "")
        if n is not None:
            return loc, C(0, "usize"), C(n, "usize")
        v = eng.read(st, loc)
        if v[0] == "agg" and v[1] == "array":
            return loc, C(0, "usize"), C(len(v[5]), "usize")
        m = re.match(r"^\[.*; (\w+)\]$", (self_ty or "").strip())
        if m:
            # array whose length is a const parameter
            gen = getattr(st.frames[-1]["fn"], "generics", None) or []
            if m.group(1) in gen:
                return loc, C(0, "usize"), ("tyconst", "%s/#%d" % (m.group(1), gen.index(m.group(1))), "usize")
            return loc, C(0, "usize"), ("len", t)
        # a reference to an array of unknown length or to a container that derefs to a slice (Box<[T]>, Vec<T>): the place itself is
        # the base, its length is opaque
        return loc, C(0, "usize"), ("len", t)
    if _frp(t) is not None:
        return ("P", t), C(0, "usize"), _frp(t)[1]
    if t[0] in ("param", "call", "okval", "someval", "getf", "init", "havoc", "cast", "pay"):
        n = _array_len(t[2]) if t[0] == "param" else None
        if n is not None:
            return ("P", t), C(0, "usize"), C(n, "usize")     # a reference to an array of known length
        return ("P", t), C(0, "usize"), ("len", t)
    return None


def mk_slice(base, lo, hi):
    if base[0] == "P" and is_c(lo) and lo[1] == 0 and hi == ("len", base[1]):
        return base[1]
    if base[0] == "P" and _frp(base[1]) is not None:
        # a sub-slice of from_raw_parts(p, n) is from_raw_parts(p + lo, hi - lo)
        t = base[1]
        p, n = _frp(t)
        if is_c(lo) and lo[1] == 0 and hi == n:
            return t
        return ("call", t[1], t[2], (mk_bin("Add", p, lo, "usize"), mk_bin("Sub", hi, lo, "usize"))) + t[4:]
    return ("ref", ("S", base, lo, hi))


def _range_bounds(rng, ln):
    nm = (rng[2] or "").split("::")[-1]
    f = dict(zip(rng[4], rng[5]))
    if nm == "RangeFull":
        return C(0, "usize"), ln
    if nm == "RangeTo":
        return C(0, "usize"), f["end"]
    if nm == "RangeToInclusive":
        return C(0, "usize"), mk_bin("Add", f["end"], C(1, "usize"), "usize")
    if nm == "RangeFrom":
        return f["start"], ln
    if nm == "Range":
        return f["start"], f["end"]
    if nm == "RangeInclusive":
        return None
    return None


def _m_index2(eng, st, callee, args, ev):
    base, rng = args[0], args[1]
    sp = slice_parts(eng, st, base, callee.get("self_ty"))
    if sp is None:
        return NotImplemented
    b0, lo0, hi0 = sp
    ln = mk_bin("Sub", hi0, lo0, "usize")
    if rng[0] == "agg" and rng[1] == "adt":
        bd = _range_bounds(rng, ln)
        if bd is None:
            return NotImplemented
        lo, hi = bd
        ev["range"] = {"lo": lo, "hi": hi, "len": ln, "kind": (rng[2] or "").split("::")[-1]}
        return mk_slice(b0, mk_bin("Add", lo0, lo, "usize"), mk_bin("Add", lo0, hi, "usize"))
    return NotImplemented


def _m_split_at(eng, st, callee, args, ev):
    sp = slice_parts(eng, st, args[0], callee.get("self_ty"))
    if sp is None:
        return NotImplemented
    b0, lo0, hi0 = sp
    mid = mk_bin("Add", lo0, args[1], "usize")
    ev["range"] = {"lo": C(0, "usize"), "hi": args[1], "len": mk_bin("Sub", hi0, lo0, "usize"), "kind": "split_at"}
    return ("agg", "tuple", None, None, ("0", "1"), (mk_slice(b0, lo0, mid), mk_slice(b0, mid, hi0)))


def _m_split_first(eng, st, callee, args, ev):
    sp = slice_parts(eng, st, args[0], callee.get("self_ty"))
    if sp is None:
        return NotImplemented
    b0, lo0, hi0 = sp
    ln = mk_bin("Sub", hi0, lo0, "usize")
    one = mk_bin("Add", lo0, C(1, "usize"), "usize")
    pay = ("agg", "tuple", None, None, ("0", "1"), (("ref", ("I", b0, lo0)), mk_slice(b0, one, hi0)))
    if is_c(ln) and ln[1] > 0:
        st.bonus += 1        # peeling a slice of constant length (`while let Some((x, rest)) = s.split_first()`): decided by constants
    return mk_optif(mk_bin("Ne", ln, C(0, "usize"), "usize"), pay)


def _m_first(eng, st, callee, args, ev):
    sp = slice_parts(eng, st, args[0], callee.get("self_ty"))
    if sp is None:
        return NotImplemented
    b0, lo0, hi0 = sp
    ln = mk_bin("Sub", hi0, lo0, "usize")
    return mk_optif(mk_bin("Ne", ln, C(0, "usize"), "usize"), ("ref", ("I", b0, lo0)))


def _m_get(eng, st, callee, args, ev):
    sp = slice_parts(eng, st, args[0], callee.get("self_ty"))
    if sp is None:
        return NotImplemented
    b0, lo0, hi0 = sp
    ln = mk_bin("Sub", hi0, lo0, "usize")
    i = args[1]
    if i[0] == "agg":
        # get(range): Some(sub-slice) iff lo <= hi <= len
        if i[1] != "adt":
            return NotImplemented
        bd = _range_bounds(i, ln)
        if bd is None:
            return NotImplemented
        lo, hi = bd
        cond = mk_and(mk_bin("Le", lo, hi, "usize"), mk_bin("Le", hi, ln, "usize"))
        if hi is ln or hi == ln:
            cond = mk_bin("Le", lo, ln, "usize")
        if is_c(lo) and lo[1] == 0:
            cond = mk_bin("Le", hi, ln, "usize")
        return mk_optif(cond, mk_slice(b0, mk_bin("Add", lo0, lo, "usize"), mk_bin("Add", lo0, hi, "usize")))
    return mk_optif(mk_bin("Lt", i, ln, "usize"), ("ref", ("I", b0, mk_bin("Add", lo0, i, "usize"))))


def mk_optif(cond, payload):
    if is_c(cond):
        if cond[1]:
            return ("agg", "adt", "core::option::Option", "Some", ("0",), (payload,), 1)
        return ("agg", "adt", "core::option::Option", "None", (), (), 0)
    return ("optif", cond, payload)


def _m_from_ref(eng, st, callee, args, ev):
    """slice::from_ref / from_mut(&x): a one-element slice that *is* x (writes through it reach x)"""
    a = args[0]
    if a[0] != "ref":
        return NotImplemented
    return ("ref", ("S", ("A1", a[1]), C(0, "usize"), C(1, "usize")))


def _opt_view(eng, st, t):
    """(tag-is-some condition term, payload) of an Option-valued term"""
    if t[0] == "agg" and t[1] == "adt" and t[3] in ("Some", "None"):
        return (TRUE, t[5][0]) if t[3] == "Some" else (FALSE, None)
    if t[0] == "optif":
        return t[1], t[2]
    return None


def _deref_val(eng, st, t):
    if t[0] == "ref":
        return eng.read(st, t[1])
    if t[0] == "pref":
        return t[1]
    return None


def _m_opt_eq(eng, st, callee, args, ev, negate=False):
    st_ty = callee.get("self_ty") or ""
    if not st_ty.startswith(("core::option::Option<", "std::option::Option<")):
        return _m_array_eq(eng, st, callee, args, ev)
    a = _deref_val(eng, st, args[0])
    b = _deref_val(eng, st, args[1])
    if a is None or b is None:
        return NotImplemented
    va, vb = _opt_view(eng, st, a), _opt_view(eng, st, b)
    if va is None or vb is None:
        return NotImplemented
    (ca, pa), (cb, pb) = va, vb
    if is_c(cb) and not is_c(ca):
        (ca, pa), (cb, pb) = (cb, pb), (ca, pa)
    if not is_c(ca):
        return NotImplemented
    if not ca[1]:
        r = mk_un("Not", cb, "bool")
    else:
        # Some(x) == o  <=>  o is Some and payloads equal; payloads that are references compare their pointees
        x, y = pa, pb
        if "&" in st_ty:
            x, y = _deref_val(eng, st, x) if x is not None else None, _deref_val(eng, st, y) if y is not None else None
        if x is None or y is None:
            return NotImplemented
        r = mk_and(cb, mk_bin("Eq", y, x, term_ty_guess(x, y)))
    return mk_un("Not", r, "bool") if negate else r


def term_ty_guess(*ts):
    for t in ts:
        if t[0] in ("c", "param"):
            return t[2]
    return "u8"


def mk_and(a, b):
    if is_c(a):
        return b if a[1] else FALSE
    if is_c(b):
        return a if b[1] else FALSE
    return ("and", a, b)


def _m_from_bool(eng, st, callee, args, ev):
    """<uN as From<bool>>::from / <uN as From<uM>>::from (lossless widenings)"""
    st_ty = callee.get("self_ty") or ""
    src = (callee.get("args") or [None, None])[-1]
    if st_ty in INT_BITS and src in INT_BITS and src != st_ty:
        return mk_cast("IntToInt", args[0], src, st_ty)
    return NotImplemented


def _mk_slice_iter(x):
    return ("agg", "adt", "core::slice::iter::Iter", "Iter", ("pos", "slice"), (C(0, "usize"), x), 0)


def _m_slice_iter(eng, st, callee, args, ev):
    """x.iter() / (&x).into_iter(): an iterator value that remembers the slice and how many elements were taken"""
    a = args[0]
    if callee["name"] == "into_iter":
        sty = callee.get("self_ty") or ""
        sty2 = re.sub(r"^&('\w+ )?", "&", sty)
        sty2 = sty2.replace("&mut ", "&")
        if not (sty2.startswith("&[") or re.match(r"^&(std::boxed::|alloc::boxed::)?Box<\[", sty2) or re.match(r"^&(std::vec::|alloc::vec::)?Vec<", sty2)):
            return _m_into_iter(eng, st, callee, args, ev)
    while a[0] == "ref" and a[1][0] == "P":
        a = a[1][1]
    return _mk_slice_iter(a)


def _m_iter_next(eng, st, callee, args, ev):
    r = args[0]
    if r[0] == "ref":
        v = eng.read(st, r[1])
        if v[0] == "agg" and v[1] == "adt" and v[2] == "core::iter::adapters::enumerate::Enumerate":
            cnt, it = v[5][0], v[5][1]
            pos, x = it[5][0], it[5][1]
            sp = slice_parts(eng, st, x)
            if sp is not None:
                b0, lo0, hi0 = sp
                ln = mk_bin("Sub", hi0, lo0, "usize")
                it2 = it[:5] + ((mk_bin("Add", pos, C(1, "usize"), "usize"), x),) + it[6:]
                eng.write(st, r[1], v[:5] + ((mk_bin("Add", cnt, C(1, "usize"), "usize"), it2),) + v[6:])
                if is_c(pos) and is_c(ln) and pos[1] < ln[1]:
                    st.bonus += 1        # constant-length slice: the iteration's existence is decided by constants
                elem = ("ref", ("I", b0, mk_bin("Add", lo0, pos, "usize")))
                return mk_optif(mk_bin("Lt", pos, ln, "usize"), ("agg", "tuple", None, None, ("0", "1"), (cnt, elem)))
        copied = v[0] == "agg" and v[1] == "adt" and v[2] == "core::iter::adapters::copied::Copied" and v[5][0][2] == "core::slice::iter::Iter"
        if copied:
            outer, v = v, v[5][0]
        if v[0] == "agg" and v[1] == "adt" and v[2] == "core::slice::iter::Iter":
            pos, x = v[5][0], v[5][1]
            sp = slice_parts(eng, st, x)
            if sp is not None:
                b0, lo0, hi0 = sp
                ln = mk_bin("Sub", hi0, lo0, "usize")
                v2 = v[:5] + ((mk_bin("Add", pos, C(1, "usize"), "usize"), x),) + v[6:]
                eng.write(st, r[1], (outer[:5] + ((v2,),) + outer[6:]) if copied else v2)
                if is_c(pos) and is_c(ln) and pos[1] < ln[1]:
                    st.bonus += 1
                eloc = ("I", b0, mk_bin("Add", lo0, pos, "usize"))
                return mk_optif(mk_bin("Lt", pos, ln, "usize"), eng.read(st, eloc) if copied else ("ref", eloc))
            if copied:
                return NotImplemented
    return _m_range_next(eng, st, callee, args, ev)


def _store(eng, st, ev, loc, val):
    eng.write(st, loc, val)
    st.events.append({"k": "write", "loc": loc, "val": val, "fn": st.frames[-1]["fn"], "bb": st.frames[-1]["bb"], "line": None, "pc": len(st.pc)})


def _m_mem_take(eng, st, callee, args, ev):
    """core::mem::take(&mut x) for integers / bool: yields the old value and stores the default (0 / false)"""
    ty = (callee.get("args") or [""])[0]
    if len(args) != 1 or args[0][0] != "ref" or ty not in INT_BITS:
        return NotImplemented
    loc = args[0][1]
    old = eng.read(st, loc)
    val = C(0, ty)
    if _root_kind(loc) == "P":
        _store(eng, st, ev, loc, val)
    else:
        eng.write(st, loc, val)
    return old


def _m_mem_replace(eng, st, callee, args, ev):
    """core::mem::replace(&mut x, v): yields the old value and stores v"""
    if len(args) != 2 or args[0][0] != "ref":
        return NotImplemented
    loc = args[0][1]
    old = eng.read(st, loc)
    if _root_kind(loc) == "P":
        _store(eng, st, ev, loc, args[1])
    else:
        eng.write(st, loc, args[1])
    return old


def _m_ptr_write(eng, st, callee, args, ev):
    """ptr.write(v) / ptr::write(ptr, v): a store through the pointer"""
    if len(args) != 2:
        return NotImplemented
    p = args[0]
    loc = p[1] if p[0] == "ref" else ("P", p)
    _store(eng, st, ev, loc, args[1])
    return UNIT


def _m_ptr_read(eng, st, callee, args, ev):
    """ptr.read() / ptr::read(ptr): a load through the pointer (the same event and value as `*ptr`)"""
    if len(args) != 1:
        return NotImplemented
    p = args[0]
    fr = st.frames[-1]
    ty = (callee.get("args") or ["?"])[0]
    st.events.append({"k": "rawderef", "ptr": p, "ty": "*const " + str(ty), "rw": "r", "fn": fr["fn"], "bb": fr["bb"], "pc": len(st.pc)})
    loc = p[1] if p[0] == "ref" else ("P", p)
    return eng.read(st, loc)


def _known_elems_at(eng, st, src, n):
    """the n elements a pointer term points at, when it is the start of a known small array / one-element view"""
    base = src
    if base[0] == "call" and (base[2] or "").endswith(("::as_ptr", "::as_mut_ptr")) and base[3]:
        sp = slice_parts(eng, st, base[3][0])
        if sp is None:
            return None
        b0, lo, hi = sp
        if not (is_c(lo) and is_c(hi)) or hi[1] - lo[1] < n:
            return None
        out = []
        for i in range(n):
            v = eng.read(st, eng._index_loc(("S", b0, lo, hi), C(i, "usize")))
            out.append(v)
        return out
    return None


def _m_copy_nonoverlapping(eng, st, callee, args, ev):
    """ptr::copy_nonoverlapping(src, dst, n) with a small constant n from a known source: n stores"""
    if len(args) != 3 or not is_c(args[2]) or args[2][1] > 16:
        return NotImplemented
    n = args[2][1]
    elems = _known_elems_at(eng, st, args[0], n)
    if elems is None:
        return NotImplemented
    d = args[1]
    for i, v in enumerate(elems):
        loc = ("P", d) if i == 0 else ("P", mk_bin("Add", d, C(i, "usize"), "usize"))
        _store(eng, st, ev, loc, v)
    return UNIT


def _m_ptr_same(eng, st, callee, args, ev):
    """`p.cast_const()` / `p.cast_mut()`: the same pointer (mutability is a type-level matter)"""
    return args[0] if len(args) == 1 else NotImplemented


def _m_copied(eng, st, callee, args, ev):
    """`iter.copied()` / `.cloned()` over a slice iterator of a Copy element type: the same iteration, yielding the elements by value"""
    it = args[0]
    if it[0] == "agg" and it[1] == "adt" and it[2] == "core::slice::iter::Iter":
        return ("agg", "adt", "core::iter::adapters::copied::Copied", "Copied", ("it",), (it,), 0)
    return NotImplemented


def _m_cast_sign(eng, st, callee, args, ev):
    """uN::cast_signed / iN::cast_unsigned: the same-width reinterpreting cast (`as`)"""
    ty = _int_self(callee)
    if ty is None or len(args) != 1:
        return NotImplemented
    dst = ("i" if ty.startswith("u") else "u") + ty[1:]
    if callee.get("name") not in ("cast_signed", "cast_unsigned") or dst not in INT_BITS:
        return NotImplemented
    return mk_cast("IntToInt", args[0], ty, dst)


def _m_ptr_addr(eng, st, callee, args, ev):
    """`p.addr()` is the address of `p`: what `p as usize` denotes (provenance is not modelled)"""
    if len(args) != 1:
        return NotImplemented
    return ("cast", "PointerExposeProvenance", args[0], "*const u8", "usize")


def _m_offset_from_unsigned(eng, st, callee, args, ev):
    """`a.offset_from_unsigned(b)` on byte pointers is the address difference (its precondition a >= b is the caller's)"""
    if len(args) != 2 or (callee.get("args") or [None])[0] not in ("u8", "i8"):
        return NotImplemented
    return mk_bin("Sub", args[0], args[1], "usize")


def _m_offset_from(eng, st, callee, args, ev):
    """`a.offset_from(b)` on byte pointers is the address difference (element size 1)"""
    if len(args) != 2 or (callee.get("args") or [None])[0] not in ("u8", "i8"):
        return NotImplemented
    return mk_cast("IntToInt", mk_bin("Sub", args[0], args[1], "usize"), "usize", "isize")


def _m_ptr_range(eng, st, callee, args, ev):
    sp = slice_parts(eng, st, args[0], callee.get("self_ty"))
    if sp is None or sp[0][0] == "A1":
        return NotImplemented
    b0, lo0, hi0 = sp
    key = "core::slice::<impl [T]>::" + ("as_mut_ptr" if "mut" in callee["name"] else "as_ptr")
    if b0[0] == "P" and _frp(b0[1]) is not None:
        p0 = _frp(b0[1])[0]
        return ("agg", "adt", "core::ops::range::Range", "Range", ("start", "end"), (mk_bin("Add", p0, lo0, "usize"), mk_bin("Add", p0, hi0, "usize")), 0)
    whole = b0[1] if b0[0] == "P" else ("ref", b0)
    base = ("call", ev["id"], key, (whole,), "*const u8")
    return ("agg", "adt", "core::ops::range::Range", "Range", ("start", "end"), (mk_bin("Add", base, lo0, "usize"), mk_bin("Add", base, hi0, "usize")), 0)


def _m_enumerate(eng, st, callee, args, ev):
    it = args[0]
    if it[0] == "agg" and it[1] == "adt" and it[2] == "core::slice::iter::Iter":
        return ("agg", "adt", "core::iter::adapters::enumerate::Enumerate", "Enumerate", ("count", "iter"), (C(0, "usize"), it), 0)
    return NotImplemented


def _m_as_ptr(eng, st, callee, args, ev):
    sp = slice_parts(eng, st, args[0], callee.get("self_ty"))
    if sp is None:
        return NotImplemented
    b0, lo0, hi0 = sp
    if b0[0] == "A1":
        return NotImplemented
    if b0[0] == "P" and _frp(b0[1]) is not None:
        return mk_bin("Add", _frp(b0[1])[0], lo0, "usize")       # the pointer the slice was built from
    whole = b0[1] if b0[0] == "P" else ("ref", b0)
    base = ("call", ev["id"], ev["key"], (whole,), "*const u8")
    return mk_bin("Add", base, lo0, "usize")


SLICE_MODELS = {
    "std::ptr::mut_ptr::<impl *mut T>::write": _m_ptr_write,
    "core::ptr::mut_ptr::<impl *mut T>::write": _m_ptr_write,
    "std::ptr::write": _m_ptr_write,
    "std::ptr::const_ptr::<impl *const T>::read": _m_ptr_read, "core::ptr::const_ptr::<impl *const T>::read": _m_ptr_read,
    "std::ptr::mut_ptr::<impl *mut T>::read": _m_ptr_read, "core::ptr::mut_ptr::<impl *mut T>::read": _m_ptr_read,
    "std::ptr::read": _m_ptr_read, "core::ptr::read": _m_ptr_read,
    "core::ptr::write": _m_ptr_write,
    "std::ptr::copy_nonoverlapping": _m_copy_nonoverlapping,
    "std::ptr::mut_ptr::<impl *mut T>::offset_from": _m_offset_from, "core::ptr::mut_ptr::<impl *mut T>::offset_from": _m_offset_from,
    "std::ptr::mut_ptr::<impl *mut T>::offset_from_unsigned": _m_offset_from_unsigned, "core::ptr::mut_ptr::<impl *mut T>::offset_from_unsigned": _m_offset_from_unsigned,
    "std::ptr::const_ptr::<impl *const T>::offset_from_unsigned": _m_offset_from_unsigned, "core::ptr::const_ptr::<impl *const T>::offset_from_unsigned": _m_offset_from_unsigned,
    "std::ptr::mut_ptr::<impl *mut T>::cast_const": _m_ptr_same, "core::ptr::mut_ptr::<impl *mut T>::cast_const": _m_ptr_same,
    "std::ptr::const_ptr::<impl *const T>::cast_mut": _m_ptr_same, "core::ptr::const_ptr::<impl *const T>::cast_mut": _m_ptr_same,
    "core::iter::traits::iterator::Iterator::copied": _m_copied, "core::iter::traits::iterator::Iterator::cloned": _m_copied,
    "std::ptr::mut_ptr::<impl *mut T>::addr": _m_ptr_addr, "core::ptr::mut_ptr::<impl *mut T>::addr": _m_ptr_addr,
    "std::ptr::const_ptr::<impl *const T>::addr": _m_ptr_addr, "core::ptr::const_ptr::<impl *const T>::addr": _m_ptr_addr,
    "std::ptr::const_ptr::<impl *const T>::offset_from": _m_offset_from, "core::ptr::const_ptr::<impl *const T>::offset_from": _m_offset_from,
    "core::ptr::copy_nonoverlapping": _m_copy_nonoverlapping,
    "std::intrinsics::copy_nonoverlapping": _m_copy_nonoverlapping,
    "core::slice::<impl [T]>::iter": _m_slice_iter,
    "core::slice::<impl [T]>::iter_mut": _m_slice_iter,
    "core::slice::<impl [T]>::as_ptr_range": _m_ptr_range,
    "core::slice::<impl [T]>::as_mut_ptr_range": _m_ptr_range,
    "core::iter::traits::iterator::Iterator::enumerate": _m_enumerate,
    "core::iter::traits::collect::IntoIterator::into_iter": _m_slice_iter,
    "core::iter::traits::iterator::Iterator::next": _m_iter_next,
    "core::slice::<impl [T]>::as_ptr": _m_as_ptr,
    "core::slice::<impl [T]>::as_mut_ptr": _m_as_ptr,
    "core::ops::index::Index::index": _m_index2,
    "core::ops::index::IndexMut::index_mut": _m_index2,
    "core::slice::<impl [T]>::split_at": _m_split_at,
    "core::slice::<impl [T]>::split_at_mut": _m_split_at,
    "core::slice::<impl [T]>::split_first": _m_split_first,
    "core::slice::<impl [T]>::first": _m_first,
    "core::slice::<impl [T]>::get": _m_get,
    "core::slice::from_ref": _m_from_ref,
    "std::slice::from_ref": _m_from_ref,
    "core::slice::from_mut": _m_from_ref,
    "std::slice::from_mut": _m_from_ref,
    "core::cmp::PartialEq::eq": _m_opt_eq,
    "core::cmp::PartialEq::ne": lambda eng, st, callee, args, ev: _m_opt_eq(eng, st, callee, args, ev, negate=True),
    "core::convert::From::from": _m_from_bool,
}


MODELS = {
    "core::slice::<impl [T]>::copy_from_slice": _m_copy_from_slice,
    "core::iter::traits::collect::IntoIterator::into_iter": _m_into_iter,
    "core::iter::traits::iterator::Iterator::next": _m_range_next,
    "std::mem::size_of": _m_size_of,
    "core::mem::size_of": _m_size_of,
    "core::mem::take": _m_mem_take, "std::mem::take": _m_mem_take,
    "core::mem::replace": _m_mem_replace, "std::mem::replace": _m_mem_replace,
    "core::ops::try_trait::Try::branch": _m_try_branch,
    "std::ops::RangeInclusive::<Idx>::new": _m_range_incl_new,
    "core::ops::range::RangeInclusive::<Idx>::new": _m_range_incl_new,
    "core::convert::From::from": _m_from_bool,
    "core::cmp::PartialOrd::lt": _m_int_cmp, "core::cmp::PartialOrd::le": _m_int_cmp,
    "core::cmp::PartialOrd::gt": _m_int_cmp, "core::cmp::PartialOrd::ge": _m_int_cmp,
    "core::cmp::PartialEq::eq": _m_int_cmp, "core::cmp::PartialEq::ne": _m_int_cmp,
    "core::ops::try_trait::FromResidual::from_residual": _m_from_residual,
    "std::option::Option::<T>::is_some": _m_is_some,
    "std::option::Option::<T>::is_none": _m_is_none,
    "std::result::Result::<T, E>::is_ok": _m_is_ok,
    "std::result::Result::<T, E>::is_err": _m_is_err,
    "core::ops::index::Index::index": _m_index,
    "core::ops::index::IndexMut::index_mut": _m_index,
    "core::slice::<impl [T]>::len": _m_len,
    "core::str::<impl str>::len": _m_len,
    "core::char::methods::<impl char>::len_utf8": _m_len_utf8,
    "std::char::methods::<impl char>::len_utf8": _m_len_utf8,
    "core::slice::<impl [T]>::is_empty": _m_is_empty,
    "core::f32::<impl f32>::to_bits": _m_to_bits,
    "core::f64::<impl f64>::to_bits": _m_to_bits,
    "core::f32::<impl f32>::from_bits": _m_from_bits,
    "core::f64::<impl f64>::from_bits": _m_from_bits,
}
for _t in ("f32", "f64"):
    MODELS["core::%s::<impl %s>::to_le_bytes" % (_t, _t)] = _m_float_to_le_bytes
    MODELS["core::%s::<impl %s>::to_be_bytes" % (_t, _t)] = _m_float_to_be_bytes
    MODELS["core::%s::<impl %s>::from_le_bytes" % (_t, _t)] = _m_float_from_le_bytes
    MODELS["core::%s::<impl %s>::from_be_bytes" % (_t, _t)] = _m_float_from_be_bytes
for _t in ("u8", "u16", "u32", "u64", "u128", "usize"):
    MODELS["core::num::<impl %s>::checked_sub" % _t] = _m_checked_sub
for _t in ("u8", "i8", "u16", "i16", "u32", "i32", "u64", "i64", "u128", "i128", "usize", "isize"):
    for _n, (_f, _r) in _INT_FOLDS.items():
        MODELS.setdefault("core::num::<impl %s>::%s" % (_t, _n), _const_int_model(_f, _r))
    MODELS["core::num::<impl %s>::to_le_bytes" % _t] = _m_to_le_bytes
    MODELS["core::num::<impl %s>::to_be_bytes" % _t] = _m_to_be_bytes
    MODELS["core::num::<impl %s>::from_le_bytes" % _t] = _m_from_le_bytes
    MODELS["core::num::<impl %s>::from_be_bytes" % _t] = _m_from_be_bytes
    MODELS["core::num::<impl %s>::leading_zeros" % _t] = _m_leading_zeros
    MODELS["core::num::<impl %s>::wrapping_neg" % _t] = _m_wrapping_neg
    MODELS["core::num::<impl %s>::swap_bytes" % _t] = _m_swap_bytes
    MODELS["core::num::<impl %s>::cast_signed" % _t] = _m_cast_sign
    MODELS["core::num::<impl %s>::cast_unsigned" % _t] = _m_cast_sign
    MODELS["core::num::<impl %s>::to_ne_bytes" % _t] = _m_to_ne_bytes
    MODELS["core::num::<impl %s>::from_le" % _t] = _m_from_le_be
    MODELS["core::num::<impl %s>::from_be" % _t] = _m_from_le_be


# ---- pretty printing -------------------------------------------------------------------------

def show(t, depth=0):
    if not isinstance(t, tuple) or not t:
        return repr(t)
    if depth > 12:
        return "…"
    k = t[0]
    r = lambda x: show(x, depth + 1)
    if k == "c":
        if t[2] == "bool":
            return "true" if t[1] else "false"
        return "%d_%s" % (sval(t) if is_signed(t[2]) else t[1], t[2])
    if k == "param":
        return "arg%d" % t[1]
    if k == "unit":
        return "()"
    if k == "str":
        return repr(t[1])
    if k == "bin":
        return "%s(%s, %s)" % (t[1], r(t[2]), r(t[3]))
    if k == "un":
        return "%s(%s)" % (t[1], r(t[2]))
    if k == "cast":
        return "(%s as %s)" % (r(t[2]), t[4])
    if k == "ref":
        return "&" + show_loc(t[1], depth + 1)
    if k == "init":
        return show_loc(t[1], depth + 1)
    if k == "agg":
        if t[1] == "adt":
            nm = (t[2] or "").split("::")[-1] + "::" + (t[3] or "")
            return "%s(%s)" % (nm, ", ".join(r(x) for x in t[5]))
        if t[1] == "array":
            return "[%s]" % ", ".join(r(x) for x in t[5])
        if t[1] == "tuple":
            return "(%s)" % ", ".join(r(x) for x in t[5])
        return "%s{%s}" % (t[1], ", ".join(r(x) for x in t[5]))
    if k == "call":
        return "call#%d %s(%s)" % (t[1], t[2], ", ".join(r(x) for x in t[3]))
    if k == "fn":
        return "fn " + t[1]
    if k in ("try", "okval", "errval", "someval", "residual", "err_from", "tag", "len", "to_bits",
             "from_bits", "tagflip"):
        return "%s(%s)" % (k, r(t[1]))
    if k == "map_err":
        return "map_err(%s, %s)" % (r(t[1]), r(t[2]))
    return "%s(%s)" % (k, ", ".join(r(x) if isinstance(x, tuple) else repr(x) for x in t[1:]))


def show_loc(l, depth=0):
    k = l[0]
    if k == "L":
        return "_%d.%d" % (l[1], l[2])
    if k == "P":
        return "*(" + show(l[1], depth + 1) + ")"
    if k == "F":
        return show_loc(l[1], depth + 1) + "." + l[2]
    if k == "D":
        return "(%s as %s)" % (show_loc(l[1], depth + 1), l[2])
    if k == "I":
        return "%s[%s]" % (show_loc(l[1], depth + 1), show(l[2], depth + 1))
    if k == "S":
        return "%s[%s..%s]" % (show_loc(l[1], depth + 1), show(l[2], depth + 1), show(l[3], depth + 1))
    return repr(l)
