"""C17 — the dynamic (schema-driven) codec agrees with the static codec and serde_json.

C17.W  wire table: per OwnedDataModelType arm of ser_named_type and deserialize (sub-keyed by OwnedData for structs) the ordered
       wire effects on every success path equal the static codec's for that kind: widths of varint writer/reader and zig-zag,
       raw bytes, 4/8 little-endian float bytes, varint(usize) length prefixes, 0/1 option tag, elements/fields in schema order
       without prefix, varint(variant index in declaration order) + payload. Helper identities come from BIT proofs of the
       function actually called (C17.B).
C17.B  helper copies: the 17 private varint / zig-zag helpers of postcard-dyn satisfy the same all-values obligations as postcard's.
C17.J  JSON table: per arm, the serde_json accessor demanded by the encoder and the Value constructor produced by the decoder equal
       serde_json's representation (bool->Bool, ints/floats->Number, char/str->String, bytes/seq/tuple/tuple-struct->Array for every
       arity, unit->Null, newtype->inner, struct/map->Object, unit variant->String(name), other variants->Object{name: payload}).
C17.R  decoder threading: every read starts where the previous one stopped and the returned remainder is where the last one stopped.
Decides byte-level agreement per kind and constructor-level agreement of JSON shapes; not numeric fidelity of serde_json::Number,
key ordering, or full JSON equality.
"""
import re

import dynarms
import sym
import tbl
from c16 import field_path
from tbl import norm

LEVEL = "other"
MANIFEST = {
    "text": "Static per-kind table check of the two schema-directed walkers of postcard-dyn: for every schema kind the ordered helper calls "
            "(identified by bit-affine proofs of the helpers actually called), output effects / input reads, JSON accessor and JSON constructor on "
            "every explored path are compared with a table transcribed from the static codec's wire format and serde_json's data-model mapping; the "
            "decoder's cursor threading is checked on every path. Right level: agreement 'for every shape' is agreement per kind, read off the arms.",
    "note": "Trusted: serde_json::Value/Number/Map semantics, serde's JSON representation conventions, postcard-schema's OwnedDataModelType. Loops explored for 0..2 iterations.",
    "technique": "static analysis: per-arm token abstraction of path-sensitive MIR summaries + table agreement + bit-affine proofs of helper copies + def-use threading rule",
}

LOOP = lambda body: r"(?: %s)*" % body


def ser_table():
    t = {
        "Bool": [r"json:Bool push:0", r"json:Bool push:1", r"json:Bool push:bool"],
        "I8": [r"json:as_i64 try_from:i8 push:byte"],
        "U8": [r"json:as_u64 try_from:u8 push:byte"],
        "I16": [r"json:as_i64 try_from:i16 ZZ16 W16 extend:varint"],
        "I32": [r"json:as_i64 try_from:i32 ZZ32 W32 extend:varint"],
        "I64": [r"json:as_i64 ZZ64 W64 extend:varint"],
        "I128": [r"json:as_i64 ZZ128 W128 extend:varint"],
        "U16": [r"json:as_u64 try_from:u16 W16 extend:varint"],
        "U32": [r"json:as_u64 try_from:u32 W32 extend:varint"],
        "U64": [r"json:as_u64 W64 extend:varint"],
        "U128": [r"json:as_u64 W128 extend:varint"],
        "Usize": [r"json:as_u64 try_from:usize W64 extend:varint"],
        "Isize": [r"json:as_i64 ZZ64 W64 extend:varint"],
        "F32": [r"json:as_f64 extend:f32le"],
        "F64": [r"json:as_f64 extend:f64le"],
        "Char": [r"json:String W64 extend:varint extend:str-bytes"],
        "String": [r"json:String W64 extend:varint extend:str-bytes"],
        "ByteArray": [r"json:Array W64 extend:varint std:next" + LOOP(r"json:as_u64 try_from:u8 push:byte std:next")],
        "Option": [r"json:Null\? push:0", r"json:Null\? push:1 rec:@Option/0"],
        "Unit": [r""],
        "Struct/Unit": [r""],
        "Struct/Newtype": [r"rec:@Struct/data/@Newtype/0"],
        "Seq": [r"json:Array W64 extend:varint std:next" + LOOP(r"rec:@Seq/0 std:next")],
        "Tuple": [r"json:Array std:zip std:next" + LOOP(r"rec:\S* std:next")],
        "Struct/Tuple": [r"json:Array std:zip std:next" + LOOP(r"rec:\S* std:next")],
        "Map": [r"json:Object W64 extend:varint std:next" + LOOP(r"W64 extend:varint extend:str-bytes rec:@Map/val std:next")],
        "Struct/Struct": [r"json:Object std:next" + LOOP(r"std:map_get rec:ty std:next")],
    }
    head_s = r"json:String std:enumerate std:find W64 extend:varint"
    head_o = r"json:Object std:next std:enumerate std:find W64 extend:varint"
    t["Enum"] = [head_s, head_o, head_o + r" rec:\S*Newtype/0",
                 head_o + r" json:Array std:zip std:next" + LOOP(r"rec:\S* std:next"),
                 head_o + r" json:Object std:next" + LOOP(r"std:map_get rec:ty std:next")]
    return t


def de_table():
    t = {
        "Bool": [(r"take1", "Bool")],
        "I8": [(r"take1", "Number")], "U8": [(r"take1", "Number")],
        "I16": [(r"R16 UZ16", "Number")], "I32": [(r"R32 UZ32", "Number")], "I64": [(r"R64 UZ64", "Number")],
        "I128": [(r"R128 UZ128 try_from:i64", "Number")],
        "U16": [(r"R16", "Number")], "U32": [(r"R32", "Number")], "U64": [(r"R64", "Number")],
        "U128": [(r"R128 try_from:u64", "Number")], "Usize": [(r"R64", "Number")], "Isize": [(r"R64 UZ64", "Number")],
        "F32": [(r"take:4 std:from_f64:f32le", "Number")],
        "F64": [(r"take:8 std:from_f64:f64le", "Number")],
        "Char": [(r"R64 take:len std:from_utf8", "String")], "String": [(r"R64 take:len std:from_utf8", "String")],
        "ByteArray": [(r"R64 take:len std:map std:collect", "Array")],
        "Option": [(r"take1", "Null"), (r"take1 rec:@Option/0", "rec")],
        "Unit": [(r"", "Null")], "Struct/Unit": [(r"", "Null")],
        "Struct/Newtype": [(r"rec:@Struct/data/@Newtype/0", "rec")],
        "Seq": [(r"R64 std:next" + LOOP(r"rec:@Seq/0 std:push std:next"), "Array")],
        "Tuple": [(r"std:next" + LOOP(r"rec:\S* std:push std:next"), "Array")],
        "Struct/Tuple": [(r"std:next" + LOOP(r"rec:\S* std:push std:next"), "Array")],
        "Map": [(r"R64 std:next" + LOOP(r"R64 take:len std:from_utf8 rec:@Map/val std:map_insert std:next"), "Object")],
        "Struct/Struct": [(r"std:next" + LOOP(r"rec:ty std:map_insert std:next"), "Object")],
        # the payload of a tuple / struct variant is decoded like a tuple / struct (written out, through a helper, or by walking a schema
        # node built on the spot, which is analysed in place)
        "Enum": [(r"R64 std:get", "String"), (r"R64 std:get rec:\S* std:map_insert", "Object"),
                 (r"R64 std:get std:next" + LOOP(r"rec:\S* std:push std:next") + r" std:map_insert", "Object"),
                 (r"R64 std:get std:next" + LOOP(r"rec:\S* std:map_insert std:next") + r" std:map_insert", "Object")],
    }
    return t


def ret_ctor(A, p):
    if A.tail_rec(p) is not None:
        return "rec"
    r = p.ret[5][0]
    if r[0] == "agg" and r[1] == "tuple":
        return dynarms.json_ctor(r[5][0], p)
    return "?"


def check_threading(A, p):
    """decoder: reads are chained and the remainder returned is the last one"""
    data = ("param", 2, A.fn.locals[2]["ty"])
    cur = data
    for e in tbl.residual_calls(p):
        c = e["callee"]
        if c and e["name"] == "split_first_chunk" and "<impl [T]>" in (e["key"] or "") and len(e["args"]) == 1:
            # the std spelling of "take N": reads from its receiver, the rest is field 1 of the Some payload
            if norm(e["args"][0]) != norm(cur):
                return "split_first_chunk reads from %s, not from where the previous read stopped (%s)" % (sym.show(norm(e["args"][0]))[:80], sym.show(norm(cur))[:80])
            if p.tagfacts.get(("tag", e["result"])) == 0:
                return None
            cur = ("getf", ("someval", e["result"]), "1")
            continue
        if not c or c["krate"] != "postcard_dyn":
            continue
        nm = e["name"]
        if nm in ("take_one", "take_n") or nm.startswith("try_take_varint"):
            inp = e["args"][0]
        elif c["canon"] == dynarms.DE_FN:
            inp = e["args"][1]
        else:
            continue
        if norm(inp) != norm(cur):
            return "%s reads from %s, not from where the previous read stopped (%s)" % (nm, sym.show(norm(inp))[:80], sym.show(norm(cur))[:80])
        if p.tagfacts.get(("tag", e["result"])) == 1:
            return None
        cur = ("getf", ("okval", e["result"]), "1")
        if nm == "try_take_varint_usize":
            pass
    t = A.tail_rec(p)
    if t is not None:
        last = [e for e in tbl.residual_calls(p) if e["result"] == t]
        return None
    r = p.ret
    if r[0] == "agg" and r[3] == "Ok":
        tup = r[5][0]
        if tup[0] == "agg" and tup[1] == "tuple" and len(tup[5]) == 2:
            if norm(tup[5][1]) != norm(cur):
                return "returns remainder %s, expected the input after the last read (%s)" % (sym.show(norm(tup[5][1]))[:80], sym.show(norm(cur))[:80])
            return None
        return "does not return (value, remainder)"
    return None


def run(run_, ctx):
    F = ctx.facts("A")
    helpers = ctx.helpers("A")
    dc = F.crate("postcard_dyn")
    run_.configs.append("A")
    run_.bodies += len(dc.fns)
    # ---- B ---------------------------------------------------------------------------------------------------------
    import vint
    n = 0
    for f in dc.fns:
        res = None
        if vint.writer_sig(f):
            res = ("canonical varint writer", helpers.writer(f.canon))
        elif f.name.startswith("try_take_varint_u") and f.name[-1].isdigit():
            res = ("varint reader", helpers.dyn_reader(f.canon, int(f.name.split("_u")[1])))
        elif f.argc == 1 and f.locals[1]["ty"] in vint.IW and f.locals[0]["ty"] in vint.UW:
            res = ("zig-zag", helpers.zz_enc(f.canon))
        elif f.argc == 1 and f.locals[1]["ty"] in vint.UW and f.locals[0]["ty"] in vint.IW:
            res = ("inverse zig-zag", helpers.zz_dec(f.canon))
        if res:
            nm, (info, why) = res
            run_.check(info is not None, "B", f.def_, "private %s copy is not equal to the specification map: %s" % (nm, why), f.where(),
                       detail="%s proven for all %s-bit values (BIT)" % (nm, info["N"] if info else "?"))
    run_.floor("B", 17)
    # ---- W / J -------------------------------------------------------------------------------------------------------
    check_tables(run_, F, helpers, "W")
    run_.floor("W", 56)
    # ---- DC: the schema the dynamic codec is driven by is, for derived types, the one the derive writes: it must give every variant and
    # struct the form serde's Serialize uses (incl. zero-field tuple/struct forms), else "under the type's schema" differs from the static bytes
    import c14
    c14.check_corpus(run_, ctx, rule="DC")
    run_.floor("DC", 34)
    # ... and for the built-in impls the hand-written constant: "the type's schema" of a std type is what postcard-schema declares for it
    c14.check_builtins(run_, F, "A", rule="DB")
    run_.floor("DB", 58)
    finish(run_, F, helpers, dc)


# equivalent ways of writing one row set: all rows of one alternative must occur (indices into the arm's row list)
ALTS = {("ser", "Bool"): [(0, 1), (2,)]}


def unit_evidence(p):
    """does the path know that the variant it found has `OwnedData::Unit` data?  Either a comparison with `OwnedData::Unit` whose outcome the
    path depends on, or a discriminant test of a `.data` field that selected the payload-free variant"""
    def is_unit(t):
        t = norm(t)
        while t[0] in ("ref", "pref") and isinstance(t[1], tuple):
            t = norm(t[1]) if t[0] == "pref" else t
            if t[0] == "ref":
                break
        return t[0] == "agg" and t[1] == "adt" and (t[2] or "").endswith("OwnedData") and t[3] == "Unit"
    for e in p.events:
        if e["k"] == "call" and e.get("name") in ("eq", "ne") and ((e.get("callee") or {}).get("trait") or "").endswith("cmp::PartialEq"):
            vals = list(e["args"]) + [x for x in (e.get("snap") or []) if x is not None]
            if any(is_unit(a) for a in vals):
                want = e["name"] == "eq"
                for c, truth, _k in p.pc:
                    if norm(c) == norm(e["result"]) and truth is want:
                        return True
    for atom, v in p.tagfacts.items():
        if atom[0] == "tag" and v == 0:
            fp = dynarms.schema_arg_path(atom[1]) if hasattr(dynarms, "schema_arg_path") else ()
            if fp and fp[-1] == "data":
                return True
    return False


def check_tables(run_, F, helpers, RULE):
    for which, table in (("ser", ser_table()), ("de", de_table())):
        A = dynarms.Arms(F, helpers, which)
        if A.truncated:
            run_.bad(RULE, which + " exploration", "path exploration truncated", A.fn.where())
        for arm in sorted(set(table) | set(k for k in A.arms if k not in ("*", "Schema"))):
            key = "%s %s" % (which, arm)
            ps = [p for p in A.arms.get(arm, []) if A.is_success(p)]
            if arm not in table:
                run_.bad(RULE, key, "schema kind has no table row", A.fn.where())
                continue
            if not ps:
                run_.bad(RULE, key, "no accepting path for this schema kind", A.fn.where())
                continue
            probs = []
            seen_rows = set()
            for p in ps:
                toks = " ".join(A.tokens(p))
                if which == "ser":
                    hit = [i for i, rx in enumerate(table[arm]) if re.fullmatch(rx, toks)]
                    if not hit:
                        probs.append("encoder does `%s`; allowed for %s: %s" % (toks, arm, table[arm]))
                    seen_rows.update(hit)
                    if arm == "Enum" and hit == [0] and not unit_evidence(p):
                        # the bare-string form stands for a variant *without* payload only: serde_json writes `"Name"` for unit variants and an
                        # object for the others, and the decoder of the index alone would then read a payload that was never written
                        probs.append("a JSON string is accepted for an enum variant without checking that the variant carries no payload "
                                     "(what is written cannot be decoded under the same schema)")
                else:
                    ctor = ret_ctor(A, p)
                    hit = [i for i, (rx, c) in enumerate(table[arm]) if re.fullmatch(rx, toks)]
                    if not hit:
                        probs.append("decoder does `%s`; allowed for %s: %s" % (toks, arm, [r for r, _ in table[arm]]))
                    else:
                        okc = [i for i in hit if table[arm][i][1] == ctor]
                        if not okc:
                            probs.append("J: decoder builds Value::%s, serde_json represents this kind as %s" % (ctor, sorted(set(table[arm][i][1] for i in hit))))
                        seen_rows.update(okc)
                    th = check_threading(A, p)
                    if th:
                        probs.append("R: " + th)
            missing = set(range(len(table[arm]))) - seen_rows
            for alt in ALTS.get((which, arm), []):
                if set(alt) <= seen_rows:
                    missing = set()
            if not probs and missing and arm not in ("Enum",):
                probs.append("expected behaviour never occurs: %s" % [table[arm][i] for i in sorted(missing)])
            if not probs and arm == "Enum" and len(seen_rows) < 4:
                probs.append("not all enum payload forms are handled")
            run_.check(not probs, RULE, key, probs[0] if probs else "wire effects and JSON shape as tabulated (%d path(s))" % len(ps), A.fn.where(), found=probs[:4])


def finish(run_, F, helpers, dc):
    # Bool decode rejects other tags, variant index lookup by get() — structural spot checks on the de arms
    A = dynarms.Arms(F, helpers, "de")
    nb = [p for p in A.arms.get("Bool", []) if p.status == "return" and not A.is_success(p)]
    run_.check(any(tbl.error_variant(F, p.ret) == "SchemaMismatch" for p in nb), "J", "de Bool rejects other bytes",
               "a bool byte other than 0/1 must be rejected", A.fn.where())
    # entry points
    # entry points, specified by hand in the vocabulary of the semantic summaries: run the walker once on (schema, input); hand back the
    # value (dropping the remainder) / the filled vector; an error is returned unchanged
    import summ2
    T = lambda *lits: [[["tag", "tag(#1)", ["in", list(lits)]]]]
    de_fn, ser_fn = F.fn_by_canon(dynarms.DE_FN), F.fn_by_canon(dynarms.SER_FN)
    SPEC = {}
    if de_fn is not None:
        call = "#1 = %s(arg1, arg2)" % de_fn.def_
        SPEC["de::from_slice_dyn"] = [(call + " => Result::Err(errval(#1))", T(1)), (call + " => Result::Ok(okval(#1).0)", T(0))]
    if ser_fn is not None:
        call = "#1 = %s(arg1, arg2, &{Vec::new()})" % ser_fn.def_
        SPEC["ser::to_stdvec_dyn"] = [(call + " => Result::Err(errval(#1))", T(1)), (call + " => Result::Ok(after#1(~))", T(0))]
    for k, outs in SPEC.items():
        fs = [f for f in dc.fns if f.def_ == k]
        if len(fs) == 1:
            want = {"outcomes": [{"text": t, "when": w} for t, w in sorted(outs)], "vars": {"tag(#1)": {"dom": [0, 1]}}, "truncated": False}
            summ2.check(run_, "E", fs[0], want, F, what="entry point", key=k, inline=lambda g, ev: g.crate == "postcard_dyn" and g.canon not in (dynarms.DE_FN, dynarms.SER_FN))
        else:
            run_.bad("E", k, "entry point not found")
    run_.floor("E", 2)
    run_.explanation = (
        "The 17 private helper copies of postcard-dyn are proven equal to the specification maps for all values by BIT (the reader proof also checks "
        "that the rest slice is threaded). Both walkers are explored (ser %d+, de %d+ paths, loops 0..2 iterations); per schema kind each accepting path is "
        "abstracted to tokens (verified helper role+width, output effect / input read, JSON accessor / constructor, recursion target) and must match a row of a "
        "table transcribed from the static codec (C02/C03 cells) and serde_json's representation; decoder reads must be chained and the final remainder returned."
        % (len(dynarms.Arms(F, helpers, "ser").paths), len(A.paths)))
    run_.trusted += ["serde_json Value/Number/Map", "serde's JSON conventions for the data model", "OwnedDataModelType from postcard-schema"]
