"""C03 — the decoder accepts exactly the encodings the specification allows.

C03.T1  reader table: per method of `&mut Deserializer` (+ Seq/Map/Enum/Variant access) the reads
        performed, the validation edges and the visitor call with its argument expression.
C03.V1  validation obligations (bool, option tag, utf-8, char incl. exactly-one-scalar, varint bounds).
C03.E1  unexpected-end discipline: a failing read is propagated unchanged on every path.
C03.B1  varint readers / inverse zig-zag for all byte strings (BIT), per helper actually called.
C03.R1  slice cursor: pop/try_take_n/finalize return exactly [cursor..], exhaustion -> UnexpectedEnd.
"""
import re

import summ2
import sym
import tbl
import lin
import grd
from tbl import norm, DE_POP, DE_TAKE
from sym import C, TRUE, FALSE
from bit import Top

LEVEL = "other"
MANIFEST = {
    "text": "Static table check of every Deserializer/SeqAccess/MapAccess/EnumAccess/VariantAccess method: reads, "
            "validation edges with their designated error kinds, visitor argument expressions, and unchanged "
            "propagation of read failures on every MIR path; the varint readers are decided for ALL byte strings by "
            "bit-affine abstract interpretation (accept set, value, consumed length); the raw-pointer slice cursor is "
            "checked with linear guards. Right level: acceptance is a per-primitive all-inputs claim readable from code shape.",
    "note": "Trusted: serde visitors/Deserialize impls, core::str::from_utf8, rustc MIR. Does not decide precedence among "
            "simultaneous violations beyond one function, nor visitor-side rejections. 64-bit host only.",
    "technique": "static analysis: path-sensitive MIR term evaluation in constructor normal form + wire-format table agreement + bit-affine abstract interpretation of the varint readers + hand-written cursor specification compared semantically",
}

DE_TRAIT = "serde_core::de::Deserializer"
VISITOR = "serde_core::de::Visitor::"
SEED = "serde_core::de::DeserializeSeed::deserialize"


def is_deser_self(s):
    return (s or "").startswith("&mut de::deserializer::Deserializer<")


def inline_policy(fn, ev):
    """everything local is analysed in place (a new private helper changes nothing), except the integer helpers that BIT proves on their
    own; try_take_varint_usize is the u64/u32 reader plus a lossless cast and is analysed in place"""
    if fn.argc == 0:
        return True
    if fn.crate != "postcard":
        return False
    s = fn.impl_self or ""
    if s.startswith("de::deserializer::Deserializer<") and fn.name == "try_take_varint_usize":
        return True
    import vint
    return not vint.is_helper(fn)


def field_of(F, self_ty, pred, default):
    """name of the single field of the (local) struct behind `self_ty` whose type satisfies pred; `default` if there is no such struct/field"""
    path = re.sub(r"^&(mut )?", "", self_ty or "").split("<")[0]
    for a in F.crate("postcard").adts.values():
        if a.get("def") == path:
            hits = [fl["name"] for v in a.get("variants", []) for fl in v.get("fields", []) if pred(fl.get("ty"))]
            if len(hits) == 1:
                return hits[0]
    return default


class DeCx:
    def __init__(self, F, helpers, fn, path):
        self.F = F
        self.helpers = helpers
        self.fn = fn
        self.path = path
        self.bits = tbl.path_bits(path)
        self.self_ = ("param", 1, fn.locals[1]["ty"])
        # private field names are found by what the fields hold: the flavor is the Deserializer's field of a type-parameter type, the element
        # count is the access object's usize field
        self.flavor = ("F", ("P", self.self_), field_of(F, fn.locals[1]["ty"], lambda t: re.fullmatch(r"[A-Z]\w{0,3}", t or "") is not None, "flavor"))
        self.count_field = field_of(F, fn.locals[1]["ty"], lambda t: t == "usize", "len")
        self.deser_field = field_of(F, fn.locals[1]["ty"], lambda t: re.match(r"^&('\w+ )?mut (\w+::)*Deserializer<", t or "") is not None, "deserializer")
        self.bits.types[("init", ("F", ("P", self.self_), self.count_field))] = "usize"

    def is_flavor(self, t):
        return t[0] == "ref" and t[1] == self.flavor

    def is_self(self, t):
        return norm(t) == self.self_


def classify(cx, e):
    """event -> (kind, info)"""
    k = e["key"]
    if k == DE_POP:
        return ("POP", None) if cx.is_flavor(e["args"][0]) else ("OTHER", "pop on foreign flavor")
    if k == DE_TAKE:
        return ("TAKE", norm(e["args"][1])) if cx.is_flavor(e["args"][0]) else ("OTHER", "take on foreign flavor")
    if k.startswith(VISITOR):
        return ("VISIT", k[len(VISITOR):])
    if k == SEED:
        return ("SEED", None)
    c = e["callee"]
    if c and c["krate"] == "postcard":
        f = cx.F.fn_by_canon(c["canon"])
        if f is not None:
            rt = f.locals[0]["ty"]
            m = re.match(r"^std::result::Result<(u16|u32|u64|u128), error::Error>$", rt)
            if m and f.argc == 1 and cx.is_self(e["args"][0]):
                N = int(m.group(1)[1:])
                info, why = cx.helpers.reader(c["canon"], N)
                return ("RD", (N, info, why))
            if f.argc == 1 and f.locals[1]["ty"] in ("u16", "u32", "u64", "u128"):
                info, why = cx.helpers.zz_dec(c["canon"])
                return ("ZD", (info, why))
        return ("OTHER", "call to %s" % k)
    return ("STD", k)


def failed_read(cx, p, evs):
    """the read event assumed to have failed on this path (tag == 1), if any"""
    for e in evs:
        kind, _ = classify(cx, e)
        if kind in ("POP", "TAKE", "RD"):
            t = p.tagfacts.get(("tag", e["result"]))
            if t == 1:
                return e
    return None


def strip_map_ok(t):
    """okval through Result::map closures (try_take_varint_usize's `as usize`)"""
    return t


def reads_of(cx, evs):
    out = []
    for e in evs:
        kind, info = classify(cx, e)
        if kind in ("POP", "TAKE", "RD"):
            out.append((kind, info, e))
    return out


def okval_of(e):
    return norm(("okval", e["result"]))


def decide(cx, cond):
    """True/False/None by BIT, falling back to LIN over the path's guards"""
    cond = norm(cond)
    try:
        d = cx.bits.decide(cond)
        if d is not None:
            return d
    except Top:
        pass
    if cond[0] == "bin" and cond[1] in ("Lt", "Le", "Gt", "Ge"):
        facts = lin.facts_from_pc([(norm(c), t, k) for c, t, k in cx.path.pc])
        try:
            t = lin.cmp_facts(cond[1], cond[2], cond[3], True)
            f = lin.cmp_facts(cond[1], cond[2], cond[3], False)
            if t and all(lin.implies(facts, g) for g in t):
                return True
            if f and all(lin.implies(facts, g) for g in f):
                return False
        except Exception:
            return None
    return None


def same_int(cx, a, b):
    return tbl.same(cx.bits, a, b)


def expect_reads(cx, evs, want):
    """want: list like ['POP'], ['RD64','TAKE'] ; returns (events, error)"""
    rs = reads_of(cx, evs)
    got = []
    for kind, info, e in rs:
        if kind == "RD":
            N, ok, why = info
            if ok is None:
                return None, "varint reader %s is not verified: %s" % (e["key"], why)
            got.append("RD%d" % N)
        else:
            got.append(kind)
    if got != want:
        return None, "reads %s, expected %s" % (got or "nothing", want or "nothing")
    return [e for _, _, e in rs], None


def visit_of(cx, evs):
    vs = [e for e in evs if classify(cx, e)[0] == "VISIT"]
    return vs


def other_effects(cx, evs, allow_std=()):
    for e in evs:
        kind, info = classify(cx, e)
        if kind == "OTHER":
            return info
        if kind == "STD" and not any(e["key"].endswith(a) or a in e["key"] for a in allow_std) \
                and not e["key"].startswith("std::result::Result") and not e["key"].startswith("std::option::Option"):
            return "call to %s" % e["key"]
    return None


ACCESS_TYPES = {}      # "SeqAccess" / "MapAccess" -> the local types that implement that serde trait (whatever they are called)


def is_access_impl(f, kinds=("SeqAccess", "MapAccess")):
    """a method of a local implementation of serde's SeqAccess / MapAccess (one type may implement both)"""
    return f.crate == "postcard" and (f.impl_trait or "") in tuple("serde_core::de::" + k for k in kinds) and "::test" not in f.canon


def note_access_types(F):
    ACCESS_TYPES.clear()
    for f in F.crate("postcard").fns:
        if is_access_impl(f):
            ACCESS_TYPES.setdefault(f.impl_trait.split("::")[-1], set()).add((f.impl_self or "").split("<")[0])


def seqaccess(cx, t, len_expected, kind="SeqAccess"):
    t = norm(t)
    if not (t[0] == "agg" and t[1] == "adt" and (t[2].endswith("::" + kind) or t[2].split("::", 1)[-1] in ACCESS_TYPES.get(kind, ()))):
        return "visitor does not receive a %s" % kind
    # the two parts by what they hold (their names are private): the deserializer reference and the element count
    vals = [norm(v) for v in t[5]]
    if len(vals) != 2 or cx.self_ not in vals:
        return "%s does not wrap this deserializer" % kind
    ln = [v for v in t[5] if norm(v) != cx.self_]
    if len(ln) != 1 or not same_int(cx, ln[0], len_expected):
        return "%s length is %s, expected %s" % (kind, sym.show(norm(ln[0])) if ln else "?", sym.show(norm(len_expected)))
    return None


def usize_of_rd64(e):
    """the usize length obtained from a 64-bit varint read through try_take_varint_usize"""
    return norm(("cast", "IntToInt", okval_of(e), "u64", "usize"))


def check_method(run, F, helpers, fn):
    if not ACCESS_TYPES:
        note_access_types(F)
    tr = (fn.impl_trait or "").split("::")[-1]
    key = "%s::%s" % (tr, fn.name)
    site = fn.where()
    n = fn.name
    eng = sym.Engine(F, inline=inline_policy, max_visits=2)
    paths = [p for p in eng.run(fn) if p.status != "infeasible"]
    try:
        paths = summ2.expand_paths(F, fn, paths)
    except Exception as ex:
        run.bad("T1", key, "could not normalise the returned values: %s" % ex, site)
        return
    problems = []
    accepts = 0

    def P(i):
        return ("param", i, fn.locals[i]["ty"])
    if n == "is_human_readable":
        okc = len(paths) == 1 and paths[0].ret == FALSE
        run.check(okc, "T1", key, "is_human_readable() must be false", site)
        return
    visitor_param = None
    for i in range(1, fn.argc + 1):
        if fn.locals[i]["name"] in ("visitor", "_visitor", "seed"):
            visitor_param = P(i)
    seen_classes = set()
    for p in paths:
        if p.status != "return":
            problems.append("a path ends in %s" % p.status)
            continue
        cx = DeCx(F, helpers, fn, p)
        evs = tbl.residual_calls(p)
        fr = failed_read(cx, p, evs)
        if fr is not None:
            # C03.E1: propagate unchanged, nothing after it
            if not propagates(p.ret, fr["result"]):
                problems.append("E1: failure of %s is not propagated unchanged (returns %s)" % (fr["key"], sym.show(p.ret)))
            if evs.index(fr) != len(evs) - 1 and any(classify(cx, e)[0] not in ("STD",) for e in evs[evs.index(fr) + 1:]):
                problems.append("E1: continues after a failed read")
            seen_classes.add("readfail")
            continue
        err = check_accept_or_reject(cx, fn, p, evs, P, seen_classes)
        if err:
            problems.append(err)
    need = required_classes(n, tr)
    missing = need - seen_classes
    if missing and not problems:
        problems.append("missing behaviour class(es): %s" % sorted(missing))
    if problems:
        run.bad("T1", key, problems[0], site, expected=describe(n, tr), found=problems[:6])
    else:
        run.ok("T1", key, describe(n, tr), site, method="TBL+BIT over %d path(s)" % len(paths))


def propagates(ret, result):
    """the returned value is the failure of `result`, unchanged"""
    if ret == ("err_from", result) or _err_from_through_map(ret, {"result": result}):
        return True
    src = summ2.err_source(ret)
    return src is not None and norm(src) == norm(result)


def _err_from_through_map(ret, fr):
    # try_take_varint_usize(...)? : err_from(map_ok(call, ..))
    if ret[0] == "err_from":
        r = ret[1]
        while r[0] in ("map_ok",):
            r = r[1]
        return r == fr["result"]
    return False


def required_classes(n, tr):
    if n in ("deserialize_bool", "deserialize_option"):
        return {"tag0", "tag1", "tagbad", "readfail"}
    if n == "deserialize_char":
        return {"accept", "readfail", "rej_len", "rej_utf8", "rej_empty"}
    if n in ("deserialize_str", "deserialize_string"):
        return {"accept", "readfail", "rej_utf8"}
    if n in ("deserialize_any", "deserialize_identifier", "deserialize_ignored_any"):
        return {"wont"}
    if n in ("next_element_seed", "next_key_seed"):
        return {"some", "none"}
    if n == "size_hint":
        return set()
    return {"accept"}


def describe(n, tr):
    D = {
        "deserialize_bool": "POP b; 0->visit_bool(false), 1->visit_bool(true), else BadBool",
        "deserialize_option": "POP b; 0->visit_none, 1->visit_some(self), else BadOption",
        "deserialize_char": "RDVAR<usize> sz; sz>4 -> BadChar; TAKE sz; not utf8 -> BadChar; not exactly one scalar -> BadChar; visit_char",
        "deserialize_str": "RDVAR<usize> sz; TAKE sz; not utf8 -> BadUtf8; visit_borrowed_str(taken)",
    }
    return D.get(n, "table cell for %s::%s" % (tr, n))


INT_W = {"u16": 16, "u32": 32, "u64": 64, "u128": 128, "i16": 16, "i32": 32, "i64": 64, "i128": 128}


def check_accept_or_reject(cx, fn, p, evs, P, seen):
    n = fn.name
    ret = p.ret
    vis = visit_of(cx, evs)
    F = cx.F

    def tail_is(e):
        # the call's result is the function's result (directly, or eta-expanded into Ok(okval(r)) / Err(errval(r)))
        if ret == e["result"]:
            return True
        if ret[0] == "agg" and ret[3] == "Ok" and ret[5] and norm(ret[5][0]) == norm(("okval", e["result"])):
            return True
        return propagates(ret, e["result"])

    def errkind():
        return tbl.error_variant(F, ret)
    # ---- refusals ---------------------------------------------------------------------------------
    if n in ("deserialize_any", "deserialize_identifier", "deserialize_ignored_any"):
        if evs:
            return "performs %s although the request cannot be served" % evs[0]["key"]
        if errkind() != "WontImplement":
            return "returns %s, expected Err(WontImplement)" % sym.show(ret)
        seen.add("wont")
        return None
    # ---- tag bytes ----------------------------------------------------------------------------------
    if n in ("deserialize_bool", "deserialize_option"):
        rs, err = expect_reads(cx, evs, ["POP"])
        if err:
            return err
        b = okval_of(rs[0])
        try:
            is0 = cx.bits.decide(("bin", "Eq", b, C(0, "u8"), "bool"))
            is1 = cx.bits.decide(("bin", "Eq", b, C(1, "u8"), "bool"))
        except Top as e:
            return "cannot decide the tag value on a path (%s)" % e
        bad_kind = "DeserializeBadBool" if n == "deserialize_bool" else "DeserializeBadOption"
        if is0 is True or is1 is True:
            k = 0 if is0 else 1
            if len(vis) != 1 or not tail_is(vis[0]):
                return "tag %d: expected exactly one visitor call in tail position" % k
            v = vis[0]
            if n == "deserialize_bool":
                if v["key"] != VISITOR + "visit_bool" or v["args"][1] != (TRUE if k else FALSE):
                    return "tag %d decodes to %s(%s)" % (k, v["key"].split("::")[-1], sym.show(v["args"][1]))
            else:
                want = "visit_some" if k else "visit_none"
                if v["key"] != VISITOR + want:
                    return "option tag %d calls %s, expected %s" % (k, v["key"].split("::")[-1], want)
                if k and not cx.is_self(v["args"][1]):
                    return "visit_some does not continue with this deserializer"
            seen.add("tag%d" % k)
            return None
        if n == "deserialize_bool" and is0 is None and is1 is None and len(vis) == 1 and tail_is(vis[0]) \
                and vis[0]["key"] == VISITOR + "visit_bool" and decide(cx, ("bin", "Le", b, C(1, "u8"), "bool")) is True:
            # data-dependent form: `visit_bool(byte == 1)` under byte <= 1; check both remaining tag values
            okb = True
            for k in (0, 1):
                b2 = tbl.path_bits(p)
                try:
                    b2.cond(("bin", "Eq", b, C(k, "u8"), "bool"), True)
                    arg = norm(vis[0]["args"][1])
                    d = (arg == (TRUE if k else FALSE)) if sym.is_c(arg) else (b2.decide(arg) is bool(k))
                except Top:
                    d = False
                if b2.infeasible or not d:
                    okb = False
            if okb:
                seen.update(("tag0", "tag1"))
                return None
            return "visit_bool argument is not `tag == 1` for tags 0 and 1"
        if is0 is False and is1 is False:
            if vis:
                return "a tag other than 0/1 is accepted (%s)" % vis[0]["key"].split("::")[-1]
            if errkind() != bad_kind:
                return "a tag other than 0/1 returns %s, expected Err(%s)" % (sym.show(ret), bad_kind)
            seen.add("tagbad")
            return None
        return "a path does not determine whether the tag is 0, 1 or something else"
    # ---- fixed-size and varint scalars ---------------------------------------------------------------
    if n == "deserialize_u8" or n == "deserialize_i8":
        rs, err = expect_reads(cx, evs, ["POP"])
        if err:
            return err
        want = "visit_" + n.split("_")[1]
        if len(vis) != 1 or vis[0]["key"] != VISITOR + want or not tail_is(vis[0]):
            return "expected %s in tail position" % want
        exp = okval_of(rs[0]) if n.endswith("u8") else ("cast", "IntToInt", okval_of(rs[0]), "u8", "i8")
        if not same_int(cx, vis[0]["args"][1], exp):
            return "%s receives %s, expected the byte read" % (want, sym.show(norm(vis[0]["args"][1])))
        seen.add("accept")
        return other_effects(cx, evs)
    for t, w in INT_W.items():
        if n == "deserialize_" + t:
            rs, err = expect_reads(cx, evs, ["RD%d" % w])
            if err:
                return err
            if len(vis) != 1 or vis[0]["key"] != VISITOR + "visit_" + t or not tail_is(vis[0]):
                return "expected visit_%s in tail position" % t
            arg = norm(vis[0]["args"][1])
            if t.startswith("u"):
                if not same_int(cx, arg, okval_of(rs[0])):
                    return "visit_%s receives %s, expected the varint read" % (t, sym.show(arg))
            else:
                zs = [e for e in evs if classify(cx, e)[0] == "ZD"]
                if len(zs) != 1:
                    return "expected exactly one inverse zig-zag call"
                info, why = classify(cx, zs[0])[1]
                if info is None:
                    return "%s is not a verified inverse zig-zag map: %s" % (zs[0]["key"], why)
                if info["N"] != w:
                    return "inverse zig-zag of width %d used for %s" % (info["N"], t)
                if not same_int(cx, zs[0]["args"][0], okval_of(rs[0])) or arg != norm(zs[0]["result"]):
                    return "visit_%s does not receive unzigzag(varint read)" % t
            seen.add("accept")
            return other_effects(cx, evs)
    if n in ("deserialize_f32", "deserialize_f64"):
        nb = 4 if n.endswith("32") else 8
        rs, err = expect_reads(cx, evs, ["TAKE"])
        if err:
            return err
        if norm(rs[0]["args"][1]) != C(nb, "usize"):
            return "takes %s bytes, expected %d" % (sym.show(norm(rs[0]["args"][1])), nb)
        want = "visit_f%d" % (nb * 8)
        if len(vis) != 1 or vis[0]["key"] != VISITOR + want or not tail_is(vis[0]):
            return "expected %s in tail position" % want
        arg = norm(vis[0]["args"][1])
        taken = okval_of(rs[0])
        elems = tuple(("init", ("I", ("P", taken), C(i, "usize"))) for i in range(nb))
        exp = ("from_bits", ("from_bytes", "le", "u%d" % (nb * 8), ("agg", "array", None, None, None, elems)))
        if arg != norm(exp):
            return "%s receives %s, expected from_bits(from_le_bytes(the %d bytes taken, in order))" % (want, sym.show(arg), nb)
        seen.add("accept")
        return other_effects(cx, evs, allow_std=("copy_from_slice",))
    # ---- length-prefixed --------------------------------------------------------------------------------
    if n in ("deserialize_str", "deserialize_string", "deserialize_bytes", "deserialize_byte_buf", "deserialize_char"):
        rs = reads_of(cx, evs)
        if not rs or rs[0][0] != "RD" or rs[0][1][0] != 64:
            return "does not start by reading a varint(usize) length"
        if rs[0][1][1] is None:
            return "length reader not verified: %s" % rs[0][1][2]
        sz = usize_of_rd64(rs[0][2])
        if n == "deserialize_char":
            # length guard before the take
            gt4 = decide(cx, ("bin", "Gt", sz, C(4, "usize"), "bool"))
            if len(rs) == 1:
                if gt4 is True and errkind() == "DeserializeBadChar" and not vis:
                    seen.add("rej_len")
                    return None
                return "after reading the length nothing is taken, but this is not the length>4 => BadChar edge (returns %s)" % sym.show(ret)
            if gt4 is not False:
                return "takes the char bytes without having excluded length > 4"
        if len(rs) != 2 or rs[1][0] != "TAKE":
            return "expected RDVAR<usize> then TAKE(len), found %s" % [r[0] for r in rs]
        if not same_int(cx, rs[1][2]["args"][1], sz):
            return "takes %s bytes, expected the length just read" % sym.show(norm(rs[1][2]["args"][1]))
        taken = okval_of(rs[1][2])
        if n in ("deserialize_bytes", "deserialize_byte_buf"):
            if len(vis) != 1 or vis[0]["key"] != VISITOR + "visit_borrowed_bytes" or not tail_is(vis[0]):
                return "expected visit_borrowed_bytes in tail position"
            if norm(vis[0]["args"][1]) != taken:
                return "visit_borrowed_bytes does not receive the slice taken from the input"
            seen.add("accept")
            return other_effects(cx, evs)
        u8s = [e for e in evs if e["key"].endswith("str::from_utf8") or e["key"].endswith("converts::from_utf8")]
        if len(u8s) != 1 or norm(u8s[0]["args"][0]) != taken:
            return "the bytes taken are not validated with from_utf8"
        ut = p.tagfacts.get(("tag", u8s[0]["result"]))
        bad = "DeserializeBadUtf8" if n != "deserialize_char" else "DeserializeBadChar"
        if ut == 1:
            if vis or errkind() != bad:
                return "invalid UTF-8 returns %s, expected Err(%s)" % (sym.show(ret), bad)
            seen.add("rej_utf8")
            return None
        if ut != 0:
            return "result of from_utf8 is not checked"
        s = norm(("okval", u8s[0]["result"]))
        if n in ("deserialize_str", "deserialize_string"):
            if len(vis) != 1 or vis[0]["key"] != VISITOR + "visit_borrowed_str" or not tail_is(vis[0]):
                return "expected visit_borrowed_str in tail position"
            if norm(vis[0]["args"][1]) != s:
                return "visit_borrowed_str does not receive the validated view of the taken slice"
            seen.add("accept")
            return other_effects(cx, evs, allow_std=("from_utf8",))
        # char
        return check_char_tail(cx, p, evs, vis, s, sz, seen, errkind, tail_is)
    # ---- no-byte kinds ------------------------------------------------------------------------------------
    if n in ("deserialize_unit", "deserialize_unit_struct"):
        _, err = expect_reads(cx, evs, [])
        if err:
            return err
        if len(vis) != 1 or vis[0]["key"] != VISITOR + "visit_unit" or not tail_is(vis[0]):
            return "expected visit_unit in tail position"
        seen.add("accept")
        return other_effects(cx, evs)
    if n in ("deserialize_newtype_struct", "deserialize_enum"):
        _, err = expect_reads(cx, evs, [])
        if err:
            return err
        want = "visit_newtype_struct" if n.endswith("struct") else "visit_enum"
        if len(vis) != 1 or vis[0]["key"] != VISITOR + want or not tail_is(vis[0]) or not cx.is_self(vis[0]["args"][1]):
            return "expected %s(self) in tail position" % want
        seen.add("accept")
        return other_effects(cx, evs)
    if n in ("deserialize_seq", "deserialize_map"):
        rs, err = expect_reads(cx, evs, ["RD64"])
        if err:
            return err
        want, kind = ("visit_seq", "SeqAccess") if n.endswith("seq") else ("visit_map", "MapAccess")
        if len(vis) != 1 or vis[0]["key"] != VISITOR + want or not tail_is(vis[0]):
            return "expected %s in tail position" % want
        err = seqaccess(cx, vis[0]["args"][1], usize_of_rd64(rs[0]), kind)
        if err:
            return err
        seen.add("accept")
        return other_effects(cx, evs)
    if n in ("deserialize_tuple", "deserialize_tuple_struct", "deserialize_struct", "tuple_variant", "struct_variant"):
        _, err = expect_reads(cx, evs, [])
        if err:
            return "arity is static and must not be read from the wire: " + err
        if len(vis) != 1 or vis[0]["key"] != VISITOR + "visit_seq" or not tail_is(vis[0]):
            return "expected visit_seq in tail position"
        if n == "deserialize_tuple":
            ln = P(2)
        elif n == "deserialize_tuple_struct":
            ln = P(3)
        elif n == "deserialize_struct":
            ln = ("len", P(3))
        elif n == "tuple_variant":
            ln = P(2)
        else:
            ln = ("len", P(2))
        err = seqaccess(cx, vis[0]["args"][1], ln)
        if err:
            return err
        seen.add("accept")
        return other_effects(cx, evs)
    # ---- access impls ---------------------------------------------------------------------------------------
    if n == "unit_variant":
        if evs or not (ret[0] == "agg" and ret[3] == "Ok"):
            return "unit_variant must read nothing and return Ok(())"
        seen.add("accept")
        return None
    if n in ("newtype_variant_seed", "next_value_seed"):
        sd = [e for e in evs if classify(cx, e)[0] == "SEED"]
        if len(sd) != 1 or not tail_is(sd[0]) or reads_of(cx, evs):
            return "expected exactly seed.deserialize(deserializer) in tail position"
        tgt = norm(sd[0]["args"][1])
        ok_t = tgt == cx.self_ if n == "newtype_variant_seed" else tgt == ("init", ("F", ("P", cx.self_), cx.deser_field))
        if not ok_t:
            return "seed is not driven by this deserializer"
        seen.add("accept")
        return other_effects(cx, evs)
    if n == "variant_seed":
        rs, err = expect_reads(cx, evs, ["RD32"])
        if err:
            return "variant index must be read as varint(u32): " + err
        sd = [e for e in evs if classify(cx, e)[0] == "SEED"]
        into = [e for e in evs if e["key"].endswith("IntoDeserializer::into_deserializer")]
        if len(sd) != 1 or len(into) != 1 or norm(into[0]["args"][0]) != okval_of(rs[0]) or norm(sd[0]["args"][1]) != norm(into[0]["result"]):
            return "the variant index read is not what is handed to the variant seed"
        st = p.tagfacts.get(("tag", sd[0]["result"]))
        if st == 1:
            if not propagates(ret, sd[0]["result"]):
                return "seed failure not propagated"
            return None
        if not (ret[0] == "agg" and ret[3] == "Ok"):
            return "expected Ok((value, self))"
        pay = ret[5][0]
        if not (pay[0] == "agg" and pay[1] == "tuple" and norm(pay[5][0]) == norm(("okval", sd[0]["result"])) and cx.is_self(pay[5][1])):
            return "expected Ok((seed value, self)), found %s" % sym.show(ret)
        seen.add("accept")
        return None
    if n in ("next_element_seed", "next_key_seed"):
        lenloc = ("F", ("P", cx.self_), cx.count_field)
        ln0 = ("init", lenloc)
        sd = [e for e in evs if classify(cx, e)[0] == "SEED"]
        wr = [e for e in p.events if e["k"] == "write" and e["loc"] == lenloc]
        nz = decide(cx, ("bin", "Gt", ln0, C(0, "usize"), "bool"))
        if not sd:
            if nz is not False:
                return "returns None although elements may remain (len not known to be 0)"
            if wr or evs or not (ret[0] == "agg" and ret[3] == "Ok" and ret[5][0][3] == "None"):
                return "exhausted access must return Ok(None) without effects"
            seen.add("none")
            return None
        if nz is not True:
            return "reads an element although len may be 0"
        if len(wr) != 1 or not same_int(cx, wr[0]["val"], ("bin", "Sub", ln0, C(1, "usize"), "usize")):
            return "len is not decremented by exactly one per element"
        if len(sd) != 1 or norm(sd[0]["args"][1]) != ("init", ("F", ("P", cx.self_), cx.deser_field)):
            return "element seed is not driven by the wrapped deserializer"
        st = p.tagfacts.get(("tag", sd[0]["result"]))
        if st == 1:
            if not propagates(ret, sd[0]["result"]):
                return "element failure not propagated"
            return None
        pay = ret[5][0] if ret[0] == "agg" and ret[3] == "Ok" else None
        if not (pay and pay[3] == "Some" and norm(pay[5][0]) == norm(("okval", sd[0]["result"]))):
            return "expected Ok(Some(element))"
        seen.add("some")
        return None
    if n == "size_hint":
        return None  # decided under C04.H
    return "no table cell for method %s" % n


def bin_tag(v):
    """variant index of an Option/Result from a tag fact: `not {1}` is 0 and `not {0}` is 1 (there are only two variants)"""
    if isinstance(v, tuple) and v and v[0] == "not":
        rest = {0, 1} - set(v[1])
        return rest.pop() if len(rest) == 1 else None
    return v


def check_char_tail(cx, p, evs, vis, s, sz, seen, errkind, tail_is):
    """after from_utf8 succeeded: exactly one scalar must be required (C03.V1)"""
    chars = [e for e in evs if e["key"].endswith("<impl str>::chars")]
    nexts = [e for e in evs if e["key"] == "core::iter::traits::iterator::Iterator::next"]
    if len(chars) != 1 or norm(chars[0]["args"][0]) != s or not nexts:
        return "char: validated str is not decomposed with chars().next()"
    first = nexts[0]
    t1 = first["result"]
    # first scalar missing -> BadChar  (ok_or)
    tagv = None
    for a, v in p.tagfacts.items():
        if a == ("tag", t1):
            tagv = bin_tag(v)
    if tagv == 0:
        if vis or errkind() != "DeserializeBadChar":
            return "empty char encoding returns something other than Err(BadChar)"
        seen.add("rej_empty")
        return None
    if tagv != 1:
        return "result of chars().next() is not checked"
    c = norm(("someval", t1))
    if not vis:
        # a reject after the first scalar: must be the more-than-one-scalar edge
        if errkind() == "DeserializeBadChar":
            seen.add("rej_multi")
            return None
        return "unexpected rejection %s" % sym.show(p.ret)
    if len(vis) != 1 or vis[0]["key"] != VISITOR + "visit_char" or not tail_is(vis[0]) or norm(vis[0]["args"][1]) != c:
        return "expected visit_char(first scalar) in tail position"
    # V1: evidence that there is exactly one scalar on the accept path
    single = False
    if len(nexts) >= 2:
        t2 = nexts[1]["result"]
        if bin_tag(p.tagfacts.get(("tag", t2))) == 0:
            single = True
    for cond, truth, kind in p.pc:
        txt = repr(cond)
        if "len_utf8" in txt and cond[0] == "bin" and ((cond[1] == "Eq" and truth is True) or (cond[1] == "Ne" and truth is False)):
            single = True
        if "Iterator::count" in txt and cond[0] == "bin" and cond[1] == "Eq" and truth is True:
            single = True
    seen.add("accept")
    if not single:
        return "V1: a char is accepted without checking that the encoded string holds exactly one scalar value " \
               "(e.g. [2,'a','b'] decodes to 'a'); the specification allows only the UTF-8 encoding of one char"
    return None


# ---- slice cursor (R1) ----------------------------------------------------------------------------

def check_slice_flavor(run, F):
    """C03.R1: the slice source against its hand-written specification (rules/handspec.py)"""
    import glue
    import handspec
    pc = F.crate("postcard")
    ren = glue.renames(F, pc, glue.load2("A"))
    handspec.check(run, "R1", F, pc, [k for k in handspec.HAND if k.startswith("<de::flavors::Slice<")],
                   "slice source: exact guard, hands out [cursor, cursor+n), advances by n, nothing moves on failure", renames=ren)


def _is_ptr_add(v, base, n):
    v = norm(v)
    return v[0] == "call" and v[2].endswith("::add") and ("const_ptr" in v[2] or "mut_ptr" in v[2]) and v[3] == (base, n)


def run(run_, ctx):
    F = ctx.facts("A")
    helpers = ctx.helpers("A")
    pc = F.crate("postcard")
    run_.configs.append("A")
    run_.bodies += len(pc.fns)
    fns = [f for f in pc.fns if f.dk == "AssocFn" and (
        (is_deser_self(f.impl_self) and f.impl_trait in (DE_TRAIT, "serde_core::de::VariantAccess", "serde_core::de::EnumAccess"))
        or is_access_impl(f))]
    for f in sorted(fns, key=lambda f: (f.impl_trait, f.name)):
        if f.name == "size_hint":
            continue
        check_method(run_, F, helpers, f)
    run_.floor("T1", 40)
    check_slice_flavor(run_, F)
    run_.floor("R1", 5)
    for (kind, canon, *rest), (info, why) in sorted(helpers.memo.items(), key=lambda kv: str(kv[0])):
        if kind in ("R", "ZD"):
            nm = {"R": "varint reader (accept set, value, consumption)", "ZD": "inverse zig-zag map"}[kind]
            if info:
                run_.ok("B1", canon, "%s for all inputs of width %d (BIT)" % (nm, info["N"]), method="BIT")
            else:
                run_.bad("B1", canon, "not a %s: %s" % (nm, why))
    run_.floor("B1", 8)
    run_.explanation = (
        "Every method of postcard's serde Deserializer and of its Seq/Map/Enum/Variant access impls is explored along "
        "all MIR paths. Per path the reads (pop / varint reader / take n), validation edges and their error kinds, the "
        "visitor call and its argument expression are matched against a table transcribed from spec/src/wire-format.md; "
        "a failing read must be returned unchanged (so a strict prefix of a valid message yields the flavor's "
        "unexpected-end error). Varint readers are decided for all byte strings by BIT (accepts iff <= varint_max groups "
        "and the value fits; value = sum of 7-bit groups; consumes up to the first clear continuation bit). The slice "
        "flavor's pop/take/finalize are checked to return exactly the bytes at the cursor and the unread tail.")
    run_.trusted += ["serde visitors and Deserialize impls", "core::str::from_utf8 / chars()", "rustc MIR"]
    run_.assumptions += ["64-bit host: try_take_varint_usize = 64-bit reader (16/32-bit cfg arms not compiled here)"]
    run_.not_analysed += ["de::deserializer::try_take_varint_usize cfg(target_pointer_width = 16|32) variants"]
