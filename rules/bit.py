"""BIT — bit-precise affine abstract domain over GF(2).

A w-bit integer term is abstracted to w *rows*; each row is an affine form over the bits of the
atomic inputs (function parameters, bytes returned by `pop()`), stored as a Python int used as a
bit-set: bit 0 is the constant 1, bit j>0 is input bit j.  Path conditions that are conjunctions of
row equalities are kept exactly as a reduced system of linear equations; conditions of the form
"some row of this set is 1" (the negation of a multi-row zero test) are kept as *residuals*.
Everything that is not bit-affine raises Top and the obligation that needed it fails closed.

No SAT/SMT solver is involved: the only decision procedure is Gaussian elimination over GF(2).
"""
import re

from sym import INT_BITS, is_signed, is_c

ONE = 1


class Top(Exception):
    pass


def result_ok_ty(retty):
    m = re.match(r"^(?:std|core)::result::Result<([A-Za-z0-9_]+), ", retty or "")
    if m:
        return m.group(1)
    m = re.match(r"^(?:std|core)::option::Option<([A-Za-z0-9_]+)>", retty or "")
    if m:
        return m.group(1)
    return None


def term_ty(t):
    k = t[0]
    if k == "c":
        return t[2]
    if k == "param":
        return t[2]
    if k == "bin":
        return t[4]
    if k == "un":
        return t[3]
    if k == "cast":
        return t[4]
    if k in ("okval", "someval") and t[1][0] == "call":
        return result_ok_ty(t[1][4])
    if k in ("okval", "someval") and t[1][0] == "param":
        return result_ok_ty(t[1][2])
    if k == "len":
        return "usize"
    if k == "to_bits":
        it = term_ty(t[1])
        return {"f32": "u32", "f64": "u64"}.get(it)
    if k == "getf" and t[1][0] in ("okval", "someval") and t[1][1][0] == "call":
        # field of a tuple payload, e.g. Result<(u8, &[u8]), E>
        m = re.match(r"^(?:std|core)::result::Result<\(([A-Za-z0-9_]+), ", t[1][1][4] or "")
        if m and t[2] == "0":
            return m.group(1)
    if k == "call":
        return t[4]
    if k == "atom":
        return t[2]
    return None


class Bits:
    def __init__(self):
        self.vars = {}       # atom term -> (base index, width)
        self.names = {}      # base index -> atom
        self.n = 1
        self.piv = {}        # pivot bit -> mask (mask == 0 is an equation)
        self.residuals = []  # list of tuples of rows (at least one of them equals 1)
        self.infeasible = False
        self.memo = {}
        self.types = {}      # declared types of otherwise untyped atoms (e.g. initial field values)

    # ---- variables ---------------------------------------------------------------------
    def atom(self, t, width):
        if t not in self.vars:
            self.vars[t] = (self.n, width)
            self.names[self.n] = t
            self.n += width
        base, w = self.vars[t]
        if w != width:
            raise Top("atom width mismatch")
        return [1 << (base + i) for i in range(w)]

    # ---- linear algebra -------------------------------------------------------------------
    def reduce(self, m):
        # the basis is kept fully reduced, so one pass over the pivots suffices
        if m <= 1:
            return m
        for b, p in self.piv.items():
            if (m >> b) & 1:
                m ^= p
        return m

    def add_eq(self, m):
        """assert m == 0"""
        m = self.reduce(m)
        if m == 0:
            return
        if m == ONE:
            self.infeasible = True
            return
        b = m.bit_length() - 1
        # keep the basis reduced
        for k, p in list(self.piv.items()):
            if p >> b & 1:
                self.piv[k] = p ^ m
        self.piv[b] = m
        self._simplify_residuals()

    def add_residual(self, rows):
        rs = []
        for r in rows:
            r = self.reduce(r)
            if r == ONE:
                return
            if r != 0:
                rs.append(r)
        if not rs:
            self.infeasible = True
            return
        if len(set(rs)) == 1:
            self.add_eq(rs[0] ^ ONE)
            return
        self.residuals.append(tuple(rs))

    def _simplify_residuals(self):
        old = self.residuals
        self.residuals = []
        for rs in old:
            if self.infeasible:
                return
            self.add_residual(rs)

    def all_zero(self, rows):
        """True / False / None: are all rows definitely 0 (True), is one definitely 1 (False)"""
        rr = [self.reduce(r) for r in rows]
        if all(r == 0 for r in rr):
            return True
        if any(r == ONE for r in rr):
            return False
        # a residual that is contained in these rows makes them not all zero
        s = set(r for r in rr if r != 0)
        for res in self.residuals:
            if all(self.reduce(x) in s for x in res):
                return False
        return None

    # ---- terms -> rows ------------------------------------------------------------------------
    def rows(self, t):
        r = self.memo.get(t)
        if r is None:
            r = self._rows(t)
            self.memo[t] = r
        return r

    def _rows(self, t):
        k = t[0]
        ty = term_ty(t) or self.types.get(t)
        w = INT_BITS.get(ty)
        if k == "init" and w is not None:
            return self.atom(t, w)
        if k == "c":
            if w is None:
                raise Top("constant of type %s" % ty)
            return [ONE if (t[1] >> i) & 1 else 0 for i in range(w)]
        if k == "param" and ty == "bool":
            return self.atom(t, 1)
        if k in ("param", "okval", "someval", "atom", "call", "len", "to_bits", "getf"):
            if w is None:
                raise Top("atom of non-integer type %r" % (ty,))
            return self.atom(t, w)
        if k == "cast":
            if t[1] != "IntToInt":
                raise Top("cast " + t[1])
            a = self.rows(t[2])
            fw = len(a)
            if w is None:
                raise Top("cast to " + str(ty))
            if ty == "bool":
                raise Top("cast to bool")
            if w <= fw:
                return a[:w]
            fill = a[-1] if is_signed(t[3]) else 0
            return a + [fill] * (w - fw)
        if k == "un":
            a = self.rows(t[2])
            if t[1] == "Not":
                return [r ^ ONE for r in a]
            if t[1] == "Neg":
                if all(self.reduce(r) == 0 for r in a[1:]):
                    return [a[0]] * len(a)
                raise Top("negation of a value not known to be 0/1")
            raise Top("unary " + t[1])
        if k == "bin":
            op = t[1]
            if op in ("Eq", "Ne", "Lt", "Le", "Gt", "Ge"):
                raise Top("comparison used as a value")
            a = self.rows(t[2])
            n = len(a)
            if op in ("Shl", "Shr"):
                s = t[3]
                if not is_c(s):
                    raise Top("shift by a non-constant")
                sh = s[1]
                if sh >= n:
                    raise Top("shift amount %d >= width %d" % (sh, n))
                if op == "Shl":
                    return [0] * sh + a[:n - sh]
                fill = a[-1] if is_signed(term_ty(t[2])) else 0
                return a[sh:] + [fill] * sh
            b = self.rows(t[3])
            if len(b) != n:
                raise Top("width mismatch in " + op)
            if op == "BitXor":
                return [x ^ y for x, y in zip(a, b)]
            if op in ("BitAnd", "BitOr"):
                out = []
                for x, y in zip(a, b):
                    x, y = self.reduce(x), self.reduce(y)
                    if op == "BitAnd":
                        if x == 0 or y == 0:
                            out.append(0)
                        elif x == ONE:
                            out.append(y)
                        elif y == ONE:
                            out.append(x)
                        elif x == y:
                            out.append(x)
                        else:
                            raise Top("AND of two non-constant bits")
                    else:
                        if x == ONE or y == ONE:
                            out.append(ONE)
                        elif x == 0:
                            out.append(y)
                        elif y == 0:
                            out.append(x)
                        elif x == y:
                            out.append(x)
                        else:
                            raise Top("OR of two non-constant bits")
                return out
            if op in ("Add", "Sub", "Mul"):
                ra = [self.reduce(x) for x in a]
                rb = [self.reduce(x) for x in b]
                if all(x in (0, ONE) for x in ra + rb):
                    av = sum(1 << i for i, x in enumerate(ra) if x == ONE)
                    bv = sum(1 << i for i, x in enumerate(rb) if x == ONE)
                    v = {"Add": av + bv, "Sub": av - bv, "Mul": av * bv}[op] & ((1 << n) - 1)
                    return [ONE if (v >> i) & 1 else 0 for i in range(n)]
                if op == "Add" and all(x == 0 or y == 0 for x, y in zip(ra, rb)):
                    return [x ^ y for x, y in zip(ra, rb)]
                raise Top("arithmetic " + op + " on non-constant bits")
            raise Top("binary " + op)
        raise Top("term kind " + k)

    # ---- conditions --------------------------------------------------------------------------
    def cond(self, c, truth):
        """Add condition `c == truth`.  Returns 'ok', or raises Top if not in the fragment."""
        k = c[0]
        if k == "c":
            if bool(c[1]) != bool(truth):
                self.infeasible = True
            return
        if k == "un" and c[1] == "Not":
            return self.cond(c[2], not truth)
        if k == "param" and c[2] == "bool":
            self.add_eq(self.rows(c)[0] ^ (ONE if truth else 0))
            return
        if k != "bin" or c[1] not in ("Eq", "Ne", "Lt", "Le", "Gt", "Ge"):
            raise Top("condition " + k)
        op, a, b = c[1], c[2], c[3]
        if is_c(a) and not is_c(b):
            a, b = b, a
            op = {"Lt": "Gt", "Le": "Ge", "Gt": "Lt", "Ge": "Le"}.get(op, op)
        if op in ("Eq", "Ne"):
            ra, rb = self.rows(a), self.rows(b)
            if len(ra) != len(rb):
                raise Top("width mismatch in comparison")
            x = [p ^ q for p, q in zip(ra, rb)]
            if (op == "Eq") == bool(truth):
                for r in x:
                    self.add_eq(r)
            else:
                self.add_residual(x)
            return
        if not is_c(b):
            raise Top("ordering of two non-constants")
        aty = term_ty(a)
        if is_signed(aty or ""):
            # only the sign test is bit-affine:  x < 0  <=>  sign bit set ;  x >= 0  <=>  sign bit clear
            sv = b[1] - (1 << INT_BITS[aty]) if b[1] >> (INT_BITS[aty] - 1) else b[1]
            neg = None
            if (op, sv) in (("Lt", 0), ("Le", -1)):
                neg = True
            elif (op, sv) in (("Ge", 0), ("Gt", -1)):
                neg = False
            if neg is None:
                raise Top("signed ordering")
            sign = self.rows(a)[-1]
            self.add_eq(sign ^ (ONE if (neg == bool(truth)) else 0))
            return
        ra = self.rows(a)
        w = len(ra)
        cv = b[1]
        # normalise to  x < bound
        if op == "Lt":
            bound, pos = cv, True
        elif op == "Le":
            bound, pos = cv + 1, True
        elif op == "Ge":
            bound, pos = cv, False
        else:  # Gt
            bound, pos = cv + 1, False
        want_lt = (pos == bool(truth))
        if bound <= 0:
            if want_lt:
                self.infeasible = True
            return
        if bound >= (1 << w):
            if not want_lt:
                self.infeasible = True
            return
        if bound & (bound - 1):
            raise Top("comparison with %d, not a power of two" % bound)
        kbit = bound.bit_length() - 1
        hi = ra[kbit:]
        if want_lt:
            for r in hi:
                self.add_eq(r)
        else:
            self.add_residual(hi)

    def decide(self, c):
        """True/False if the condition is implied/refuted by the current equalities, else None"""
        k = c[0]
        if k == "c":
            return bool(c[1])
        if k == "un" and c[1] == "Not":
            d = self.decide(c[2])
            return None if d is None else (not d)
        if k != "bin":
            raise Top("condition " + k)
        op, a, b = c[1], c[2], c[3]
        if is_c(a) and not is_c(b):
            a, b = b, a
            op = {"Lt": "Gt", "Le": "Ge", "Gt": "Lt", "Ge": "Le"}.get(op, op)
        if op in ("Eq", "Ne"):
            ra, rb = self.rows(a), self.rows(b)
            z = self.all_zero([p ^ q for p, q in zip(ra, rb)])
            if z is None:
                return None
            return z if op == "Eq" else (not z)
        if not is_c(b) or is_signed(term_ty(a) or ""):
            raise Top("ordering outside fragment")
        ra = self.rows(a)
        w = len(ra)
        cv = b[1]
        bound, pos = {"Lt": (cv, True), "Le": (cv + 1, True), "Ge": (cv, False), "Gt": (cv + 1, False)}[op]
        if bound <= 0:
            return not pos
        if bound >= (1 << w):
            return pos
        if bound & (bound - 1):
            # constant rows decide any bound
            rr = [self.reduce(r) for r in ra]
            if all(r in (0, ONE) for r in rr):
                v = sum(1 << i for i, r in enumerate(rr) if r == ONE)
                return (v < bound) == pos
            raise Top("comparison with %d, not a power of two" % bound)
        z = self.all_zero(ra[bound.bit_length() - 1:])
        if z is None:
            return None
        return z == pos

    def equal_rows(self, a, b):
        if len(a) != len(b):
            return False
        return all(self.reduce(x ^ y) == 0 for x, y in zip(a, b))

    def describe(self, row):
        row = self.reduce(row)
        if row == 0:
            return "0"
        parts = []
        if row & 1:
            parts.append("1")
        bases = sorted(self.names)
        j = 1
        x = row >> 1
        while x:
            if x & 1:
                base = max(b for b in bases if b <= j)
                parts.append("%s[%d]" % (_short(self.names[base]), j - base))
            x >>= 1
            j += 1
        return "^".join(parts)


def _short(t):
    if t[0] == "param":
        return "arg%d" % t[1]
    if t[0] == "okval" and t[1][0] == "call":
        return "byte#%d" % t[1][1]
    if t[0] == "atom":
        return str(t[1])
    return t[0]
