"""GRD — exact guards on raw-pointer cursors, decided with LIN.

For a cursor struct with fields (start?,) cursor, end the invariant  I: start <= cursor <= end  is
assumed at method entry and must be re-established by every write to `cursor`; every Ok path that
consumes n bytes must have guards implying  end - cursor >= n  (else: out of bounds), and every
error path must have guards implying  end - cursor <= n - 1  (else: fails although it fits).
"""
import lin
import sym
from sym import C
from tbl import norm


def ptr_atom(t):
    return t


def facts_with_ne(pc, extra):
    facts = list(extra)
    nes = []
    for cond, truth, kind in pc:
        cond = norm(cond)
        if isinstance(truth, tuple):
            continue
        c, tr = cond, truth
        while c[0] == "un" and c[1] == "Not":
            c, tr = c[2], (not tr)
        if c[0] == "bin" and ((c[1] == "Eq" and not tr) or (c[1] == "Ne" and tr)):
            nes.append((c[2], c[3]))
            continue
        facts += lin.facts_of_cond(cond, truth)
    # sharpen a != b with whatever ordering is already known
    for a, b in nes:
        try:
            if lin.implies(facts, lin.ge(b, a)):
                facts.append(lin.gt(b, a))
            elif lin.implies(facts, lin.ge(a, b)):
                facts.append(lin.gt(a, b))
        except Exception:
            pass
    return facts


def prove(pc, extra, goal):
    try:
        return lin.implies(facts_with_ne(pc, extra), goal)
    except Exception:
        return False


def invariant(cur, end, start=None):
    inv = [lin.ge(end, cur)]
    if start is not None:
        inv.append(lin.ge(cur, start))
    return inv


def fits(cur, end, n):
    """end - cursor >= n"""
    return lin.ge(("bin", "Sub", end, cur, "usize"), n)


def not_fits(cur, end, n):
    """end - cursor <= n - 1"""
    return lin.ge(("bin", "Sub", n, C(1, "usize"), "usize"), ("bin", "Sub", end, cur, "usize"))


def check_consume(path, cur, end, n, ok, start=None):
    """-> None if the guards on this path are exact for consuming n bytes, else a message"""
    inv = invariant(cur, end, start)
    if ok:
        if not prove(path.pc, inv, fits(cur, end, n)):
            return "guards on the success path do not imply that %s byte(s) remain before `end` (out-of-bounds access possible)" % sym.show(n)
    else:
        if not prove(path.pc, inv, not_fits(cur, end, n)):
            return "error path can be taken although %s byte(s) still fit (fails although it fits)" % sym.show(n)
    return None


def check_advance(path, new_cur, cur, end, n, start=None):
    """new cursor value == cursor + n (so the invariant is preserved given fits)"""
    try:
        d = lin.ge(norm(new_cur), ("bin", "Add", cur, n, "usize"))
        if d.co or d.c != 0:
            return "cursor becomes %s, expected cursor + %s" % (sym.show(norm(new_cur)), sym.show(n))
    except Exception as e:
        return "cursor update not linear (%s)" % e
    return None
