"""Canonical per-path summaries of small glue functions.

A summary is what a function *does* on each path — guard conditions, the ordered calls it makes to
code outside itself with their argument terms, the writes through its parameters, and the returned
term — printed in a normal form that does not depend on local numbering, temporaries, reborrows,
line numbers, statement order of independent pure computations, or how an error constant is
produced (`map_err(|_| E)` closures are evaluated).  Rules compare summaries with expected ones
written from the specification of the glue (not with source text).
"""
import sym
import tbl
from tbl import norm


class Canon:
    def __init__(self, F, path, fn):
        self.F = F
        self.path = path
        self.fn = fn
        self.ids = {}
        n = 0
        for e in path.events:
            if e["k"] == "call" and not e.get("modelled") and not e.get("inlined"):
                n += 1
                self.ids[e["id"]] = n

    def loc(self, l):
        k = l[0]
        if k == "L":
            return "_local"
        if k == "P":
            return "*" + self.t(l[1])
        if k == "F":
            b = self.loc(l[1])
            if b.startswith("*arg1") and self.fn.locals[1].get("name") == "self":
                b = b.replace("*arg1", "self", 1)
            return b + "." + l[2]
        if k == "D":
            return "(%s as %s)" % (self.loc(l[1]), l[2])
        if k == "I":
            return "%s[%s]" % (self.loc(l[1]), self.t(l[2]))
        if k == "S":
            return "%s[%s..%s]" % (self.loc(l[1]), self.t(l[2]), self.t(l[3]))
        return repr(l)

    def t(self, x, depth=0):
        if not isinstance(x, tuple) or not x:
            return repr(x)
        if depth > 14:
            return "…"
        r = lambda y: self.t(y, depth + 1)
        k = x[0]
        if k == "c":
            if x[2] == "bool":
                return "true" if x[1] else "false"
            return str(sym.sval(x) if sym.is_signed(x[2]) else x[1])
        if k == "param":
            if x[1] == 1 and self.fn.locals[1].get("name") == "self":
                return "self"
            return "arg%d" % x[1]
        if k == "unit":
            return "()"
        if k == "str":
            return repr(x[1])
        if k == "bin":
            return "%s(%s, %s)" % (x[1], r(x[2]), r(x[3]))
        if k == "un":
            return "%s(%s)" % (x[1], r(x[2]))
        if k == "cast":
            if x[1] == "PointerExposeProvenance":
                return "addr(%s)" % r(x[2])
            return "(%s as %s)" % (r(x[2]), x[4])
        if k == "ref":
            l = x[1]
            if l[0] == "P":
                return r(l[1])
            return "&" + self.loc(l)
        if k == "init":
            l = x[1]
            if l[0] == "P":
                return "*" + r(l[1])
            return self.loc(l)
        if k == "getf":
            return "%s.%s" % (r(x[1]), x[2])
        if k == "agg":
            if x[1] == "adt":
                nm = (x[2] or "").split("::")[-1]
                if x[3] and x[3] != nm:
                    nm += "::" + x[3]
                if x[4] and any(not f.isdigit() for f in x[4]):
                    return "%s{%s}" % (nm, ", ".join("%s: %s" % (f, r(v)) for f, v in zip(x[4], x[5])))
                return "%s(%s)" % (nm, ", ".join(r(v) for v in x[5])) if x[5] else nm
            if x[1] == "array":
                return "[%s]" % ", ".join(r(v) for v in x[5])
            if x[1] == "tuple":
                return "(%s)" % ", ".join(r(v) for v in x[5])
            if x[1] == "closure":
                return "closure(%s)" % ", ".join(r(v) for v in x[5])
            return "%s{%s}" % (x[1], ", ".join(r(v) for v in x[5]))
        if k == "call":
            n = self.ids.get(x[1])
            if n is not None:
                return "#%d" % n
            return "%s(%s)" % (short_key(x[2]), ", ".join(r(a) for a in x[3]))
        if k == "map_err":
            c = tbl.closure_const(self.F, x[2])
            if c is not None:
                return "map_err(%s -> %s)" % (r(x[1]), r(c))
            return "map_err(%s, %s)" % (r(x[1]), r(x[2]))
        if k == "map_ok":
            return "map(%s -> %s)" % (r(x[1]), r(x[2]))
        if k == "havoc":
            n = self.ids.get(x[1])
            return "after#%s(%s)" % (n, self.loc(x[2]))
        if k == "err_from":
            return "Err(from %s)" % r(x[1])
        if k in ("okval", "errval", "someval", "try", "residual", "tag", "tagflip", "len", "to_bits", "from_bits"):
            return "%s(%s)" % (k, r(x[1]))
        if k == "from_bytes":
            return "from_%s_bytes::<%s>(%s)" % (x[1], x[2], r(x[3]))
        if k == "ok_or":
            return "ok_or(%s, %s)" % (r(x[1]), r(x[2]))
        if k == "fn":
            return "fn " + x[1]
        if k == "pref":
            return "&const " + r(x[1])
        if k == "slice":
            return self.loc(x[1])
        return "%s(%s)" % (k, ", ".join(r(y) if isinstance(y, tuple) else repr(y) for y in x[1:]))


def short_key(k):
    return k or "<indirect>"


def call_name(e):
    c = e.get("callee")
    if c is None:
        return "<indirect>"
    if c.get("trait"):
        return _noloc("<%s as %s>::%s" % (c.get("self_ty"), c["trait"].split("::")[-1], c["name"]))
    return _noloc(c["def"])


def _noloc(s):
    # closure types print their source position; positions are never part of a summary
    import re
    return re.sub(r"\{closure@[^}]*\}", "{closure}", s)


def fn_key(f):
    if f.impl_self:
        tr = (f.impl_trait or "-").split("::")[-1]
        return "<%s as %s>::%s" % (f.impl_self, tr, f.name)
    return f.def_


def lines(summary):
    out = []
    for s in summary:
        out.append("if %s: %s => %s%s" % (" && ".join(s["if"]) or "always", "; ".join(s["do"]) or "-", s["ret"],
                                          "" if s["status"] == "return" else " [%s]" % s["status"]))
    return out


def check(run, rule, fn, want, F, inline=None, what="", hide_calls=(), key=None):
    """compare the canonical summary of fn with the expected lines"""
    got = lines(summarize(F, fn, inline=inline, hide_calls=hide_calls))
    k = key or fn_key(fn)
    if sorted(got) == sorted(want):
        run.ok(rule, k, what or "summary as specified", fn.where(), method="summary")
        return True
    missing = [w for w in want if w not in got]
    extra = [g for g in got if g not in want]
    run.bad(rule, k, "%sbehaviour differs from the specified summary: %s" % (
        (what + ": ") if what else "", ("unexpected path: " + extra[0]) if extra else ("missing path: " + missing[0])),
        fn.where(), expected=want, found=got)
    return False


def _arg(cn, a, snap):
    """a reference to a local is printed as a reference to the value it holds at the call"""
    if isinstance(a, tuple) and a and a[0] == "ref" and sym._root_kind(a[1]) == "L" and snap is not None:
        if a[1][0] == "S" and snap[0] == "slice":
            return cn.t(norm(a))
        return "&{" + cn.t(norm(snap)) + "}"
    return cn.t(norm(a))


def canon_cond(cn, c, truth):
    """normal form of a branch condition: comparisons become `a < b` / `a <= b` / `a == b` / `a != b` with the polarity folded in,
    so that `if x > n {A} else {B}` and `if x <= n {B} else {A}` print the same"""
    if isinstance(truth, bool):
        while c[0] == "un" and c[1] == "Not":
            c, truth = c[2], (not truth)
        if c[0] == "bin" and c[1] in ("Lt", "Le", "Gt", "Ge", "Eq", "Ne"):
            op, a, b = c[1], c[2], c[3]
            if not truth:
                op = {"Lt": "Ge", "Le": "Gt", "Gt": "Le", "Ge": "Lt", "Eq": "Ne", "Ne": "Eq"}[op]
            if op in ("Gt", "Ge"):
                op, a, b = {"Gt": "Lt", "Ge": "Le"}[op], b, a
            sa, sb = cn.t(a), cn.t(b)
            if op in ("Eq", "Ne") and sb < sa:
                sa, sb = sb, sa
            return "%s %s %s" % (sa, {"Lt": "<", "Le": "<=", "Eq": "==", "Ne": "!="}[op], sb)
    return "%s == %s" % (cn.t(c), truth)


def path_summary(F, fn, p, hide_calls=()):
    cn = Canon(F, p, fn)
    conds = []
    for c, truth, kind in p.pc:
        if kind == "assert":
            continue
        conds.append(canon_cond(cn, norm(c), truth))
    conds = sorted(set(conds))
    evs = []
    for e in p.events:
        if e["k"] == "call" and not e.get("modelled") and not e.get("inlined"):
            if any(e["key"].endswith(h) for h in hide_calls):
                continue
            evs.append("#%d = %s(%s)" % (cn.ids[e["id"]], call_name(e),
                                         ", ".join(_arg(cn, a, sn) for a, sn in zip(e["args"], e["snap"]))))
        elif e["k"] == "write":
            evs.append("%s := %s" % (cn.loc(e["loc"]), cn.t(norm(e["val"]))))
        elif e["k"] == "rawderef" and e["rw"] in ("r", "w"):
            evs.append("raw-%s *%s" % ("read" if e["rw"] == "r" else "write", cn.t(norm(e["ptr"]))))
        elif e["k"] == "intrinsic":
            evs.append("%s(%s)" % (e["name"], ", ".join(cn.t(norm(a)) for a in e["args"])))
    ret = cn.t(norm(p.ret)) if p.ret is not None else None
    return {"if": conds, "do": evs, "ret": ret, "status": p.status}


def summarize(F, fn, inline=None, max_visits=None, hide_calls=()):
    if max_visits is None:
        # loops over constant arrays (`for byte in x.to_le_bytes()`) unroll exactly; give them room
        max_visits = 20 if fn.name == "finalize" and "CrcModifier" in (fn.impl_self or "") else 2
    eng = sym.Engine(F, inline=inline, max_visits=max_visits)
    paths = [p for p in eng.run(fn) if p.status != "infeasible"]
    out = [path_summary(F, fn, p, hide_calls) for p in paths]
    out.sort(key=lambda s: repr(s))
    return out


def fmt(summary):
    lines = []
    for s in summary:
        lines.append("  if %s: %s => %s%s" % (" && ".join(s["if"]) or "always", "; ".join(s["do"]) or "-", s["ret"],
                                            "" if s["status"] == "return" else " [%s]" % s["status"]))
    return "\n".join(lines)
