"""C08 — the accumulator delivers every frame exactly once, however the stream is chunked.

feed_ref has no loop; its paths are enumerated exhaustively and each must satisfy (PTH+LIN):
C08.A  split: zero_pos = position(|b| b == 0) over the input; (take, release) = input.split_at(n + 1).
C08.B  append under guard: every extend_unchecked(x) call is dominated by idx + len(x) <= N on the unmodified idx; inside it
       buf[idx..idx+len] <- x (copy lengths equal) and idx += len.
C08.C  decode what was accumulated: from_bytes_cobs receives &mut buf[..idx] read after the append.
C08.D  reset: every path that returns a non-Consumed variant ends with idx == 0; Consumed leaves idx = old+len or unchanged.
C08.E  remainder: Success/DeserError/OverFull on a zero-found path carry `release`; consumed + remainder = input.
C08.O  who-may-write: idx/buf are written only by new, feed_ref, extend_unchecked.
With A-E on every path the invariant (idx <= N, buf[..idx] = current segment) is inductive and each zero byte yields exactly
one result computed by from_bytes_cobs on exactly that segment - for every chunking, because the argument is per call.
"""
import lin
import glue
import summ
import summ2
import handspec
import re
import sym
import tbl
import acc as accmod
from glueprops import run_groups
from sym import C
from tbl import norm

LEVEL = "other"
MANIFEST = {
    "text": "Exhaustive static path analysis of feed_ref (loop-free): on each of its paths the split point, the guarded append, the "
            "slice handed to the decoder, the index reset and the returned remainder are checked with linear arithmetic, which makes "
            "the state invariant inductive. Chunking then becomes irrelevant: the claim is per call and per path, not per history.",
    "note": "Does not decide what from_bytes_cobs returns for a segment (C03/C06/C07) nor T's visitor. Trusted: slice::split_at/position/copy_from_slice contracts.",
    "technique": "static analysis: semantic summary of feed_ref (private helpers inlined) vs a hand-written six-case specification, conditions compared by region enumeration + Fourier-Motzkin under idx <= N; who-may-write by field visibility",
}


def run(run_, ctx):
    run_groups(run_, ctx, [("S", "acc", None, "accumulator"),
                           ("S", "de_entry", lambda k: k in ("de::from_bytes_cobs", "de::from_bytes"), "segment decoder used by the accumulator")])
    run_.floor("S", 6)
    F = ctx.facts("A")
    pc = F.crate("postcard")
    ren = glue.renames(F, pc, glue.load2("A"))
    # PATH: the case analysis of the property, written by hand (rules/handspec.py), one instance per case; decided as equality of
    # boolean functions under the invariant idx <= N, so the shape of the code (branch order, helper functions, how the slices are cut) is free
    handspec.check(run_, "PATH", F, pc, ["<accumulator::CobsAccumulator<N> as ->::feed_ref"],
                   "split after the first zero / guarded append / decode buf[..idx] / reset / remainder", renames=ren, per_outcome=True)
    run_.floor("PATH", 6)
    handspec.check(run_, "S", F, pc, ["<accumulator::CobsAccumulator<N> as ->::feed"], "feed behaves as feed_ref", renames=ren)
    # A: the frame boundary predicate, read off the function's own summary: every search is `position(|b| b == 0)` over the whole chunk
    fr = [f for f in pc.fns if f.name == "feed_ref" and (f.impl_self or "").startswith("accumulator::CobsAccumulator<")]
    if len(fr) != 1:
        run_.bad("A", "zero predicate", "feed_ref not found")
    else:
        sm = summ2.summarize(F, fr[0], inline=handspec.acc_inline, renames=ren)
        txt = " ".join(o["text"] + " " + " ".join(l[1] for c in o["when"] for l in c) for o in sm["outcomes"])
        searches = txt.count("position(")
        okA = searches > 0 and searches == txt.count(handspec.POS) and "find(" not in txt and "rposition(" not in txt
        run_.check(okA, "A", "zero predicate", "frame boundary must be the first byte equal to 0 of the offered chunk (%d searches, not all of them `position(|b| b == 0)` over the chunk)" % searches, fr[0].where(),
                   detail="frame boundary = first byte equal to 0")
    # O: who may write idx/buf: the fields are private to the accumulator module (the compiler enforces it), and inside the module every
    # function that writes them is either the constructor or is inlined into feed_ref's specification above
    adt = pc.adts.get("postcard::accumulator::CobsAccumulator")
    probs = []
    if not adt:
        probs.append("struct not found")
    else:
        for v in adt["variants"]:
            for fl in v["fields"]:
                if "accumulator" not in (fl.get("vis") or "") or (fl.get("vis") or "").startswith("Public"):
                    probs.append("field %s is visible outside the accumulator module (%s)" % (fl["name"], fl.get("vis")))
    writers = set()
    for f in pc.fns:
        if not f.canon.startswith("postcard::accumulator::"):
            continue
        for bb in f.blocks:
            for s_ in bb["stmts"]:
                if s_["k"] == "assign" and any(el["k"] == "field" for el in s_["p"]["proj"]) and "CobsAccumulator" in f.locals[s_["p"]["local"]]["ty"]:
                    writers.add(f)
    reach = set()
    for root in fr:
        eng = sym.Engine(F, inline=handspec.acc_inline, max_visits=2, max_depth=10)
        for p in eng.run(root):
            for e in p.events:
                if e["k"] == "call" and e.get("inlined") and e.get("callee"):
                    reach.add(e["callee"].get("canon"))
                    if e["callee"].get("resolved"):
                        reach.add(e["callee"]["resolved"].get("canon"))
        reach.add(root.canon)
    for w in writers:
        if w.canon not in reach and w.name != "new" and not (w.j.get("vis") == "Public" and w.name in ("feed", "feed_ref")):
            probs.append("%s writes the accumulator state but is not part of feed_ref's specified behaviour" % w.def_)
    run_.check(not probs, "O", "writers of idx/buf", probs[0] if probs else "", site=None, detail="fields private to the module; writers: %s" % sorted(w.name for w in writers), found=probs)
    run_.explanation = (
        "feed_ref (with its private helpers inlined) is summarised from MIR as a set of outcomes with conditions and compared, as boolean functions under the "
        "invariant idx <= N, with the six-case analysis of the property written by hand: empty chunk; no zero and fits (append, idx += len); no zero and does "
        "not fit (reset, tail handed back); zero but segment does not fit (reset, bytes after the zero handed back); zero and fits (append through the zero, "
        "decode exactly buf[..idx], reset, Success/DeserError with the bytes after the zero). feed is the same function. The boundary predicate is read off the "
        "summary, and idx/buf are private fields written only inside that specified behaviour and the constructor, which makes the invariant inductive for "
        "every chunking.")
    run_.trusted += ["core slice::split_at / Iterator::position / copy_from_slice contracts", "from_bytes_cobs (C06/C07)"]
    run_.assumptions += ["callers re-feed returned remainders as documented"]
