"""C08 — the accumulator delivers every frame exactly once, however the stream is chunked.

feed_ref has no loop; its paths are enumerated exhaustively and each must satisfy (PTH+LIN):
C08.A  split: zero_pos = position(|b| b == 0) over the input; (take, release) = input.split_at(n + 1).
C08.B  append under guard: every extend_unchecked(x) call is dominated by idx + len(x) <= N on the unmodified idx; inside it
       buf[idx..idx+len] <- x (copy lengths equal) and idx += len.
C08.C  decode what was accumulated: from_bytes_cobs receives &mut buf[..idx] read after the append.
C08.D  reset: every path that returns a non-Consumed variant ends with idx == 0; Consumed leaves idx = old+len or unchanged.
C08.E  remainder: Success/DeserError/OverFull on a zero-found path carry `release`; consumed + remainder = input.
C08.O  who-may-write: idx/buf are written only by new, feed_ref, extend_unchecked.
With A-E on every path the invariant (idx <= N, buf[..idx] = current segment) is inductive and each zero byte yields exactly
one result computed by from_bytes_cobs on exactly that segment - for every chunking, because the argument is per call.
"""
import lin
import summ
import sym
import tbl
import acc as accmod
from glueprops import run_groups
from sym import C
from tbl import norm

LEVEL = "other"
MANIFEST = {
    "text": "Exhaustive static path analysis of feed_ref (loop-free): on each of its paths the split point, the guarded append, the "
            "slice handed to the decoder, the index reset and the returned remainder are checked with linear arithmetic, which makes "
            "the state invariant inductive. Chunking then becomes irrelevant: the claim is per call and per path, not per history.",
    "note": "Does not decide what from_bytes_cobs returns for a segment (C03/C06/C07) nor T's visitor. Trusted: slice::split_at/position/copy_from_slice contracts.",
    "technique": "static analysis: exhaustive path enumeration of a loop-free body + linear-inequality guards + who-may-write + canonical summaries",
}


def run(run_, ctx):
    run_groups(run_, ctx, [("S", "acc", None, "accumulator"),
                           ("S", "de_entry", lambda k: k in ("de::from_bytes_cobs", "de::from_bytes"), "segment decoder used by the accumulator")])
    run_.floor("S", 7)
    F = ctx.facts("A")
    A = accmod.Acc(F)
    fr = A.feed_ref
    site = fr.where()
    # A
    err = accmod.check_position_closure(F, fr)
    run_.check(err is None, "A", "zero predicate", err or "frame boundary = first byte equal to 0", site)
    n_paths = 0
    for i, p in enumerate(A.paths):
        if p.status != "return":
            run_.bad("PATH", "feed_ref path %d" % i, "path ends in %s" % p.status, site)
            continue
        n_paths += 1
        v = A.variant(p)
        zf = A.zero_found(p)
        tag = "%s/%s" % (v, {True: "zero", False: "nozero", None: "empty"}[zf])
        probs = []
        ext = A.calls(p, "::extend_unchecked")
        sp = A.calls(p, "<impl [T]>::split_at")
        dec = A.calls(p, "de::from_bytes_cobs")
        # A: split
        if zf:
            pos = A.calls(p, "Iterator::position")[0]
            if len(sp) != 1 or norm(sp[0]["args"][0]) != A.input or \
                    norm(sp[0]["args"][1]) != norm(("bin", "Add", ("someval", pos["result"]), C(1, "usize"), "usize")):
                probs.append("A: input is not split right after the first zero byte (split_at(n + 1))")
            take = norm(("getf", sp[0]["result"], "0")) if sp else None
            release = norm(("getf", sp[0]["result"], "1")) if sp else None
        # B: guarded append
        for e in ext:
            x = norm(e["args"][1])
            goal = lin.ge(A.N, ("bin", "Add", A.idx0, ("len", x), "usize"))
            if not A.prove(p, goal):
                probs.append("B: extend_unchecked(%s) is not dominated by idx + len <= N" % sym.show(x))
            if zf and x != take:
                probs.append("B: appends %s, expected the bytes up to and including the zero" % sym.show(x))
            if zf is False and x != A.input:
                probs.append("B: appends %s, expected the whole chunk" % sym.show(x))
        # C: decode exactly the accumulated bytes
        if dec:
            if len(ext) != 1:
                probs.append("C: decodes without having appended the segment tail exactly once")
            else:
                a0 = dec[0]["args"][0]
                okc = False
                want_hi = norm(("getf", ("havoc", ext[0]["id"], ("P", A.self_)), "idx"))
                if a0[0] == "ref" and a0[1][0] == "S" and a0[1][1] == A.buf_loc and a0[1][2] == C(0, "usize"):
                    okc = norm(a0[1][3]) == want_hi
                else:
                    im = [e for e in tbl.residual_calls(p) if e["key"].endswith("IndexMut::index_mut") and norm(e["result"]) == norm(a0)]
                    if len(im) == 1 and im[0]["args"][0] == ("ref", A.buf_loc):
                        r = im[0]["args"][1]
                        if r[0] == "agg" and r[1] == "adt" and r[2].endswith("::RangeTo"):
                            okc = norm(r[5][0]) == want_hi
                if not okc:
                    probs.append("C: decoder does not receive &mut buf[..idx] with idx read after the append")
        # D: reset
        fin = A.final_idx(p)
        if v != "Consumed":
            if fin != C(0, "usize"):
                probs.append("D: returns %s but leaves idx = %s (must be 0 after a sentinel or overflow)" % (v, sym.show(fin)))
        else:
            if zf is None and fin != A.idx0 and fin != ("init", A.idx_loc):
                probs.append("D: empty input changes idx")
        # E: remainder
        if v in ("Success", "DeserError", "OverFull") and zf:
            f = dict(zip(p.ret[4], p.ret[5]))
            rem = norm(f.get("remaining") if v == "Success" else p.ret[5][0])
            if rem != release:
                probs.append("E: %s carries %s, expected the bytes after the zero (release)" % (v, sym.show(rem)))
        if v == "Success":
            f = dict(zip(p.ret[4], p.ret[5]))
            if not dec or norm(f.get("data")) != norm(("okval", dec[0]["result"])):
                probs.append("E: Success.data is not the decoder's value")
            if dec and p.tagfacts.get(("tag", dec[0]["result"])) != 0:
                probs.append("E: Success without a successful decode")
        if v == "DeserError" and (not dec or p.tagfacts.get(("tag", dec[0]["result"])) != 1):
            probs.append("E: DeserError without a failed decode")
        if v == "Consumed" and zf:
            probs.append("a zero byte was seen but no result is reported")
        if v in ("Success", "DeserError") and not zf:
            probs.append("a frame result is reported without a zero byte")
        run_.check(not probs, "PATH", "feed_ref %s" % tag, probs[0] if probs else "split/append/decode/reset/remainder hold on this path", site, found=probs)
    run_.floor("PATH", 6)
    # extend_unchecked body
    e = A.extend
    ls = summ.lines(summ.summarize(F, e))
    want = ["if always: #1 = <[u8; N] as IndexMut>::index_mut(&*self.buf, Range{start: *self.idx, end: Add(*self.idx, len(arg2))}); "
            "#2 = core::slice::<impl [T]>::copy_from_slice(#1, arg2); *self.idx := Add(*self.idx, len(arg2)) => ()"]
    run_.check(ls == want, "B", "extend_unchecked body", "append must copy the input to buf[idx..idx+len] and add len to idx", e.where(), expected=want, found=ls)
    # feed delegates
    ls = summ.lines(summ.summarize(F, A.feed))
    run_.check(ls == ["if always: #1 = accumulator::CobsAccumulator::<N>::feed_ref(self, arg2) => #1"], "S", "feed delegates to feed_ref",
               "feed must be feed_ref", A.feed.where(), found=ls)
    # O: who may write
    writers = set()
    for f in A.pc.fns:
        for bb in f.blocks:
            for s in bb["stmts"]:
                if s["k"] != "assign":
                    continue
                prev_ty = f.locals[s["p"]["local"]]["ty"]
                for el in s["p"]["proj"]:
                    if el["k"] == "field" and el["name"] in ("idx", "buf") and "CobsAccumulator" in prev_ty:
                        writers.add(f.name)
                    if el["k"] == "field":
                        prev_ty = el["ty"]
                    elif el["k"] == "deref":
                        prev_ty = el.get("of", "").replace("&mut ", "").replace("&", "")
    extra = writers - {"new", "feed_ref", "extend_unchecked"}
    run_.check(not extra, "O", "writers of idx/buf", "accumulator state is written outside new/feed_ref/extend_unchecked: %s" % sorted(extra), A.feed_ref.where(),
               detail="idx/buf written only by %s" % sorted(writers))
    run_.explanation = (
        "feed_ref is loop-free; all %d of its MIR paths are enumerated. On each path linear arithmetic over (idx, N, len(input), position) and the "
        "dominating guards shows: the chunk is split right after the first zero; every append is guarded by idx+len<=N on the unmodified idx; the decoder "
        "gets buf[..idx] after the append; idx is 0 on every non-Consumed return; the remainder is the bytes after the zero. With the who-may-write "
        "check this makes the invariant inductive, so one result per zero byte holds for every chunking." % len(A.paths))
    run_.trusted += ["core slice::split_at / Iterator::position / copy_from_slice contracts", "from_bytes_cobs (C06/C07)"]
    run_.assumptions += ["callers re-feed returned remainders as documented"]
