//! pcfacts — rustc_private driver that dumps type-checked facts (MIR with resolved callees,
//! ADT definitions, HIR trees of constant initialisers) of the crate being compiled as JSON.
//!
//! Used as RUSTC_WORKSPACE_WRAPPER under `cargo +nightly check`; writes exactly one file per
//! rustc process into $PCFACTS_OUT (never appends), then lets compilation continue so that
//! dependants get their metadata.
#![feature(rustc_private)]
#![allow(clippy::all)]

extern crate rustc_abi;
extern crate rustc_ast;
extern crate rustc_driver;
extern crate rustc_hir;
extern crate rustc_interface;
extern crate rustc_middle;
extern crate rustc_session;
extern crate rustc_span;

mod json;
use json::J;

use rustc_driver::{Callbacks, Compilation};
use rustc_hir as hir;
use rustc_hir::def::{DefKind, Res};
use rustc_hir::def_id::{DefId, LocalDefId};
use rustc_middle::mir::PlaceTy;
use rustc_middle::mir::*;
use rustc_middle::ty::print::with_no_trimmed_paths;
use rustc_middle::ty::{self, GenericArgsRef, Instance, Ty, TyCtxt, TypingEnv};
use rustc_span::{Span, DUMMY_SP};

struct Cb;

impl Callbacks for Cb {
    fn after_analysis<'tcx>(
        &mut self,
        _compiler: &rustc_interface::interface::Compiler,
        tcx: TyCtxt<'tcx>,
    ) -> Compilation {
        if let Ok(dir) = std::env::var("PCFACTS_OUT") {
            dump(tcx, &dir);
        }
        Compilation::Continue
    }
}

fn main() {
    let mut args: Vec<String> = std::env::args().collect();
    // RUSTC_WORKSPACE_WRAPPER passes the real rustc path as argv[1].
    if args.len() > 1 && (args[1].ends_with("rustc") || args[1].contains("/rustc")) {
        args.remove(1);
    }
    rustc_driver::run_compiler(&args, &mut Cb);
}

fn ty_s(ty: Ty<'_>) -> String {
    with_no_trimmed_paths!(ty.to_string())
}

fn path_s(tcx: TyCtxt<'_>, did: DefId) -> String {
    with_no_trimmed_paths!(tcx.def_path_str(did))
}

fn canon(tcx: TyCtxt<'_>, did: DefId) -> String {
    format!("{}{}", tcx.crate_name(did.krate), tcx.def_path(did).to_string_no_crate_verbose())
}

fn args_j<'tcx>(args: GenericArgsRef<'tcx>) -> J {
    J::Arr(
        args.iter()
            .filter(|a| a.as_region().is_none())
            .map(|a| J::s(with_no_trimmed_paths!(a.to_string())))
            .collect(),
    )
}

fn span_j(tcx: TyCtxt<'_>, sp: Span) -> Vec<(&'static str, J)> {
    let sm = tcx.sess.source_map();
    let root = sp.source_callsite();
    let lo = sm.lookup_char_pos(root.lo());
    let hi = sm.lookup_char_pos(root.hi());
    let file = match &lo.file.name {
        rustc_span::FileName::Real(r) => match r.local_path() {
            Some(p) => p.to_string_lossy().to_string(),
            None => format!("{:?}", lo.file.name),
        },
        other => format!("{:?}", other),
    };
    vec![
        ("file", J::s(file)),
        ("line", J::UInt(lo.line as u128)),
        ("line_hi", J::UInt(hi.line as u128)),
        ("exp", J::Bool(sp.from_expansion())),
    ]
}

struct Cx<'a, 'tcx> {
    tcx: TyCtxt<'tcx>,
    tenv: TypingEnv<'tcx>,
    body: &'a Body<'tcx>,
}

impl<'a, 'tcx> Cx<'a, 'tcx> {
    fn field_name(&self, pty: PlaceTy<'tcx>, f: rustc_abi::FieldIdx) -> String {
        match pty.ty.kind() {
            ty::Adt(def, _) => {
                let v = pty.variant_index.unwrap_or(rustc_abi::FIRST_VARIANT);
                if v.index() < def.variants().len() {
                    let vd = def.variant(v);
                    if f.index() < vd.fields.len() {
                        return vd.fields[f].name.to_string();
                    }
                }
                f.index().to_string()
            }
            _ => f.index().to_string(),
        }
    }

    fn place_j(&self, place: &Place<'tcx>) -> J {
        let tcx = self.tcx;
        let mut pty = PlaceTy::from_ty(self.body.local_decls[place.local].ty);
        let mut proj = vec![];
        for elem in place.projection.iter() {
            let e = match elem {
                ProjectionElem::Deref => {
                    J::obj(vec![("k", J::s("deref")), ("of", J::s(ty_s(pty.ty)))])
                }
                ProjectionElem::Field(f, fty) => J::obj(vec![
                    ("k", J::s("field")),
                    ("i", J::UInt(f.index() as u128)),
                    ("name", J::s(self.field_name(pty, f))),
                    ("ty", J::s(ty_s(fty))),
                ]),
                ProjectionElem::Index(l) => {
                    J::obj(vec![("k", J::s("index")), ("local", J::UInt(l.index() as u128))])
                }
                ProjectionElem::ConstantIndex { offset, min_length, from_end } => J::obj(vec![
                    ("k", J::s("cidx")),
                    ("offset", J::UInt(offset as u128)),
                    ("min_length", J::UInt(min_length as u128)),
                    ("from_end", J::Bool(from_end)),
                ]),
                ProjectionElem::Subslice { from, to, from_end } => J::obj(vec![
                    ("k", J::s("subslice")),
                    ("from", J::UInt(from as u128)),
                    ("to", J::UInt(to as u128)),
                    ("from_end", J::Bool(from_end)),
                ]),
                ProjectionElem::Downcast(name, v) => J::obj(vec![
                    ("k", J::s("downcast")),
                    (
                        "name",
                        match name {
                            Some(n) => J::s(n.to_string()),
                            None => match pty.ty.kind() {
                                ty::Adt(def, _) if v.index() < def.variants().len() => {
                                    J::s(def.variant(v).name.to_string())
                                }
                                _ => J::Null,
                            },
                        },
                    ),
                    ("idx", J::UInt(v.index() as u128)),
                ]),
                other => J::obj(vec![("k", J::s("other")), ("dbg", J::s(format!("{:?}", other)))]),
            };
            proj.push(e);
            pty = pty.projection_ty(tcx, elem);
        }
        J::obj(vec![
            ("local", J::UInt(place.local.index() as u128)),
            ("proj", J::Arr(proj)),
            ("ty", J::s(ty_s(pty.ty))),
        ])
    }

    fn fnref_j(&self, did: DefId, args: GenericArgsRef<'tcx>) -> J {
        let tcx = self.tcx;
        let mut o = vec![
            ("def", J::s(path_s(tcx, did))),
            ("canon", J::s(canon(tcx, did))),
            ("full", J::s(with_no_trimmed_paths!(tcx.def_path_str_with_args(did, args)))),
            ("krate", J::s(tcx.crate_name(did.krate).to_string())),
            ("name", J::s(tcx.opt_item_name(did).map(|s| s.to_string()).unwrap_or_default())),
            ("args", args_j(args)),
        ];
        let dk = tcx.def_kind(did);
        o.push(("dk", J::s(format!("{:?}", dk))));
        if matches!(dk, DefKind::Fn | DefKind::AssocFn) {
            let sig = tcx.fn_sig(did).skip_binder();
            o.push(("unsafe", J::Bool(!sig.safety().is_safe())));
        }
        if matches!(dk, DefKind::AssocFn | DefKind::AssocConst { .. } | DefKind::AssocTy) {
            if let Some(tr) = tcx.trait_of_assoc(did) {
                o.push(("trait", J::s(canon(tcx, tr))));
                if args.len() > 0 {
                    if let Some(st) = args[0].as_type() {
                        o.push(("self_ty", J::s(ty_s(st))));
                    }
                }
                if matches!(dk, DefKind::AssocFn) {
                    if let Ok(Some(inst)) = Instance::try_resolve(tcx, self.tenv, did, args) {
                        let rd = inst.def_id();
                        let kind = match inst.def {
                            ty::InstanceKind::Item(_) => "item",
                            ty::InstanceKind::Virtual(..) => "virtual",
                            ty::InstanceKind::Intrinsic(_) => "intrinsic",
                            _ => "shim",
                        };
                        o.push((
                            "resolved",
                            J::obj(vec![
                                ("def", J::s(path_s(tcx, rd))),
                                ("canon", J::s(canon(tcx, rd))),
                                (
                                    "impl_self",
                                    match tcx.impl_of_assoc(rd) {
                                        Some(imp) => J::s(ty_s(tcx.type_of(imp).skip_binder())),
                                        None => J::Null,
                                    },
                                ),
                                ("krate", J::s(tcx.crate_name(rd.krate).to_string())),
                                ("kind", J::s(kind)),
                                ("args", args_j(inst.args)),
                                ("is_trait_default", J::Bool(rd == did)),
                            ]),
                        ));
                    }
                }
            } else if let Some(imp) = tcx.impl_of_assoc(did) {
                o.push(("impl_self", J::s(ty_s(tcx.type_of(imp).skip_binder()))));
            }
        }
        J::obj(o)
    }

    fn const_j(&self, c: &ConstOperand<'tcx>) -> J {
        let tcx = self.tcx;
        let ty = c.const_.ty();
        let mut o = vec![("k", J::s("const")), ("ty", J::s(ty_s(ty)))];
        match ty.kind() {
            ty::FnDef(did, args) => {
                o.push(("fn", self.fnref_j(*did, args)));
                return J::obj(o);
            }
            ty::Closure(did, _) => {
                o.push(("closure", J::s(path_s(tcx, *did))));
                return J::obj(o);
            }
            _ => {}
        }
        match c.const_ {
            Const::Unevaluated(uv, _) => {
                let mut u = vec![
                    ("def", J::s(path_s(tcx, uv.def))),
                    ("canon", J::s(canon(tcx, uv.def))),
                    ("name", J::s(tcx.opt_item_name(uv.def).map(|s| s.to_string()).unwrap_or_default())),
                    ("args", args_j(uv.args)),
                ];
                if let Some(p) = uv.promoted {
                    u.push(("promoted", J::UInt(p.index() as u128)));
                }
                o.push(("uneval", J::obj(u)));
            }
            Const::Ty(_, ct) => {
                o.push(("tyconst", J::s(format!("{:?}", ct))));
            }
            Const::Val(..) => {}
        }
        self.const_val(c.const_, ty, &mut o);
        J::obj(o)
    }

    fn const_val(&self, c: Const<'tcx>, ty: Ty<'tcx>, o: &mut Vec<(&'static str, J)>) {
        let tcx = self.tcx;
        if let Const::Unevaluated(uv, _) = c {
            if uv.promoted.is_some() {
                return;
            }
        }
        match c.eval(tcx, self.tenv, DUMMY_SP) {
            Ok(val) => match val {
                ConstValue::Scalar(s) => {
                    if let Ok(si) = s.try_to_scalar_int() {
                        let size = si.size();
                        let bits = si.to_bits(size);
                        o.push(("int", J::UInt(bits)));
                        o.push(("size", J::UInt(size.bytes() as u128)));
                        if ty.is_signed() {
                            let sb = size.bits();
                            let v = if sb == 128 {
                                bits as i128
                            } else if bits >> (sb - 1) & 1 == 1 {
                                (bits as i128) - (1i128 << sb)
                            } else {
                                bits as i128
                            };
                            o.push(("sint", J::Int(v)));
                        }
                    } else {
                        o.push(("ptr", J::Bool(true)));
                    }
                }
                ConstValue::ZeroSized => o.push(("zst", J::Bool(true))),
                ConstValue::Slice { .. } => {
                    if let Some(bytes) = val.try_get_slice_bytes_for_diagnostics(tcx) {
                        o.push(("bytes", J::Arr(bytes.iter().map(|b| J::UInt(*b as u128)).collect())));
                        if let Ok(s) = std::str::from_utf8(bytes) {
                            o.push(("str", J::s(s)));
                        }
                    }
                }
                ConstValue::Indirect { .. } => {
                    o.push(("indirect", J::Bool(true)));
                    // [u8; N] / &[u8; N]-like data: try reading raw bytes for arrays of u8
                    if let ty::Array(et, _) = ty.kind() {
                        if *et == tcx.types.u8 {
                            if let Some(bytes) = val.try_get_slice_bytes_for_diagnostics(tcx) {
                                o.push((
                                    "bytes",
                                    J::Arr(bytes.iter().map(|b| J::UInt(*b as u128)).collect()),
                                ));
                            }
                        }
                    }
                }
            },
            Err(_) => {
                o.push(("generic", J::Bool(true)));
            }
        }
    }

    fn operand_j(&self, op: &Operand<'tcx>) -> J {
        match op {
            Operand::Copy(p) => J::obj(vec![("k", J::s("copy")), ("p", self.place_j(p))]),
            Operand::Move(p) => J::obj(vec![("k", J::s("move")), ("p", self.place_j(p))]),
            Operand::Constant(c) => self.const_j(c),
            other => J::obj(vec![("k", J::s("rtcheck")), ("dbg", J::s(format!("{:?}", other)))]),
        }
    }

    fn rvalue_j(&self, rv: &Rvalue<'tcx>) -> J {
        let tcx = self.tcx;
        match rv {
            Rvalue::Use(op, _) => J::obj(vec![("k", J::s("use")), ("op", self.operand_j(op))]),
            Rvalue::CopyForDeref(p) => J::obj(vec![
                ("k", J::s("use")),
                ("op", J::obj(vec![("k", J::s("copy")), ("p", self.place_j(p))])),
            ]),
            Rvalue::Repeat(op, ct) => J::obj(vec![
                ("k", J::s("repeat")),
                ("op", self.operand_j(op)),
                (
                    "n",
                    match ct.try_to_target_usize(tcx) {
                        Some(n) => J::UInt(n as u128),
                        None => J::s(format!("{:?}", ct)),
                    },
                ),
            ]),
            Rvalue::Ref(_, bk, p) => J::obj(vec![
                ("k", J::s("ref")),
                ("mut", J::Bool(matches!(bk, BorrowKind::Mut { .. }))),
                ("p", self.place_j(p)),
            ]),
            Rvalue::RawPtr(kind, p) => J::obj(vec![
                ("k", J::s("rawptr")),
                ("mut", J::Bool(matches!(kind, RawPtrKind::Mut))),
                ("p", self.place_j(p)),
            ]),
            Rvalue::Cast(kind, op, ty) => {
                let ck = match kind {
                    CastKind::PointerCoercion(pc, _) => format!("PointerCoercion({:?})", pc),
                    other => format!("{:?}", other),
                };
                J::obj(vec![
                    ("k", J::s("cast")),
                    ("ck", J::s(ck)),
                    ("op", self.operand_j(op)),
                    ("from", J::s(ty_s(op.ty(self.body, tcx)))),
                    ("ty", J::s(ty_s(*ty))),
                ])
            }
            Rvalue::BinaryOp(op, ab) => J::obj(vec![
                ("k", J::s("bin")),
                ("op", J::s(format!("{:?}", op))),
                ("a", self.operand_j(&ab.0)),
                ("b", self.operand_j(&ab.1)),
                ("aty", J::s(ty_s(ab.0.ty(self.body, tcx)))),
            ]),
            Rvalue::UnaryOp(op, a) => J::obj(vec![
                ("k", J::s("un")),
                ("op", J::s(format!("{:?}", op))),
                ("a", self.operand_j(a)),
                ("aty", J::s(ty_s(a.ty(self.body, tcx)))),
            ]),
            Rvalue::Discriminant(p) => J::obj(vec![("k", J::s("discr")), ("p", self.place_j(p))]),
            Rvalue::Aggregate(kind, ops) => {
                let mut o = vec![("k", J::s("agg"))];
                match &**kind {
                    AggregateKind::Array(t) => {
                        o.push(("ak", J::s("array")));
                        o.push(("elem", J::s(ty_s(*t))));
                    }
                    AggregateKind::Tuple => o.push(("ak", J::s("tuple"))),
                    AggregateKind::Adt(did, vidx, args, _, active) => {
                        o.push(("ak", J::s("adt")));
                        o.push(("adt", J::s(canon(tcx, *did))));
                        let def = tcx.adt_def(*did);
                        let vd = def.variant(*vidx);
                        o.push(("variant", J::s(vd.name.to_string())));
                        o.push(("vidx", J::UInt(vidx.index() as u128)));
                        o.push((
                            "fields",
                            J::Arr(vd.fields.iter().map(|f| J::s(f.name.to_string())).collect()),
                        ));
                        o.push(("args", args_j(args)));
                        if let Some(a) = active {
                            o.push(("active", J::UInt(a.index() as u128)));
                        }
                    }
                    AggregateKind::Closure(did, _) => {
                        o.push(("ak", J::s("closure")));
                        o.push(("closure", J::s(canon(tcx, *did))));
                    }
                    AggregateKind::RawPtr(t, m) => {
                        o.push(("ak", J::s("rawptr")));
                        o.push(("elem", J::s(ty_s(*t))));
                        o.push(("mut", J::Bool(m.is_mut())));
                    }
                    other => {
                        o.push(("ak", J::s("other")));
                        o.push(("dbg", J::s(format!("{:?}", other))));
                    }
                }
                o.push(("ops", J::Arr(ops.iter().map(|x| self.operand_j(x)).collect())));
                J::obj(o)
            }
            other => J::obj(vec![("k", J::s("other")), ("dbg", J::s(format!("{:?}", other)))]),
        }
    }

    fn stmt_j(&self, st: &Statement<'tcx>) -> Option<J> {
        let mut o = match &st.kind {
            StatementKind::Assign(b) => vec![
                ("k", J::s("assign")),
                ("p", self.place_j(&b.0)),
                ("rv", self.rvalue_j(&b.1)),
            ],
            StatementKind::SetDiscriminant { place, variant_index } => vec![
                ("k", J::s("setdiscr")),
                ("p", self.place_j(place)),
                ("vidx", J::UInt(variant_index.index() as u128)),
            ],
            StatementKind::Intrinsic(i) => match &**i {
                NonDivergingIntrinsic::Assume(op) => {
                    vec![("k", J::s("assume")), ("op", self.operand_j(op))]
                }
                NonDivergingIntrinsic::CopyNonOverlapping(c) => vec![
                    ("k", J::s("copy_nonoverlapping")),
                    ("src", self.operand_j(&c.src)),
                    ("dst", self.operand_j(&c.dst)),
                    ("count", self.operand_j(&c.count)),
                ],
            },
            _ => return None,
        };
        let sp = span_j(self.tcx, st.source_info.span);
        for (k, v) in sp {
            if k == "line" || k == "exp" {
                o.push((k, v));
            }
        }
        Some(J::obj(o))
    }

    fn unwind_j(&self, u: &UnwindAction) -> J {
        match u {
            UnwindAction::Cleanup(bb) => J::UInt(bb.index() as u128),
            _ => J::Null,
        }
    }

    fn term_j(&self, t: &Terminator<'tcx>) -> J {
        let tcx = self.tcx;
        let mut o = match &t.kind {
            TerminatorKind::Goto { target } => {
                vec![("k", J::s("goto")), ("target", J::UInt(target.index() as u128))]
            }
            TerminatorKind::SwitchInt { discr, targets } => vec![
                ("k", J::s("switch")),
                ("discr", self.operand_j(discr)),
                ("dty", J::s(ty_s(discr.ty(self.body, tcx)))),
                (
                    "targets",
                    J::Arr(
                        targets
                            .iter()
                            .map(|(v, bb)| J::Arr(vec![J::UInt(v), J::UInt(bb.index() as u128)]))
                            .collect(),
                    ),
                ),
                ("otherwise", J::UInt(targets.otherwise().index() as u128)),
            ],
            TerminatorKind::Return => vec![("k", J::s("return"))],
            TerminatorKind::Unreachable => vec![("k", J::s("unreachable"))],
            TerminatorKind::UnwindResume => vec![("k", J::s("resume"))],
            TerminatorKind::UnwindTerminate(_) => vec![("k", J::s("terminate"))],
            TerminatorKind::Drop { place, target, unwind, .. } => vec![
                ("k", J::s("drop")),
                ("p", self.place_j(place)),
                ("target", J::UInt(target.index() as u128)),
                ("unwind", self.unwind_j(unwind)),
            ],
            TerminatorKind::Call { func, args, destination, target, unwind, .. } => {
                let mut v = vec![("k", J::s("call"))];
                if let Some((did, ga)) = func.const_fn_def() {
                    v.push(("callee", self.fnref_j(did, ga)));
                } else {
                    v.push(("func", self.operand_j(func)));
                    v.push(("callee", J::Null));
                }
                v.push(("args", J::Arr(args.iter().map(|a| self.operand_j(&a.node)).collect())));
                v.push(("dest", self.place_j(destination)));
                v.push((
                    "target",
                    match target {
                        Some(bb) => J::UInt(bb.index() as u128),
                        None => J::Null,
                    },
                ));
                v.push(("unwind", self.unwind_j(unwind)));
                v
            }
            TerminatorKind::Assert { cond, expected, msg, target, unwind } => {
                let mut m = vec![];
                match &**msg {
                    AssertKind::BoundsCheck { len, index } => {
                        m.push(("kind", J::s("BoundsCheck")));
                        m.push(("len", self.operand_j(len)));
                        m.push(("index", self.operand_j(index)));
                    }
                    AssertKind::Overflow(op, a, b) => {
                        m.push(("kind", J::s("Overflow")));
                        m.push(("op", J::s(format!("{:?}", op))));
                        m.push(("a", self.operand_j(a)));
                        m.push(("b", self.operand_j(b)));
                    }
                    AssertKind::OverflowNeg(a) => {
                        m.push(("kind", J::s("OverflowNeg")));
                        m.push(("a", self.operand_j(a)));
                    }
                    AssertKind::DivisionByZero(a) => {
                        m.push(("kind", J::s("DivisionByZero")));
                        m.push(("a", self.operand_j(a)));
                    }
                    AssertKind::RemainderByZero(a) => {
                        m.push(("kind", J::s("RemainderByZero")));
                        m.push(("a", self.operand_j(a)));
                    }
                    AssertKind::MisalignedPointerDereference { .. } => {
                        m.push(("kind", J::s("MisalignedPointerDereference")));
                    }
                    AssertKind::NullPointerDereference => {
                        m.push(("kind", J::s("NullPointerDereference")));
                    }
                    other => {
                        m.push(("kind", J::s("Other")));
                        m.push(("dbg", J::s(format!("{:?}", other))));
                    }
                }
                vec![
                    ("k", J::s("assert")),
                    ("cond", self.operand_j(cond)),
                    ("expected", J::Bool(*expected)),
                    ("msg", J::obj(m)),
                    ("target", J::UInt(target.index() as u128)),
                    ("unwind", self.unwind_j(unwind)),
                ]
            }
            TerminatorKind::FalseEdge { real_target, .. } => {
                vec![("k", J::s("goto")), ("target", J::UInt(real_target.index() as u128))]
            }
            TerminatorKind::FalseUnwind { real_target, .. } => {
                vec![("k", J::s("goto")), ("target", J::UInt(real_target.index() as u128))]
            }
            other => vec![("k", J::s("other")), ("dbg", J::s(format!("{:?}", other)))],
        };
        let sp = span_j(tcx, t.source_info.span);
        for (k, v) in sp {
            if k == "line" || k == "exp" {
                o.push((k, v));
            }
        }
        J::obj(o)
    }

    fn body_j(&self) -> J {
        let body = self.body;
        let mut names: Vec<Option<String>> = vec![None; body.local_decls.len()];
        let mut dbg = vec![];
        for vdi in &body.var_debug_info {
            if let VarDebugInfoContents::Place(p) = &vdi.value {
                if p.projection.is_empty() {
                    if names[p.local.index()].is_none() {
                        names[p.local.index()] = Some(vdi.name.to_string());
                    }
                } else {
                    dbg.push(J::obj(vec![
                        ("name", J::s(vdi.name.to_string())),
                        ("p", self.place_j(p)),
                    ]));
                }
            }
        }
        let locals = body
            .local_decls
            .iter_enumerated()
            .map(|(l, d)| {
                J::obj(vec![
                    ("ty", J::s(ty_s(d.ty))),
                    ("name", J::opt(names[l.index()].clone().map(J::s))),
                    ("mut", J::Bool(d.mutability.is_mut())),
                ])
            })
            .collect();
        let blocks = body
            .basic_blocks
            .iter()
            .map(|bb| {
                J::obj(vec![
                    ("cleanup", J::Bool(bb.is_cleanup)),
                    ("stmts", J::Arr(bb.statements.iter().filter_map(|s| self.stmt_j(s)).collect())),
                    ("term", self.term_j(bb.terminator())),
                ])
            })
            .collect();
        J::obj(vec![
            ("arg_count", J::UInt(body.arg_count as u128)),
            ("locals", J::Arr(locals)),
            ("debug", J::Arr(dbg)),
            ("blocks", J::Arr(blocks)),
        ])
    }
}

fn fn_meta<'tcx>(tcx: TyCtxt<'tcx>, ldid: LocalDefId) -> Vec<(&'static str, J)> {
    let did = ldid.to_def_id();
    let dk = tcx.def_kind(did);
    let mut o = vec![
        ("def", J::s(path_s(tcx, did))),
        ("canon", J::s(canon(tcx, did))),
        ("dk", J::s(format!("{:?}", dk))),
        ("name", J::s(tcx.opt_item_name(did).map(|s| s.to_string()).unwrap_or_default())),
    ];
    o.extend(span_j(tcx, tcx.def_span(did)));
    let parent = tcx.parent(did);
    o.push(("parent", J::s(canon(tcx, parent))));
    {
        // generic parameter names in substitution order (parents first), lifetimes skipped —
        // the same order and filter as `args_j` uses for call-site generic arguments
        let mut names = vec![];
        let mut stack = vec![];
        let mut g = tcx.generics_of(did);
        loop {
            stack.push(g);
            match g.parent {
                Some(p) => g = tcx.generics_of(p),
                None => break,
            }
        }
        for g in stack.iter().rev() {
            for p in &g.own_params {
                if !matches!(p.kind, ty::GenericParamDefKind::Lifetime) {
                    names.push(J::s(p.name.to_string()));
                }
            }
        }
        o.push(("generics", J::Arr(names)));
    }
    if matches!(dk, DefKind::AssocFn | DefKind::AssocConst { .. }) {
        if let Some(imp) = tcx.impl_of_assoc(did) {
            o.push(("impl_self", J::s(ty_s(tcx.type_of(imp).skip_binder()))));
            if let Some(tr) = tcx.impl_opt_trait_ref(imp) {
                let tr = tr.skip_binder();
                o.push(("impl_trait", J::s(canon(tcx, tr.def_id))));
                o.push(("impl_trait_args", args_j(tr.args)));
                // a local trait that code outside the crate cannot name is an implementation detail (extension traits)
                let reach = match tr.def_id.as_local() {
                    Some(l) => tcx.effective_visibilities(()).is_reachable(l),
                    None => true,
                };
                o.push(("impl_trait_reachable", J::Bool(reach)));
            }
        } else if let Some(tr) = tcx.trait_of_assoc(did) {
            o.push(("in_trait", J::s(canon(tcx, tr))));
        }
    }
    if matches!(dk, DefKind::Fn | DefKind::AssocFn) {
        let sig = tcx.fn_sig(did).skip_binder().skip_binder();
        o.push(("unsafe", J::Bool(!sig.safety().is_safe())));
        o.push(("inputs", J::Arr(sig.inputs().iter().map(|t| J::s(ty_s(*t))).collect())));
        o.push(("output", J::s(ty_s(sig.output()))));
        o.push(("const", J::Bool(tcx.is_const_fn(did))));
        o.push(("vis", J::s(format!("{:?}", tcx.visibility(did)))));
    }
    o
}

fn hir_expr_j<'tcx>(
    tcx: TyCtxt<'tcx>,
    tr: &'tcx ty::TypeckResults<'tcx>,
    e: &'tcx hir::Expr<'tcx>,
    depth: usize,
) -> J {
    use hir::ExprKind as K;
    let ety = tr.expr_ty_opt(e).map(ty_s).unwrap_or_default();
    if depth > 200 {
        return J::obj(vec![("k", J::s("toodeep"))]);
    }
    let rec = |x: &'tcx hir::Expr<'tcx>| hir_expr_j(tcx, tr, x, depth + 1);
    let res_j = |res: Res, hid: hir::HirId| -> Vec<(&'static str, J)> {
        match res {
            Res::Def(dk, did) => {
                let mut v = vec![
                    ("rk", J::s(format!("{:?}", dk))),
                    ("def", J::s(path_s(tcx, did))),
                    ("canon", J::s(canon(tcx, did))),
                    ("name", J::s(tcx.opt_item_name(did).map(|s| s.to_string()).unwrap_or_default())),
                ];
                let args = tr.node_args(hid);
                v.push(("args", args_j(args)));
                if matches!(dk, DefKind::AssocConst { .. } | DefKind::AssocFn) {
                    if let Some(t) = tcx.trait_of_assoc(did) {
                        v.push(("trait", J::s(canon(tcx, t))));
                        if args.len() > 0 {
                            if let Some(st) = args[0].as_type() {
                                v.push(("self_ty", J::s(ty_s(st))));
                            }
                        }
                    } else if let Some(imp) = tcx.impl_of_assoc(did) {
                        v.push(("impl_self", J::s(ty_s(tcx.type_of(imp).skip_binder()))));
                    }
                }
                if let DefKind::Ctor(..) = dk {
                    let parent = tcx.parent(did);
                    v.push(("ctor_of", J::s(canon(tcx, parent))));
                    v.push((
                        "variant",
                        J::s(tcx.opt_item_name(parent).map(|s| s.to_string()).unwrap_or_default()),
                    ));
                }
                v
            }
            Res::Local(hid) => {
                vec![("rk", J::s("Local")), ("name", J::s(tcx.hir_name(hid).to_string()))]
            }
            other => vec![("rk", J::s("Other")), ("dbg", J::s(format!("{:?}", other)))],
        }
    };
    let mut o: Vec<(&'static str, J)> = match &e.kind {
        K::Path(qp) => {
            let res = tr.qpath_res(qp, e.hir_id);
            let mut v = vec![("k", J::s("path"))];
            v.extend(res_j(res, e.hir_id));
            v
        }
        K::Call(f, args) => vec![
            ("k", J::s("call")),
            ("f", rec(f)),
            ("args", J::Arr(args.iter().map(|a| rec(a)).collect())),
        ],
        K::MethodCall(seg, recv, args, _) => {
            let mut v = vec![("k", J::s("mcall")), ("name", J::s(seg.ident.to_string()))];
            if let Some(did) = tr.type_dependent_def_id(e.hir_id) {
                v.push(("def", J::s(path_s(tcx, did))));
            }
            v.push(("recv", rec(recv)));
            v.push(("args", J::Arr(args.iter().map(|a| rec(a)).collect())));
            v
        }
        K::Struct(qp, fields, _) => {
            let res = tr.qpath_res(qp, e.hir_id);
            let mut v = vec![("k", J::s("struct"))];
            v.extend(res_j(res, e.hir_id));
            v.push((
                "fields",
                J::Arr(
                    fields
                        .iter()
                        .map(|f| {
                            J::obj(vec![("name", J::s(f.ident.to_string())), ("e", rec(f.expr))])
                        })
                        .collect(),
                ),
            ));
            v
        }
        K::AddrOf(_, m, inner) => {
            vec![("k", J::s("addrof")), ("mut", J::Bool(m.is_mut())), ("e", rec(inner))]
        }
        K::Array(es) => vec![("k", J::s("array")), ("es", J::Arr(es.iter().map(|a| rec(a)).collect()))],
        K::Tup(es) => vec![("k", J::s("tup")), ("es", J::Arr(es.iter().map(|a| rec(a)).collect()))],
        K::Repeat(inner, _) => vec![("k", J::s("repeat")), ("e", rec(inner))],
        K::Lit(lit) => {
            let mut v = vec![("k", J::s("lit"))];
            match lit.node {
                rustc_ast::LitKind::Int(n, _) => v.push(("int", J::UInt(n.get()))),
                rustc_ast::LitKind::Str(s, _) => v.push(("str", J::s(s.to_string()))),
                rustc_ast::LitKind::Bool(b) => v.push(("bool", J::Bool(b))),
                rustc_ast::LitKind::Byte(b) => v.push(("int", J::UInt(b as u128))),
                rustc_ast::LitKind::Char(c) => v.push(("char", J::s(c.to_string()))),
                _ => v.push(("dbg", J::s(format!("{:?}", lit.node)))),
            }
            v
        }
        K::Binary(op, a, b) => vec![
            ("k", J::s("bin")),
            ("op", J::s(op.node.as_str())),
            ("a", rec(a)),
            ("b", rec(b)),
        ],
        K::Unary(op, a) => vec![("k", J::s("un")), ("op", J::s(format!("{:?}", op))), ("a", rec(a))],
        K::Cast(inner, _) => vec![("k", J::s("cast")), ("e", rec(inner))],
        K::DropTemps(inner) => return rec(inner),
        K::Field(inner, ident) => {
            vec![("k", J::s("field")), ("name", J::s(ident.to_string())), ("e", rec(inner))]
        }
        K::Index(a, b, _) => vec![("k", J::s("index")), ("a", rec(a)), ("b", rec(b))],
        K::If(c, t, el) => vec![
            ("k", J::s("if")),
            ("c", rec(c)),
            ("t", rec(t)),
            ("e", J::opt(el.map(|x| rec(x)))),
        ],
        K::Block(blk, _) => {
            let mut stmts = vec![];
            for s in blk.stmts {
                match &s.kind {
                    hir::StmtKind::Let(l) => {
                        let name = match l.pat.kind {
                            hir::PatKind::Binding(_, _, ident, _) => ident.to_string(),
                            _ => String::from("_"),
                        };
                        stmts.push(J::obj(vec![
                            ("k", J::s("let")),
                            ("name", J::s(name)),
                            ("init", J::opt(l.init.map(|x| rec(x)))),
                        ]));
                    }
                    hir::StmtKind::Expr(x) | hir::StmtKind::Semi(x) => {
                        stmts.push(J::obj(vec![("k", J::s("expr")), ("e", rec(x))]));
                    }
                    hir::StmtKind::Item(_) => stmts.push(J::obj(vec![("k", J::s("item"))])),
                }
            }
            vec![
                ("k", J::s("block")),
                ("stmts", J::Arr(stmts)),
                ("e", J::opt(blk.expr.map(|x| rec(x)))),
            ]
        }
        K::ConstBlock(_) => vec![("k", J::s("constblock"))],
        other => {
            let d = format!("{:?}", other);
            let d: String = d.chars().take(80).collect();
            vec![("k", J::s("other")), ("dbg", J::s(d))]
        }
    };
    o.push(("ty", J::s(ety)));
    J::obj(o)
}

fn dump<'tcx>(tcx: TyCtxt<'tcx>, dir: &str) {
    let krate = tcx.crate_name(rustc_hir::def_id::LOCAL_CRATE).to_string();
    let mut fns = vec![];
    let mut n_bodies = 0usize;
    for ldid in tcx.mir_keys(()).iter() {
        let ldid = *ldid;
        let did = ldid.to_def_id();
        let dk = tcx.def_kind(did);
        let (body, promoted): (&Body<'tcx>, bool) = match dk {
            DefKind::Fn | DefKind::AssocFn | DefKind::Closure => {
                if tcx.is_constructor(did) {
                    continue;
                }
                (tcx.optimized_mir(did), true)
            }
            DefKind::Const { .. }
            | DefKind::AssocConst { .. }
            | DefKind::AnonConst
            | DefKind::InlineConst
            | DefKind::Static { .. } => (tcx.mir_for_ctfe(did), true),
            _ => continue,
        };
        let tenv = TypingEnv::post_analysis(tcx, did);
        let cx = Cx { tcx, tenv, body };
        let mut o = fn_meta(tcx, ldid);
        o.push(("body", cx.body_j()));
        n_bodies += 1;
        if promoted {
            let proms = tcx.promoted_mir(did);
            let mut pj = vec![];
            for pb in proms.iter() {
                let pcx = Cx { tcx, tenv, body: pb };
                pj.push(pcx.body_j());
            }
            o.push(("promoted", J::Arr(pj)));
        }
        fns.push(J::obj(o));
    }

    // ADTs, constants with HIR trees, impls
    let mut adts = vec![];
    let mut consts = vec![];
    let mut impls = vec![];
    for ldid in tcx.hir_crate_items(()).definitions() {
        let did = ldid.to_def_id();
        let dk = tcx.def_kind(did);
        match dk {
            DefKind::Struct | DefKind::Enum | DefKind::Union => {
                let def = tcx.adt_def(did);
                let mut vs = vec![];
                for (vi, v) in def.variants().iter_enumerated() {
                    let discr = if def.is_enum() {
                        J::s(def.discriminant_for_variant(tcx, vi).val.to_string())
                    } else {
                        J::Null
                    };
                    vs.push(J::obj(vec![
                        ("name", J::s(v.name.to_string())),
                        ("idx", J::UInt(vi.index() as u128)),
                        ("discr", discr),
                        ("ctor", J::s(format!("{:?}", v.ctor_kind()))),
                        (
                            "fields",
                            J::Arr(
                                v.fields
                                    .iter()
                                    .map(|f| {
                                        J::obj(vec![
                                            ("name", J::s(f.name.to_string())),
                                            (
                                                "ty",
                                                J::s(ty_s(tcx.type_of(f.did).instantiate_identity().skip_norm_wip())),
                                            ),
                                            ("vis", J::s(format!("{:?}", f.vis))),
                                        ])
                                    })
                                    .collect(),
                            ),
                        ),
                    ]));
                }
                let mut o = vec![
                    ("def", J::s(path_s(tcx, did))),
                    ("canon", J::s(canon(tcx, did))),
                    ("kind", J::s(format!("{:?}", dk))),
                    ("variants", J::Arr(vs)),
                    // can code outside this crate name the type? (a type that cannot is an implementation detail)
                    ("reachable", J::Bool(tcx.effective_visibilities(()).is_reachable(ldid))),
                ];
                o.extend(span_j(tcx, tcx.def_span(did)));
                adts.push(J::obj(o));
            }
            DefKind::Const { .. } | DefKind::AssocConst { .. } => {
                if let Some(body) = tcx.hir_maybe_body_owned_by(ldid) {
                    let tr = tcx.typeck(ldid);
                    let mut o = fn_meta(tcx, ldid);
                    o.push(("ty", J::s(ty_s(tcx.type_of(did).instantiate_identity().skip_norm_wip()))));
                    o.push(("hir", hir_expr_j(tcx, tr, body.value, 0)));
                    // evaluated value for non-generic constants
                    let generics = tcx.generics_of(did);
                    if generics.count() == 0 || !generics.requires_monomorphization(tcx) {
                        if let Ok(v) = tcx.const_eval_poly(did) {
                            if let Some(si) = v.try_to_scalar_int() {
                                o.push(("int", J::UInt(si.to_bits(si.size()))));
                            }
                        }
                    }
                    consts.push(J::obj(o));
                }
            }
            DefKind::Impl { .. } => {
                let mut o = vec![
                    ("def", J::s(path_s(tcx, did))),
                    ("self_ty", J::s(ty_s(tcx.type_of(did).instantiate_identity().skip_norm_wip()))),
                ];
                if let Some(tr) = tcx.impl_opt_trait_ref(did) {
                    let tr = tr.skip_binder();
                    o.push(("trait", J::s(canon(tcx, tr.def_id))));
                    o.push(("trait_args", args_j(tr.args)));
                }
                let items: Vec<J> = tcx
                    .associated_items(did)
                    .in_definition_order()
                    .map(|it| J::s(it.name().to_string()))
                    .collect();
                o.push(("items", J::Arr(items)));
                // associated types the impl defines: `<X as Trait>::Name` is this type for Self = X
                let tenv_i = TypingEnv::post_analysis(tcx, did);
                let atys: Vec<J> = tcx
                    .associated_items(did)
                    .in_definition_order()
                    .filter(|it| it.is_type())
                    .map(|it| {
                        let t = tcx.type_of(it.def_id).instantiate_identity().skip_norm_wip();
                        let t = tcx.try_normalize_erasing_regions(tenv_i, rustc_middle::ty::Unnormalized::new_wip(t)).unwrap_or(t);
                        J::obj(vec![("name", J::s(it.name().to_string())), ("ty", J::s(ty_s(t)))])
                    })
                    .collect();
                o.push(("assoc_tys", J::Arr(atys)));
                let preds = tcx.predicates_of(did);
                o.push((
                    "preds",
                    J::Arr(
                        preds
                            .predicates
                            .iter()
                            .map(|(p, _)| J::s(with_no_trimmed_paths!(p.to_string())))
                            .collect(),
                    ),
                ));
                o.extend(span_j(tcx, tcx.def_span(did)));
                impls.push(J::obj(o));
            }
            _ => {}
        }
    }

    // re-exports of local types: `pub use inner::T` makes `outer::T` another name of `outer::inner::T`
    let mut reexports = vec![];
    let mut mods: Vec<LocalDefId> = vec![rustc_hir::def_id::CRATE_DEF_ID];
    for ldid in tcx.hir_crate_items(()).definitions() {
        if tcx.def_kind(ldid.to_def_id()) == DefKind::Mod {
            mods.push(ldid);
        }
    }
    for m in mods {
        let mpath = if m == rustc_hir::def_id::CRATE_DEF_ID { String::new() } else { path_s(tcx, m.to_def_id()) };
        for ch in tcx.module_children_local(m) {
            if let Res::Def(k, d) = ch.res {
                if d.is_local() && matches!(k, DefKind::Struct | DefKind::Enum | DefKind::Union | DefKind::Fn) {
                    let alias = if mpath.is_empty() { ch.ident.name.to_string() } else { format!("{}::{}", mpath, ch.ident.name) };
                    reexports.push(J::obj(vec![("alias", J::s(alias)), ("real", J::s(path_s(tcx, d)))]));
                }
            }
        }
    }

    let root = J::obj(vec![
        ("crate", J::s(krate.clone())),
        ("reexports", J::Arr(reexports)),
        ("n_bodies", J::UInt(n_bodies as u128)),
        ("fns", J::Arr(fns)),
        ("adts", J::Arr(adts)),
        ("consts", J::Arr(consts)),
        ("impls", J::Arr(impls)),
    ]);
    let mut s = String::new();
    root.write(&mut s);
    let crate_types = format!("{:?}", tcx.crate_types());
    let kind = if crate_types.contains("ProcMacro") { "pm" } else { "lib" };
    let test = if tcx.sess.is_test_crate() { "-test" } else { "" };
    let fname = format!("{}/{}.{}{}.{}.json", dir, krate, kind, test, std::process::id());
    let _ = std::fs::create_dir_all(dir);
    std::fs::write(&fname, s).expect("pcfacts: cannot write facts");
}
