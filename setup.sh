#!/bin/sh
# Build the facts driver offline and warm the dependency build of configuration A.
set -e
cd "$(dirname "$0")"
export CARGO_NET_OFFLINE=true
(cd driver && cargo build --release --offline)
python3 - <<'PY'
import sys, os
sys.path.insert(0, os.path.join(os.getcwd(), "rules"))
import facts
facts.ensure_driver()
for cfg in ("A", "B"):
    facts.load(cfg)
    print("facts for configuration %s extracted" % cfg)
PY
